"""Symbolic lane semantics of straight-line aarch64 clauses.

Each vector register is four 32-bit lanes holding sympy expressions over the operand lanes (L0..L3, R0..R3,
the immediate I).  A clause is interpreted once, instruction by instruction, from its dynasm source; the
output lanes must then equal the opcode's meaning on real numbers (rounding is not modelled: a fused
multiply-add and its unfused spelling are the same expression).  Anything outside the modelled subset makes
the lane unknown and the obligation is reported as not analysed - never as passed."""
import copy as _copy
import re

import sympy as sp

from . import a64 as X
from . import a64checks as XC
from . import asmchecks as AC

L = sp.symbols("L0:4", real=True)
R = sp.symbols("R0:4", real=True)
I = sp.Symbol("I", real=True)
ZERO = sp.Integer(0)


class Unknown(Exception):
    pass


class SymEmu:
    def __init__(self, assign, imm_lanes):
        self.assign = assign
        self.v = {}
        self.g = {}
        self.imm_lanes = imm_lanes
        self.reduced_nan_safe = True

    def phys(self, o):
        return o.name

    def get(self, o):
        n = o.name
        if n in self.v:
            return list(self.v[n])
        if n in self.assign:
            return list(self.assign[n])
        return [None] * 4

    def lanes(self, o):
        src = self.get(o)
        return [src[l] for l in o.lanes() if l < 4]

    def put(self, o, vals):
        n = o.name
        if o.lane is not None:
            cur = self.get(o)
            for l, val in zip(o.lanes(), vals):
                if l < 4:
                    cur[l] = val
            self.v[n] = cur
        else:
            k = max(1, o.nbytes // 4)
            vals = (list(vals) + [None] * k)[:k]
            self.v[n] = (vals + [ZERO] * 4)[:4]

    @staticmethod
    def _fimm(t):
        t = t.lstrip("#")
        try:
            return sp.nsimplify(float(t))
        except ValueError:
            return None

    def step(self, x):
        m, ops = x.mnem, x.ops
        e = X.effect(x)
        if e.kind in ("label", "nop"):
            return
        if e.kind in ("jmp", "jcc", "cmp", "call", "load", "store", "ret") or e.unknown:
            raise Unknown("`%r` is outside the straight-line subset" % x)
        d = ops[0]
        vec = [o for o in ops if o.kind == "vec"]
        lanewise = {"fadd": lambda a, b: a + b, "fsub": lambda a, b: a - b, "fmul": lambda a, b: a * b, "fdiv": lambda a, b: a / b,
                    "fmax": lambda a, b: sp.Max(a, b), "fmin": lambda a, b: sp.Min(a, b), "fmaxnm": lambda a, b: sp.Max(a, b), "fminnm": lambda a, b: sp.Min(a, b)}
        unary = {"fneg": lambda a: -a, "fabs": lambda a: sp.Abs(a), "fsqrt": lambda a: sp.sqrt(a)}
        if d.kind == "gpr":
            if m in ("fmov", "umov", "mov") and len(ops) == 2 and ops[1].kind == "vec":
                self.g[d.name] = ("lanes", tuple(self.lanes(ops[1])[: max(1, d.width // 4)]))
            else:
                self.g[d.name] = None
            return
        if d.kind != "vec":
            raise Unknown("`%r`" % x)
        if m in lanewise and len(vec) == 3 and len(ops) == 3:
            a, b = self.lanes(ops[1]), self.lanes(ops[2])
            self.put(d, [None if (p is None or q is None) else lanewise[m](p, q) for p, q in zip(a, b)])
        elif m in unary and len(vec) == 2 and len(ops) == 2:
            self.put(d, [None if p is None else unary[m](p) for p in self.lanes(ops[1])])
        elif m in ("fmla", "fmls") and len(vec) == 3:
            acc, a, b = self.lanes(d), self.lanes(ops[1]), self.lanes(ops[2])
            sgn = 1 if m == "fmla" else -1
            self.put(d, [None if None in (c, p, q) else c + sgn * p * q for c, p, q in zip(acc, a, b)])
        elif m == "rev64" and len(vec) == 2 and ops[1].arr in ("s2", "s4"):
            src = self.lanes(ops[1])
            out = []
            for k in range(0, len(src), 2):
                out += [src[k + 1], src[k]]
            self.put(d, out)
        elif m == "dup" and len(ops) == 2:
            n = max(1, d.nbytes // 4)
            if ops[1].kind == "vec" and ops[1].lane is not None:
                src = self.lanes(ops[1])
                if ops[1].elem == "d" or d.arr == "d2":
                    self.put(d, (src + src)[:n])
                else:
                    self.put(d, [src[0]] * n)
            elif ops[1].kind == "gpr":
                val = self.g.get(ops[1].name)
                self.put(d, [val[1][0] if val and val[0] == "lanes" else None] * n)
            else:
                raise Unknown("`%r`" % x)
        elif m in ("mov", "fmov", "ins") and len(ops) == 2 and ops[1].kind == "vec":
            vals = self.lanes(ops[1])
            if d.lane is None and ops[1].lane is None and d.nbytes != ops[1].nbytes:
                vals = vals[: max(1, d.nbytes // 4)]
            self.put(d, vals)
        elif m == "orr" and len(vec) == 3 and ops[1].name == ops[2].name:
            self.put(d, self.lanes(ops[1]))
        elif m == "fcmeq" and len(vec) == 3 and ops[1].name == ops[2].name:
            # "is not NaN": on the real numbers this model speaks about, always (all ones)
            self.put(d, ["ones"] * max(1, d.nbytes // 4))
        elif m in ("mvn", "not") and len(vec) == 2 and all(q in ("ones", "zeros") for q in self.lanes(ops[1])):
            self.put(d, ["zeros" if q == "ones" else "ones" for q in self.lanes(ops[1])])
        elif m in ("and", "orr", "bic", "orn") and len(vec) == 3 and any(q in ("ones", "zeros") for q in self.lanes(ops[1]) + self.lanes(ops[2])):
            out = []
            for p_, q_ in zip(self.lanes(ops[1]), self.lanes(ops[2])):
                if m in ("bic", "orn") and q_ in ("ones", "zeros"):
                    q_ = "zeros" if q_ == "ones" else "ones"
                if m in ("bic", "orn") and q_ not in ("ones", "zeros"):
                    out.append(None)
                    continue
                base = "and" if m in ("and", "bic") else "orr"
                mk, other = (p_, q_) if p_ in ("ones", "zeros") else (q_, p_)
                if other in ("ones", "zeros"):
                    both = (mk == "ones" and other == "ones") if base == "and" else (mk == "ones" or other == "ones")
                    out.append("ones" if both else "zeros")
                elif base == "and":
                    out.append(other if mk == "ones" else "zeros")
                else:
                    out.append(other if mk == "zeros" else "ones")
            self.put(d, out)
        elif m == "fmov" and len(ops) == 2 and ops[1].kind == "imm":
            v = self._fimm(ops[1].text)
            if v is None:
                raise Unknown("`%r`" % x)
            self.put(d, [v])
        elif m == "fmov" and len(ops) == 2 and ops[1].kind == "gpr":
            val = self.g.get(ops[1].name)
            self.put(d, list(val[1]) if val and val[0] == "lanes" else [None])
        elif m == "movi" and len(ops) == 2 and ops[1].kind == "imm" and ops[1].text in ("0", "0x0"):
            self.put(d, [ZERO] * max(1, d.nbytes // 4))
        elif m in ("fminnmv", "fmaxnmv", "fminv", "fmaxv") and len(vec) == 2:
            src = self.lanes(ops[1])
            if None in src:
                self.put(d, [None])
            else:
                self.put(d, [(sp.Min if "min" in m else sp.Max)(*src)])
            if m in ("fminv", "fmaxv"):
                self.reduced_nan_safe = False
        elif m in ("zip1", "zip2") and len(vec) == 3:
            a, b = self.lanes(ops[1]), self.lanes(ops[2])
            n = len(a)
            half = range(0, n // 2) if m == "zip1" else range(n // 2, n)
            out = []
            for k in half:
                out += [a[k], b[k]]
            self.put(d, out)
        else:
            n = max(1, (d.nbytes if d.lane is None else X.ELEM_BYTES[d.elem]) // 4)
            self.put(d, [None] * n)


def _eq(a, b):
    if a is None or b is None:
        return False
    try:
        return sp.simplify(a - b) == 0
    except Exception:  # noqa: BLE001
        return False


def _imm_lanes(kind):
    # what load_imm leaves in the immediate register
    return {"point": [I, ZERO, ZERO, ZERO], "interval": [I, I, ZERO, ZERO], "float_slice": [I, I, I, I], "grad_slice": [I, ZERO, ZERO, ZERO]}[kind]


def _grad(op, a, b=None):
    """meaning of a gradient opcode on [v, dx, dy, dz] lanes"""
    if op == "add":
        return [a[i] + b[i] for i in range(4)]
    if op == "sub":
        return [a[i] - b[i] for i in range(4)]
    if op == "neg":
        return [-a[i] for i in range(4)]
    if op == "mul":
        return [a[0] * b[0]] + [a[0] * b[i] + b[0] * a[i] for i in (1, 2, 3)]
    if op == "div":
        return [a[0] / b[0]] + [(b[0] * a[i] - a[0] * b[i]) / b[0] ** 2 for i in (1, 2, 3)]
    if op == "sqrt":
        return [sp.sqrt(a[0])] + [a[i] / (2 * sp.sqrt(a[0])) for i in (1, 2, 3)]
    if op == "square":
        return [a[0] ** 2] + [2 * a[0] * a[i] for i in (1, 2, 3)]
    if op == "recip":
        return [1 / a[0]] + [-a[i] / a[0] ** 2 for i in (1, 2, 3)]
    if op == "copy":
        return list(a)
    if op in ("floor", "ceil"):
        # piecewise constant: zero partial derivatives
        return [sp.floor(a[0]) if op == "floor" else sp.ceiling(a[0]), ZERO, ZERO, ZERO]
    return None


def _lanewise(op, a, b, n):
    f = {"add": lambda p, q: p + q, "sub": lambda p, q: p - q, "mul": lambda p, q: p * q, "div": lambda p, q: p / q,
         "neg": lambda p, q: -p, "abs": lambda p, q: sp.Abs(p), "sqrt": lambda p, q: sp.sqrt(p), "square": lambda p, q: p * p,
         "recip": lambda p, q: 1 / p, "copy": lambda p, q: p, "floor": lambda p, q: sp.floor(p), "ceil": lambda p, q: sp.ceiling(p), "min": lambda p, q: sp.Min(p, q), "max": lambda p, q: sp.Max(p, q)}.get(op)
    if f is None:
        return None
    return [f(a[i], b[i] if b is not None else None) for i in range(n)]


def _interval(op, a, b=None):
    """meaning of an interval opcode on [lower, upper] lanes (the branch-free ones)"""
    if op == "add":
        return [a[0] + b[0], a[1] + b[1]]
    if op == "sub":
        return [a[0] - b[1], a[1] - b[0]]
    if op == "neg":
        return [-a[1], -a[0]]
    if op == "copy":
        return [a[0], a[1]]
    if op in ("floor", "ceil"):
        f_ = sp.floor if op == "floor" else sp.ceiling
        return [f_(a[0]), f_(a[1])]
    if op == "mul":
        c = [a[i] * b[j] for i in (0, 1) for j in (0, 1)]
        return [sp.Min(*c), sp.Max(*c)]
    return None


def expected(kind, op, a, b):
    if kind == "grad_slice":
        return _grad(op, a, b)
    if kind == "interval":
        return _interval(op, a, b)
    n = 1 if kind == "point" else 4
    return _lanewise(op, a, b, n)


OPS_UNARY = ("neg", "abs", "sqrt", "square", "recip", "copy", "floor", "ceil")
OPS_BINARY = ("add", "sub", "mul", "div", "min", "max")


def check_lane_semantics(rule, kind, root=None):
    """every branch-free arithmetic clause leaves `op(lhs, rhs)` in the lanes of its output, for register and
    immediate operands alike"""
    p = X.path_of(kind)
    builders = X.load_builders(p, root)
    need = XC.NEEDED_LANES[kind]
    for op in OPS_UNARY + OPS_BINARY:
        name = "build_%s" % op
        b = builders.get(name)
        if b is None:
            rule.lost("aarch64 %s %s" % (kind, name))
            continue
        if b.helper_calls:
            continue  # out of line: the callback rule covers it
        ins = X.flat_ins(b)
        if any(X.effect(x).kind in ("jmp", "jcc", "call", "load", "store") for x in ins if x.label is None):
            if kind == "interval" and op in ("mul", "div"):
                pass
            else:
                continue  # branching clauses: choice protocol / hazards rules
        outp = AC.out_param(b)
        inputs = [n_ for (n_, ty) in b.params if ty == "u8" and n_ != outp]
        if not outp or len(inputs) != (1 if op in OPS_UNARY else 2):
            rule.lost("aarch64 %s %s: operand registers" % (kind, name))
            continue
        if kind == "interval" and op == "div":
            # the quotient path only: skip the domain test in front of it
            k0 = next((i for i, x in enumerate(ins) if x.mnem == "rev64"), None)
            if k0 is None:
                rule.lost("aarch64 interval build_div: the corner quotients")
                continue
            ins = ins[k0:]
        elif any(X.effect(x).kind in ("jmp", "jcc") for x in ins if x.label is None):
            continue
        # operand placements: distinct registers, and the output aliased with each input (the allocator may)
        scen = [("distinct", {})]
        for n_ in inputs:
            scen.append(("out = %s" % n_, {"T:%s" % outp: "T:%s" % n_}))
        bad = None
        for desc, alias in scen:
            assign = {"T:%s" % inputs[0]: list(L)}
            if len(inputs) == 2:
                assign["T:%s" % inputs[1]] = list(R)
            em = SymEmu(assign, _imm_lanes(kind))
            try:
                for x in ins:
                    if alias:
                        x = _copy.deepcopy(x)
                        for o in x.ops:
                            if o.kind == "vec" and o.name in alias:
                                o.name = alias[o.name]
                    em.step(x)
            except Unknown as e_:
                bad = ("unanalysed", str(e_))
                break
            out_name = alias.get("T:%s" % outp, "T:%s" % outp)
            got = (em.v.get(out_name) or [None] * 4)
            a = list(L)
            bb = list(R) if len(inputs) == 2 else None
            if kind == "interval" and op == "div":
                c = [a[i] / bb[j] for i in (0, 1) for j in (0, 1)]
                want = [sp.Min(*c), sp.Max(*c)]
            else:
                want = expected(kind, op, a, bb)
            if want is None:
                bad = ("unanalysed", "no closed form for %s %s" % (kind, op))
                break
            for l in need:
                if l >= len(want):
                    continue
                if got[l] is None:
                    bad = ("unknown", "lane %d of the output is computed by instructions outside the modelled subset (%s)" % (l, desc))
                    break
                if not _eq(got[l], want[l]):
                    bad = ("value", "lane %d of the output is `%s`, the opcode means `%s` (%s)" % (l, got[l], want[l], desc))
                    break
            if bad:
                break
            if kind == "interval" and op in ("mul", "div") and not em.reduced_nan_safe:
                bad = ("value", "the corner reduction uses fminv / fmaxv, which return NaN when any corner is NaN (0 x inf); the interpreter's min / max skip NaN corners (fminnmv / fmaxnmv do)")
                break
        if bad is None:
            rule.ok("aarch64 %s %s computes %s on every lane, also with the output aliased to an operand" % (kind, name, op), file=p, line=b.fn["ln"])
        elif bad[0] == "value":
            rule.bad("a64|%s|%s|sem" % (kind, name), "aarch64 %s %s: %s" % (kind, name, bad[1]), "%s:%d" % (p, b.fn["ln"]))
        else:
            rule.skip("aarch64 %s %s" % (kind, name), bad[1], count=True)
    # immediate forms written out by hand (the trait's defaults go through load_imm + the register form)
    for name, op, swap_neg in (("build_mul_imm", "mul", True), ("build_sub_reg_imm", "sub", False)):
        b = builders.get(name)
        if b is None or kind != "interval":
            continue
        outp = AC.out_param(b)
        inputs = [n_ for (n_, ty) in b.params if ty == "u8" and n_ != outp]
        vs = X.block_variants(b) or []
        res = []
        for desc, ins in vs:
            em = SymEmu({"T:%s" % inputs[0]: list(L), str(X.imm_reg(root)): _imm_lanes(kind)}, _imm_lanes(kind))
            try:
                for x in ins:
                    em.step(x)
            except Unknown as e_:
                res.append((desc, None, str(e_)))
                continue
            res.append((desc, em.v.get("T:%s" % outp), None))
        ok = bool(res)
        msg = ""
        for desc, got, err in res:
            if got is None:
                ok = False
                msg = err or "output never written"
                break
            if op == "sub":
                want = [L[0] - I, L[1] - I]
            else:
                dn = desc.replace(" ", "")
                neg = "imm<0.0" in dn and not dn.startswith("!")
                want = [L[1] * I, L[0] * I] if neg else [L[0] * I, L[1] * I]
            if not (_eq(got[0], want[0]) and _eq(got[1], want[1])):
                ok = False
                msg = "under `%s` the result is [%s, %s], expected [%s, %s]" % (desc or "always", got[0], got[1], want[0], want[1])
                break
        if ok:
            rule.ok("aarch64 interval %s: bounds multiplied / shifted by the immediate, swapped when it is negative" % name, file=p, line=b.fn["ln"])
        else:
            rule.bad("a64|interval|%s|sem" % name, "aarch64 interval %s: %s" % (name, msg), "%s:%d" % (p, b.fn["ln"]))


# ---------------------------------------------------------------------------
# domain guards of the interval clauses


def _path_conditions(ins, assign):
    """enumerate the paths of a clause; on each, the comparisons that steered it as (lane expression, relation,
    taken?) plus the instructions of the path.  Modelled: `fcmp S(x), 0.0` + b.gt / b.mi / b.lt, and the mask
    idiom `fcmXX v.s2, V(x).s2, 0.0 ; fmov x15, d ; tst x15, bit ; b.ne / b.eq`."""
    succ, probs = X.build_cfg(ins)
    if probs:
        return None
    paths, cyclic = X.enumerate_paths(ins, succ)
    if cyclic:
        return None
    out = []
    for path in paths:
        idx = [i for i in path if not isinstance(i, str)]
        em = SymEmu(dict(assign), None)
        flags = None
        masks = {}
        gmask = {}
        conds = []
        ok = True
        for pos, i in enumerate(idx):
            x = ins[i]
            if x.label is not None:
                continue
            e = X.effect(x)
            m = x.mnem
            nxt = idx[pos + 1] if pos + 1 < len(idx) else len(ins)
            if m == "fcmp" and len(x.ops) == 2:
                a = em.lanes(x.ops[0])[0] if x.ops[0].kind == "vec" else None
                if x.ops[1].kind == "imm":
                    bv = SymEmu._fimm(x.ops[1].text)
                else:
                    bv = em.lanes(x.ops[1])[0]
                flags = ("fcmp", a, bv)
                continue
            if m in ("fcmlt", "fcmle", "fcmgt", "fcmge", "fcmeq") and len(x.ops) == 3 and x.ops[2].kind == "imm":
                src = em.lanes(x.ops[1])
                rel = {"fcmlt": "<", "fcmle": "<=", "fcmgt": ">", "fcmge": ">=", "fcmeq": "=="}[m]
                masks[x.ops[0].name] = [(v_, rel, SymEmu._fimm(x.ops[2].text)) for v_ in src]
                em.put(x.ops[0], [None] * len(src))
                continue
            if m == "fmov" and len(x.ops) == 2 and x.ops[0].kind == "gpr" and x.ops[1].kind == "vec" and x.ops[1].name in masks:
                gmask[x.ops[0].name] = masks[x.ops[1].name]
                continue
            if m == "tst" and len(x.ops) == 2 and x.ops[0].kind == "gpr" and x.ops[0].name in gmask and x.ops[1].kind == "imm":
                try:
                    bit = int(x.ops[1].text.replace("_", ""), 0)
                except ValueError:
                    ok = False
                    break
                lane = 0 if bit < (1 << 32) else 1
                mk = gmask[x.ops[0].name]
                flags = ("mask", mk[lane] if lane < len(mk) else None)
                continue
            if e.kind == "jcc":
                taken = nxt != i + 1
                cc = m[2:]
                if flags is None:
                    ok = False
                    break
                if flags[0] == "fcmp":
                    if cc in ("vs", "vc"):
                        conds.append(((flags[1], "unord", flags[2]), taken if cc == "vs" else not taken))
                        continue
                    rel = {"gt": ">", "mi": "<", "lt": "<", "ge": ">=", "le": "<=", "ls": "<=", "hi": ">", "eq": "==", "ne": "!="}.get(cc)
                    if rel is None or flags[1] is None:
                        ok = False
                        break
                    conds.append(((flags[1], rel, flags[2]), taken))
                else:
                    if flags[1] is None or cc not in ("ne", "eq"):
                        ok = False
                        break
                    conds.append((flags[1], taken if cc == "ne" else not taken))
                continue
            if e.kind == "jmp":
                continue
            try:
                em.step(x)
            except Unknown:
                # instructions outside the value subset only make lanes unknown here
                for o in e.writes:
                    if o.kind == "vec":
                        em.put(o, [None] * 4)
        out.append((conds, [ins[i] for i in idx], ok, em))
    return out


def check_domain_guards(rule, root=None):
    """interval reciprocal, quotient and square root are only defined away from zero / for non-negative
    arguments; the clause must fill the output with NaN exactly when the interpreter's guard does:
    recip / div: unless divisor.lower > 0 or divisor.upper < 0; sqrt: when lower < 0"""
    p = X.path_of("interval")
    builders = X.load_builders(p, root)
    table = {
        "build_recip": (0, [((L[0], ">", ZERO), (L[1], "<", ZERO))]),
        "build_div": (1, [((R[0], ">", ZERO), (R[1], "<", ZERO))]),
        "build_sqrt": (0, None),
    }
    for name, (which, _w) in table.items():
        b = builders.get(name)
        if b is None:
            rule.lost("aarch64 interval %s" % name)
            continue
        outp = AC.out_param(b)
        inputs = [n_ for (n_, ty) in b.params if ty == "u8" and n_ != outp]
        assign = {"T:%s" % inputs[0]: list(L)}
        if len(inputs) > 1:
            assign["T:%s" % inputs[1]] = list(R)
        res = _path_conditions(X.flat_ins(b), assign)
        if not res or not all(r_[2] for r_ in res):
            rule.skip("aarch64 interval %s" % name, "guard idiom outside the modelled subset", count=True)
            continue
        probs = []
        dom = list(L) if which == 0 else list(R)
        for conds, pins, _ok, _em in res:
            nan = any("to_bits" in " ".join(o.text for o in x.ops) and "NAN" in " ".join(o.text for o in x.ops) for x in pins)
            facts = set()
            for (a_, rel, b_), truth in conds:
                facts.add((str(a_), rel, str(b_), truth))
            if name in ("build_recip", "build_div"):
                pos = (str(dom[0]), ">", "0", True) in facts
                neg = (str(dom[1]), "<", "0", True) in facts
                notpos = (str(dom[0]), ">", "0", False) in facts
                notneg = (str(dom[1]), "<", "0", False) in facts
                if nan and not (notpos and notneg):
                    probs.append("the NaN result is produced on a path that did not establish both `lower > 0` false and `upper < 0` false for the divisor (conditions: %s)" % sorted(facts))
                if not nan and not (pos or (notpos and neg)):
                    probs.append("a quotient is computed on a path where neither `divisor.lower > 0` nor `divisor.upper < 0` is established (conditions: %s): a divisor that spans zero gets a finite interval" % sorted(facts))
            else:
                neglo = (str(dom[0]), "<", "0", True) in facts
                nonneg = (str(dom[0]), "<", "0", False) in facts
                if nan and not neglo:
                    probs.append("sqrt yields NaN on a path that did not find `lower < 0`")
                if not nan and not nonneg:
                    probs.append("sqrt is computed on a path that did not rule out `lower < 0` (conditions: %s)" % sorted(facts))
        if probs:
            rule.bad("a64|interval|%s|guard" % name, "aarch64 interval %s: %s" % (name, probs[0]), "%s:%d" % (p, b.fn["ln"]))
        else:
            rule.ok("aarch64 interval %s: NaN exactly when its argument leaves the domain (%d paths)" % (name, len(res)), file=p, line=b.fn["ln"])


# ---------------------------------------------------------------------------
# mask logic: compare / not / and / or (the branch-free forms)


class Msk:
    """all-ones where the condition holds, all-zeros elsewhere"""

    def __init__(self, b):
        self.b = b


class Sel:
    """bitwise OR of (mask AND value) terms"""

    def __init__(self, terms):
        self.terms = list(terms)


NANV = sp.Symbol("NaN")


def _atom(kind, a, b=None):
    return sp.Symbol("%s[%s%s]" % (kind, a, "," + str(b) if b is not None else ""))


class MaskEmu(SymEmu):
    def step(self, x):
        m, ops = x.mnem, x.ops
        e = X.effect(x)
        if e.kind in ("label", "nop"):
            return
        if e.kind in ("load", "store") and any(o.kind == "mem" and o.base in ("x1", "x2") for o in ops):
            return  # the choice byte traffic of the tracing and / or: the protocol rule's business
        if e.kind in ("jmp", "jcc", "cmp", "call", "load", "store", "ret") or e.unknown:
            raise Unknown("`%r` is outside the straight-line subset" % x)
        d = ops[0]
        if d.kind == "gpr":
            if m == "mov" and len(ops) == 2 and ops[1].kind == "imm" and "NAN" in ops[1].text:
                self.g[d.name] = ("lanes", (NANV,))
            elif m in ("fmov", "umov", "mov") and len(ops) == 2 and ops[1].kind == "vec":
                self.g[d.name] = ("lanes", tuple(self.lanes(ops[1])[: max(1, d.width // 4)]))
            else:
                self.g[d.name] = None
            return
        vec = [o for o in ops if o.kind == "vec"]
        if m in ("fcmeq", "fcmgt", "fcmge", "fcmlt", "fcmle", "cmeq") and len(ops) == 3:
            a = self.lanes(ops[1])
            if ops[2].kind == "vec":
                b = self.lanes(ops[2])
                same = ops[1].name == ops[2].name and ops[1].lanes() == ops[2].lanes()
                out = []
                for p, q in zip(a, b):
                    if p is None or q is None or isinstance(p, (Msk, Sel)) or isinstance(q, (Msk, Sel)):
                        out.append(None)
                    elif m == "fcmeq" and same:
                        out.append(Msk(_atom("num", p)))
                    elif m == "fcmgt":
                        out.append(Msk(_atom("gt", p, q)))
                    elif m == "fcmge":
                        out.append(Msk(_atom("ge", p, q)))
                    elif m == "fcmeq":
                        out.append(Msk(_atom("eq", p, q)))
                    else:
                        out.append(None)
                self.put(d, out)
            elif ops[2].kind == "imm" and ops[2].text.lstrip("#") in ("0", "0.0"):
                kind_ = {"fcmeq": "eq0", "cmeq": "biteq0", "fcmgt": "gt0", "fcmge": "ge0", "fcmlt": "lt0", "fcmle": "le0"}[m]
                self.put(d, [None if (p is None or isinstance(p, (Msk, Sel))) else Msk(_atom(kind_, p)) for p in a])
            else:
                raise Unknown("`%r`" % x)
            return
        if m in ("and", "orr", "bic") and len(vec) == 3:
            a, b = self.lanes(ops[1]), self.lanes(ops[2])
            out = []
            for p, q in zip(a, b):
                out.append(self._bit(m, p, q))
            self.put(d, out)
            return
        if m in ("mvn", "not") and len(vec) == 2:
            out = []
            for p in self.lanes(ops[1]):
                out.append(Msk(sp.Not(p.b)) if isinstance(p, Msk) else None)
            self.put(d, out)
            return
        if m == "fmov" and len(ops) == 2 and ops[1].kind == "gpr":
            val = self.g.get(ops[1].name)
            self.put(d, list(val[1]) if val and val[0] == "lanes" else [None])
            return
        SymEmu.step(self, x)

    @staticmethod
    def _bit(op, p, q):
        if p is None or q is None:
            return None
        if isinstance(p, Msk) and isinstance(q, Msk):
            return Msk(sp.And(p.b, q.b) if op == "and" else (sp.Or(p.b, q.b) if op == "orr" else sp.And(p.b, sp.Not(q.b))))
        if op == "bic":
            return None
        if op == "and":
            if isinstance(q, Msk) and not isinstance(p, Msk):
                p, q = q, p
            if isinstance(p, Msk):
                if isinstance(q, Sel):
                    return Sel([(sp.And(p.b, g), v) for g, v in q.terms])
                if q == ZERO:
                    return ZERO
                return Sel([(p.b, q)])
            if p == ZERO or q == ZERO:
                return ZERO
            return None
        # orr
        def terms(v):
            if isinstance(v, Sel):
                return v.terms
            if v == ZERO:
                return []
            if isinstance(v, Msk):
                return None
            return [(sp.true, v)]
        tp, tq = terms(p), terms(q)
        if tp is None or tq is None:
            return None
        return Sel(tp + tq)


def _sel_equal(got, want):
    """two guarded ORs denote the same value under every consistent truth assignment of their atoms"""
    import itertools

    def norm(v):
        if isinstance(v, Sel):
            return v.terms
        if isinstance(v, Msk) or v is None:
            return None
        if v == ZERO:
            return []
        return [(sp.true, v)]

    g, w = norm(got), norm(want)
    if g is None or w is None:
        return False, "not a guarded value"
    atoms = sorted({a for gd, _v in g + w for a in (gd.atoms(sp.Symbol) if gd not in (sp.true, sp.false) else set())}, key=str)
    for bits in itertools.product((False, True), repeat=len(atoms)):
        env = dict(zip(atoms, bits))
        # consistency: gt[a,b] and gt[b,a] exclude each other; a NaN operand compares false
        ok = True
        names = {str(a): v for a, v in env.items()}
        for n_, v in names.items():
            mm = re.fullmatch(r"gt\[(.+),(.+)\]", n_)
            if mm and v:
                if names.get("gt[%s,%s]" % (mm.group(2), mm.group(1))):
                    ok = False
                for side in (mm.group(1), mm.group(2)):
                    if names.get("num[%s]" % side) is False:
                        ok = False
        if not ok:
            continue
        def active(ts):
            out = set()
            for gd, v in ts:
                val = gd.subs(env) if gd not in (sp.true, sp.false) else gd
                if val == sp.true:
                    out.add(sp.simplify(v) if v is not NANV else v)
            return out
        ga, wa = active(g), active(w)
        if ga != wa:
            return False, "when %s the clause yields %s, the opcode means %s" % (", ".join("%s%s" % ("" if v else "not ", a) for a, v in env.items()), sorted(map(str, ga)) or "0", sorted(map(str, wa)) or "0")
    return True, ""


def check_mask_logic(rule, kind, root=None):
    """compare / not / and / or are built from compare masks and bitwise selects.  Interpreted on symbolic
    masks, each output lane must be: compare -> -1 where lhs < rhs, +1 where lhs > rhs, NaN where either is
    NaN, else 0; not -> 1 where the argument is (float) zero; and -> lhs where lhs == 0 else rhs; or -> lhs
    where lhs != 0 else rhs"""
    if kind == "interval":
        return
    p = X.path_of(kind)
    builders = X.load_builders(p, root)
    need = XC.NEEDED_LANES[kind]
    one, mone = sp.Integer(1), sp.Integer(-1)
    for name in ("build_compare", "build_not", "build_and", "build_or"):
        b = builders.get(name)
        if b is None:
            rule.lost("aarch64 %s %s" % (kind, name))
            continue
        ins = [x for x in X.flat_ins(b) if x.label is None]
        outp = AC.out_param(b)
        inputs = [n_ for (n_, ty) in b.params if ty == "u8" and n_ != outp]
        scen = [("distinct", {})] + [("out = %s" % n_, {"T:%s" % outp: "T:%s" % n_}) for n_ in inputs]
        verdict = None
        for desc, alias in scen:
            assign = {"T:%s" % inputs[0]: list(L)}
            if len(inputs) == 2:
                assign["T:%s" % inputs[1]] = list(R)
            em = MaskEmu(assign, None)
            try:
                for x in ins:
                    if alias:
                        x = _copy.deepcopy(x)
                        for o in x.ops:
                            if o.kind == "vec" and o.name in alias:
                                o.name = alias[o.name]
                    em.step(x)
            except Unknown as e_:
                verdict = ("skip", str(e_))
                break
            got = em.v.get(alias.get("T:%s" % outp, "T:%s" % outp)) or [None] * 4
            for l in need:
                # the deciding lane: lane l for the sample-wise evaluators, lane 0 (the value) for gradients
                k = 0 if kind == "grad_slice" else l
                a, bq = L[k], (R[k] if len(inputs) == 2 else None)
                if name == "build_compare":
                    if kind == "grad_slice" and l > 0:
                        want = ZERO
                    else:
                        want = Sel([(_atom("gt", bq, a), mone), (_atom("gt", a, bq), one), (sp.Not(sp.And(_atom("num", a), _atom("num", bq))), NANV)])
                elif name == "build_not":
                    want = ZERO if (kind == "grad_slice" and l > 0) else Sel([(_atom("eq0", a), one)])
                elif name == "build_and":
                    want = Sel([(_atom("eq0", a), L[l]), (sp.Not(_atom("eq0", a)), R[l])])
                else:
                    want = Sel([(sp.Not(_atom("eq0", a)), L[l]), (_atom("eq0", a), R[l])])
                ok, why = _sel_equal(got[l], want)
                if got[l] is None or isinstance(got[l], Msk):
                    verdict = ("skip", "lane %d of the output is built by instructions outside the modelled subset (%s)" % (l, desc))
                    break
                if not ok:
                    verdict = ("bad", "lane %d (%s): %s" % (l, desc, why))
                    break
            if verdict:
                break
        if verdict is None:
            rule.ok("aarch64 %s %s: mask logic gives the opcode's value in every lane" % (kind, name), file=p, line=b.fn["ln"])
        elif verdict[0] == "bad":
            rule.bad("a64|%s|%s|mask" % (kind, name), "aarch64 %s %s: %s" % (kind, name, verdict[1]), "%s:%d" % (p, b.fn["ln"]))
        else:
            rule.skip("aarch64 %s %s" % (kind, name), verdict[1], count=True)



# ---------------------------------------------------------------------------
# piecewise interval clauses: one sign class at a time

_SIGNS = ("neg", "zero", "pos")


def _class_symbol(name, sign):
    if sign == "zero":
        return ZERO
    return sp.Symbol(name, real=True, negative=True) if sign == "neg" else sp.Symbol(name, real=True, positive=True)


def _holds(sign, rel):
    """truth of `x rel 0` for x of the given sign"""
    v = {"neg": -1, "zero": 0, "pos": 1}[sign]
    return {"<": v < 0, "<=": v <= 0, ">": v > 0, ">=": v >= 0, "==": v == 0, "!=": v != 0}[rel]


def _expected_unary(op, lo, hi, slo, shi):
    """[lower, upper] of the interpreter's interval operation for an argument whose bounds have the given signs"""
    if op == "abs":
        if slo != "neg":
            return [lo, hi]
        if shi != "pos":
            return [-hi, -lo]
        return [ZERO, sp.Max(-lo, hi)]
    if op == "square":
        if slo == "pos" or (slo == "zero"):
            return [lo * lo, hi * hi]
        if shi == "neg" or shi == "zero":
            return [hi * hi, lo * lo]
        return [ZERO, sp.Max(lo * lo, hi * hi)]
    if op == "recip":
        if slo == "pos" or shi == "neg":
            return [1 / hi, 1 / lo]
        return None  # NaN: the domain-guard rule's business
    if op == "sqrt":
        if slo == "neg":
            return None
        return [sp.sqrt(lo), sp.sqrt(hi)]
    return None


def check_interval_piecewise(rule, root=None):
    """interval abs / square / recip / sqrt choose between formulas by the signs of the bounds.  For each of the
    six sign classes of (lower, upper) the clause's own tests select a path; its output lanes, with the class's
    signs substituted, must be the interval the interpreter computes for that class.  The undecided (`Both`)
    paths of min / max / and / or must hold the bound-wise min / max (and: the right operand widened to 0)."""
    p = X.path_of("interval")
    builders = X.load_builders(p, root)
    classes = [(a, b) for a in _SIGNS for b in _SIGNS if _SIGNS.index(a) <= _SIGNS.index(b)]
    for op in ("abs", "square", "recip", "sqrt"):
        name = "build_%s" % op
        b = builders.get(name)
        if b is None:
            rule.lost("aarch64 interval %s" % name)
            continue
        outp = AC.out_param(b)
        inputs = [n_ for (n_, ty) in b.params if ty == "u8" and n_ != outp]
        bad = None
        nchecked = 0
        for alias in (False, True):
            ins = X.flat_ins(b)
            if alias:
                ins = _copy.deepcopy(ins)
                for x in ins:
                    for o in x.ops:
                        if o.kind == "vec" and o.name == "T:%s" % outp:
                            o.name = "T:%s" % inputs[0]
            res = _path_conditions(ins, {"T:%s" % inputs[0]: list(L)})
            if not res or not all(r_[2] for r_ in res):
                bad = ("skip", "its tests are outside the modelled idioms")
                break
            for slo, shi in classes:
                want = _expected_unary(op, L[0], L[1], slo, shi)
                if want is None:
                    continue
                sub = {L[0]: _class_symbol("lo", slo), L[1]: _class_symbol("hi", shi)}
                taken = []
                for conds, pins, _ok, em in res:
                    feas = True
                    for (e_, rel, rhs), truth in conds:
                        sgn = slo if e_ == L[0] else (shi if e_ == L[1] else None)
                        if sgn is None or rhs != ZERO:
                            feas = None
                            break
                        if _holds(sgn, rel) != truth:
                            feas = False
                            break
                    if feas is None:
                        bad = ("skip", "a test compares something other than a bound with zero")
                        break
                    if feas:
                        taken.append(em)
                if bad:
                    break
                if len(taken) != 1:
                    bad = ("bad", "for lower %s, upper %s the clause's tests select %d paths" % (slo, shi, len(taken)))
                    break
                got = taken[0].v.get("T:%s" % (inputs[0] if alias else outp)) or [None] * 4
                nchecked += 1
                for l in (0, 1):
                    if got[l] is None:
                        bad = ("skip", "bound %d is computed outside the modelled subset" % l)
                        break
                    g_ = got[l].subs(sub) if hasattr(got[l], "subs") else got[l]
                    w_ = want[l].subs(sub) if hasattr(want[l], "subs") else want[l]
                    if sp.simplify(g_ - w_) != 0:
                        bad = ("bad", "for an argument with lower %s and upper %s%s the %s bound is `%s`, the interpreter's is `%s`" % ({"neg": "< 0", "zero": "= 0", "pos": "> 0"}[slo], {"neg": "< 0", "zero": "= 0", "pos": "> 0"}[shi], " (output in the operand's register)" if alias else "", ("lower", "upper")[l], g_, w_))
                        break
                if bad:
                    break
            if bad:
                break
        if bad is None:
            rule.ok("aarch64 interval %s: the interpreter's interval in each of the six sign classes of the argument (%d cases, also with the output aliased)" % (name, nchecked), file=p, line=b.fn["ln"])
        elif bad[0] == "bad":
            rule.bad("a64|interval|%s|piecewise" % name, "aarch64 interval %s: %s" % (name, bad[1]), "%s:%d" % (p, b.fn["ln"]))
        else:
            rule.skip("aarch64 interval %s" % name, bad[1], count=True)
    # the undecided paths of the choice clauses
    for name, want in (("build_min", lambda a, r: [sp.Min(a[0], r[0]), sp.Min(a[1], r[1])]), ("build_max", lambda a, r: [sp.Max(a[0], r[0]), sp.Max(a[1], r[1])]),
                       ("build_and", lambda a, r: [sp.Min(r[0], 0), sp.Max(r[1], 0)]), ("build_or", lambda a, r: [sp.Min(a[0], r[0]), sp.Max(a[1], r[1])])):
        b = builders.get(name)
        if b is None:
            rule.lost("aarch64 interval %s" % name)
            continue
        outp = AC.out_param(b)
        inputs = [n_ for (n_, ty) in b.params if ty == "u8" and n_ != outp]
        verdict = None
        npaths = 0
        for alias_to in (None, inputs[0], inputs[1]):
            ins = X.flat_ins(b)
            if alias_to:
                ins = _copy.deepcopy(ins)
                for x in ins:
                    for o in x.ops:
                        if o.kind == "vec" and o.name == "T:%s" % outp:
                            o.name = "T:%s" % alias_to
            succ, probs = X.build_cfg(ins)
            paths, cyc = X.enumerate_paths(ins, succ)
            if probs or cyc:
                verdict = ("skip", "control flow not understood")
                break
            for path in paths:
                pins = [ins[i] for i in path if not isinstance(i, str) and ins[i].label is None]
                both = any(x.mnem == "orr" and any(o.kind == "imm" and o.text == "CHOICE_BOTH" for o in x.ops) for x in pins)
                nanfill = any("NAN" in " ".join(o.text for o in x.ops) for x in pins)
                if not both or nanfill:
                    continue
                npaths += 1
                em = SymEmu({"T:%s" % inputs[0]: list(L), "T:%s" % inputs[1]: list(R)}, None)
                for x in pins:
                    e = X.effect(x)
                    if e.kind in ("jmp", "jcc", "cmp", "load", "store"):
                        continue
                    try:
                        em.step(x)
                    except Unknown:
                        for o in e.writes:
                            if o.kind == "vec":
                                em.put(o, [None] * 4)
                got = em.v.get("T:%s" % (alias_to or outp)) or [None] * 4
                w = want(list(L), list(R))
                for l in (0, 1):
                    if got[l] is None:
                        verdict = ("skip", "bound %d of the undecided path is computed outside the modelled subset" % l)
                    elif sp.simplify(got[l] - w[l]) != 0:
                        verdict = ("bad", "on the undecided path%s the %s bound is `%s`, the interpreter's is `%s`" % ((" with the output in `%s`'s register" % alias_to) if alias_to else "", ("lower", "upper")[l], got[l], w[l]))
                    if verdict:
                        break
                if verdict:
                    break
            if verdict:
                break
        if verdict is None and npaths:
            rule.ok("aarch64 interval %s: the undecided path holds the bound-wise result (%d path placements)" % (name, npaths), file=p, line=b.fn["ln"])
        elif verdict is None:
            rule.lost("aarch64 interval %s: its undecided (CHOICE_BOTH) path" % name)
        elif verdict[0] == "bad":
            rule.bad("a64|interval|%s|both" % name, "aarch64 interval %s: %s" % (name, verdict[1]), "%s:%d" % (p, b.fn["ln"]))
        else:
            rule.skip("aarch64 interval %s" % name, verdict[1], count=True)


def check_grad_piecewise(rule, root=None):
    """gradient abs / min / max return one operand whole (all four lanes), selected by a comparison of the value
    lanes: abs -> -x when x.v < 0 else x; max -> lhs when lhs.v > rhs.v else rhs; min -> lhs when lhs.v < rhs.v
    else rhs (a NaN value lane gives NaN: the path behind `b.vs`)"""
    p = X.path_of("grad_slice")
    builders = X.load_builders(p, root)
    table = {"build_abs": ("<", None), "build_max": (">", "R"), "build_min": ("<", "R")}
    for name, (rel, other) in table.items():
        b = builders.get(name)
        if b is None:
            rule.lost("aarch64 grad_slice %s" % name)
            continue
        outp = AC.out_param(b)
        inputs = [n_ for (n_, ty) in b.params if ty == "u8" and n_ != outp]
        verdict = None
        n = 0
        for alias_to in [None] + inputs:
            ins = X.flat_ins(b)
            if alias_to:
                ins = _copy.deepcopy(ins)
                for x in ins:
                    for o in x.ops:
                        if o.kind == "vec" and o.name == "T:%s" % outp:
                            o.name = "T:%s" % alias_to
            assign = {"T:%s" % inputs[0]: list(L)}
            if len(inputs) > 1:
                assign["T:%s" % inputs[1]] = list(R)
            res = _path_conditions(ins, assign)
            if not res:
                verdict = ("skip", "control flow not understood")
                break
            for conds, pins, ok, em in res:
                nan_path = any(x.mnem == "b.vs" for x in pins) and any("NAN" in " ".join(o.text for o in x.ops) for x in pins)
                if nan_path:
                    continue
                if not ok:
                    verdict = ("skip", "a test is outside the modelled idioms")
                    break
                dec = [(c, t) for c, t in conds if c[1] != "unord"]
                # drop the NaN screen (b.vs not taken has no modelled relation); the deciding test is the last one
                if not dec:
                    verdict = ("bad", "a path reaches the end without testing the value lanes")
                    break
                (e_, r_, rhs_), truth = dec[-1]
                rhs_want = ZERO if other is None else R[0]
                if e_ != L[0] or rhs_ != rhs_want or r_ not in ("<", ">"):
                    verdict = ("bad", "the deciding test is `%s %s %s`; the interpreter compares the value lanes `%s %s %s`" % (e_, r_, rhs_, L[0], rel, rhs_want))
                    break
                picks_first = truth if r_ == rel else (not truth if {r_, rel} == {"<", ">"} and False else None)
                if r_ != rel:
                    verdict = ("bad", "the deciding test is `%s %s %s`; the interpreter selects on `%s %s %s` (they differ when the values are equal)" % (e_, r_, rhs_, L[0], rel, rhs_want))
                    break
                if other is None:
                    want = [-q for q in L] if truth else list(L)
                else:
                    want = list(L) if truth else list(R)
                got = em.v.get("T:%s" % (alias_to or outp)) or [None] * 4
                n += 1
                for l in range(4):
                    if got[l] is None:
                        verdict = ("skip", "lane %d is computed outside the modelled subset" % l)
                    elif sp.simplify(got[l] - want[l]) != 0:
                        verdict = ("bad", "when `%s %s %s` is %s, lane %d of the output is `%s`, the interpreter's is `%s`%s" % (e_, r_, rhs_, truth, l, got[l], want[l], (" (output in `%s`'s register)" % alias_to) if alias_to else ""))
                    if verdict:
                        break
                if verdict:
                    break
            if verdict:
                break
        if verdict is None:
            rule.ok("aarch64 grad_slice %s: the selected operand's value and gradient, whole (%d path placements)" % (name, n), file=p, line=b.fn["ln"])
        elif verdict[0] == "bad":
            rule.bad("a64|grad_slice|%s|piecewise" % name, "aarch64 grad_slice %s: %s" % (name, verdict[1]), "%s:%d" % (p, b.fn["ln"]))
        else:
            rule.skip("aarch64 grad_slice %s" % name, verdict[1], count=True)
