"""Rule bookkeeping: instances, floors, violations, known findings, evidence."""
import json
import os
import time

from . import ast as A

VERIF = A.VERIF
KNOWN = os.path.join(VERIF, "known_findings.txt")


def load_known():
    """known_findings.txt lines:
         finding: property=<id> key=<rule|site|what> :: <text>
         fixed: property=<id> <commit> <what failed>
       Only `finding:` lines suppress anything, and only by exact key."""
    out = {}
    if not os.path.exists(KNOWN):
        return out
    for line in open(KNOWN):
        line = line.strip()
        if not line.startswith("finding:"):
            continue
        body = line[len("finding:"):].strip()
        head, _, text = body.partition("::")
        fields = dict(x.split("=", 1) for x in head.split() if "=" in x)
        if "property" in fields and "key" in fields:
            out[(fields["property"], fields["key"])] = text.strip()
    return out


class Rule:
    def __init__(self, ctx, rid, title, floor, design_ref=""):
        self.ctx = ctx
        self.id = rid
        self.title = title
        self.floor = floor
        self.instances = 0
        self.samples = []
        self.violations = []
        self.unanalysed = []
        self.design_ref = design_ref

    def ok(self, what, **kw):
        """one rule instance examined and found to satisfy the rule"""
        self.instances += 1
        if len(self.samples) < 4:
            d = {"instance": what}
            d.update(kw)
            self.samples.append(d)

    def bad(self, key, msg, where="", **kw):
        """one rule instance that violates the rule.  `key` identifies the site
        without line numbers (rule|function|arm|what)."""
        self.instances += 1
        v = {"rule": self.id, "key": "%s|%s" % (self.id, key), "where": where, "msg": msg}
        v.update(kw)
        self.violations.append(v)

    def lost(self, what):
        """an anchor (function, match, table) the rule needs is gone"""
        v = {
            "rule": self.id,
            "key": "%s|anchor-lost|%s" % (self.id, what),
            "where": "",
            "msg": "anchor lost: %s (the code was reshaped; the rule cannot decide and fails closed)" % what,
            "kind": "anchor-lost",
        }
        self.violations.append(v)

    def skip(self, what, why, count=False):
        """a site the rule looked at but cannot decide (listed in the evidence as unanalysed).  With `count` it
        still counts as an instance examined: used by the value-level rules, for which an idiom outside the
        modelled subset is not a reason to raise an alarm (the structural rules still cover the site)"""
        self.unanalysed.append({"site": what, "why": why})
        if count:
            self.instances += 1


class Ctx:
    def __init__(self, pid, tier, seed=0):
        self.pid = pid
        self.tier = tier
        self.seed = seed
        self.rules = []
        self.t0 = time.time()
        self.assumptions = []
        self.notes = []

    def rule(self, rid, title, floor, design_ref=""):
        r = Rule(self, "%s.%s" % (self.pid, rid), title, floor, design_ref)
        self.rules.append(r)
        return r

    def include(self, other_pid, why, skip=(), only=None):
        """run another property's rules as rules of this property (ids `<this>.<other>.<rule>`): used where this
        property quantifies over every shape and backend and therefore *needs* the other one - a renderer that skips
        tiles on interval evidence is right only if interval evaluation encloses, traces are what simplification
        assumes, and the per-pixel evaluators compute the expression.  `skip`: rule ids of the other property that
        concern code this property does not reach; `only`: take just these rules."""
        import importlib

        parent = self

        class _Sub:
            pid = parent.pid
            tier = parent.tier
            seed = parent.seed
            assumptions = parent.assumptions
            notes = parent.notes

            def rule(self_, rid, title, floor, design_ref=""):
                r = Rule(parent, "%s.%s.%s" % (parent.pid, other_pid, rid), "[needs %s: %s] %s" % (other_pid, why, title), floor, design_ref)
                if rid not in skip and (only is None or rid in only):
                    parent.rules.append(r)
                return r

            def guarded(self_, rule, fn, *a, **kw):
                rid_ = rule.id.rsplit(".", 1)[-1]
                if rid_ in skip or (only is not None and rid_ not in only):
                    return None
                return parent.guarded(rule, fn, *a, **kw)

            def include(self_, *a, **kw):
                return None  # one level only

        mod = importlib.import_module("fv.props.%s" % other_pid)
        mod.run(_Sub())

    def guarded(self, rule, fn, *a, **kw):
        """run one rule body; an AnchorLost anywhere inside fails that rule closed"""
        try:
            A.CURRENT_RULE[0] = rule.id
            fn(rule, *a, **kw)
        except A.AnchorLost as e:
            rule.lost(e.what)
        except Exception as e:  # a reshaped tree must fail closed, not crash the check
            import traceback

            tb = traceback.extract_tb(e.__traceback__)[-1]
            rule.lost("unexpected shape (%s: %s at %s:%d)" % (type(e).__name__, e, tb.filename.split("/")[-1], tb.lineno))

    def finish(self):
        known = load_known()
        new = []
        knownhits = []
        for r in self.rules:
            # the floor guards against a rule that silently matches (almost) nothing.  Counts of *sites* move a
            # little under behaviour-preserving edits (two loops merged into a helper, an or-pattern split), and a
            # missing table row is reported by the rule itself, so larger floors carry 20% slack.
            need = r.floor if r.floor < 8 else int(r.floor * 0.8)
            if r.instances < need and not any(v.get("kind") == "anchor-lost" for v in r.violations):
                r.violations.append(
                    {
                        "rule": r.id,
                        "key": "%s|floor" % r.id,
                        "where": "",
                        "msg": "rule matched %d instances, fewer than the %d confirmed by hand "
                        "(a table shrank or an idiom changed; fails closed)" % (r.instances, r.floor),
                        "kind": "anchor-lost",
                    }
                )
            for v in r.violations:
                k = (self.pid, v["key"])
                if k in known:
                    knownhits.append((v, known[k]))
                else:
                    new.append(v)
        for r in self.rules:
            nv = len([v for v in r.violations])
            print(
                "%-10s %-62s instances=%-4d floor=%-4d %s"
                % (r.id, r.title[:62], r.instances, r.floor, "ok" if nv == 0 else "%d VIOLATION(S)" % nv)
            )
        for v, text in knownhits:
            print("KNOWN-FINDING: property=%s %s (%s)" % (self.pid, text, v["key"]))
        wall = time.time() - self.t0
        obligations = sum(r.instances for r in self.rules)
        nviol = len(new)
        samples = []
        for r in self.rules:
            for s in r.samples[:2]:
                samples.append(dict(rule=r.id, **s))
        ev = {
            "property_id": self.pid,
            "tier": self.tier,
            "seed": self.seed,
            "level": "other",
            "coverage": {
                "explanation": (
                    "Static analysis of /repo's current source (tree %s): %d rules, %d rule instances "
                    "examined exhaustively (every match arm / builder / call site / path the rule ranges "
                    "over; no sampling). Each rule decides a structural necessary condition of the "
                    "property, not the behaviour itself; see DESIGN.md section 3 %s."
                    % (A.tree_hash(), len(self.rules), obligations, self.pid)
                ),
                "obligations": obligations,
                "discharged": obligations - sum(len(r.violations) for r in self.rules),
                "exhaustive": True,
                "rules": [
                    {
                        "rule": r.id,
                        "title": r.title,
                        "instances": r.instances,
                        "floor": r.floor,
                        "violations": len(r.violations),
                        "unanalysed": r.unanalysed,
                    }
                    for r in self.rules
                ],
                "samples": samples or [{"note": "no instances"}],
                "known_findings_hit": [v["key"] for v, _ in knownhits],
                "source_tree": A.REPO,
                "notes": self.notes,
            },
            "assumptions": self.assumptions
            + [
                "the syn parse of each file equals what rustc compiles (cfg-gated code is analysed as written)",
                "rules decide structural necessary conditions only; passing does not establish the behaviour",
            ],
            "wall_s": round(wall, 3),
            "violations": nviol,
        }
        # evidence is only ever written for /repo itself; scratch copies (FV_REPO) go elsewhere
        evdir = os.path.join(VERIF, "evidence") if (os.path.realpath(A.REPO) == "/repo" and not os.environ.get("FV_NO_EVIDENCE")) else os.path.join(VERIF, "out", "scratch-evidence")
        os.makedirs(evdir, exist_ok=True)
        with open(os.path.join(evdir, "%s.json" % self.pid), "w") as f:
            json.dump(ev, f, indent=1)
        if new:
            outdir = os.path.join(VERIF, "out", self.pid if os.path.realpath(A.REPO) == "/repo" else "scratch-" + self.pid)
            os.makedirs(outdir, exist_ok=True)
            path = os.path.join(outdir, "violation.json")
            with open(path, "w") as f:
                json.dump({"property": self.pid, "tree": A.tree_hash(), "violations": new}, f, indent=1)
            for v in new:
                print("  [%s] %s %s" % (v["key"], v.get("where", ""), v["msg"]))
            print("VIOLATION property=%s replay=%s" % (self.pid, path))
            return 1
        return 0
