"""Corner folds of the interpreter's interval product and quotient.

`Interval * Interval` and `Interval / Interval` compute the four corner combinations of their operands' bounds and
take the smallest and the largest as the result.  The bodies are small straight-line programs with constant-trip
loops (`for i in [self.lower, self.upper]`, `for &v in &out[1..]`), so they are summarised symbolically: bounds are
symbols, arrays are lists, loops over literal arrays / slices of known length are unrolled, `min` / `max` build
sympy Min / Max.  The NaN / domain exits are not followed (their guards are the business of C03.R5 / C11.R2); the
summary of the remaining path must be

    Interval::new(Min(all four corner values), Max(all four corner values)).

Only the syntax is interpreted; a body written some other way that the interpreter cannot follow is listed as
not analysed."""
import sympy as sp

from . import ast as A

IV = "fidget-core/src/types/interval.rs"


class Stop(Exception):
    pass


class NaNExit(Exception):
    pass


class Done(Exception):
    def __init__(self, v):
        self.v = v


def _is_nan_expr(e):
    t = A.unparse(e).replace(" ", "")
    return "NAN" in t


class Interp:
    def __init__(self, env):
        self.env = dict(env)

    def ev(self, e):
        e0 = e
        k = e.get("k")
        if k in ("Paren",):
            return self.ev(e["e"])
        if k == "Ref":
            return self.ev(e["e"])
        if k == "Unary":
            v = self.ev(e["e"])
            if e.get("op") == "-":
                return -v
            if e.get("op") == "*":
                return v
            raise Stop("unary `%s`" % e.get("op"))
        if k == "Cast":
            return self.ev(e["e"])
        if k == "Lit":
            if e.get("ty") == "int":
                return int(str(e["v"]).replace("_", ""))
            if e.get("ty") == "float":
                return sp.nsimplify(float(str(e["v"]).replace("_", "").rstrip("f32").rstrip("_") or 0))
            raise Stop("literal `%s`" % e.get("s"))
        if k == "Path":
            segs = e["segs"]
            if len(segs) == 1 and segs[0] in self.env:
                return self.env[segs[0]]
            raise Stop("name `%s`" % "::".join(segs))
        if k == "Field":
            t = A.unparse(e).replace(" ", "")
            if t in self.env:
                return self.env[t]
            raise Stop("field `%s`" % t)
        if k == "MethodCall":
            t = A.unparse(e).replace(" ", "")
            if t in self.env:
                return self.env[t]
            m = e["method"]
            if m in ("min", "max") and len(e["args"]) == 1:
                a, b = self.ev(e["recv"]), self.ev(e["args"][0])
                return sp.Min(a, b) if m == "min" else sp.Max(a, b)
            if m in ("iter", "into_iter", "copied", "cloned", "clone", "into", "to_vec") and not e["args"]:
                return self.ev(e["recv"])
            if m == "skip" and len(e["args"]) == 1:
                v = self.ev(e["recv"])
                n = self.ev(e["args"][0])
                if isinstance(v, list) and isinstance(n, int):
                    return v[n:]
            if m == "fold" and len(e["args"]) == 2:
                seq = self.ev(e["recv"])
                acc = self.ev(e["args"][0])
                clo = A.strip(e["args"][1])
                if isinstance(seq, list) and clo.get("k") == "Closure" and len(clo.get("inputs", clo.get("params", []))) == 2:
                    ps = clo.get("inputs", clo.get("params"))
                    for item in seq:
                        sub = Interp(self.env)
                        sub.bind(ps[0], acc)
                        sub.bind(ps[1], item)
                        acc = sub.ev(clo["body"])
                    return acc
                if isinstance(seq, list) and clo.get("k") == "Path" and clo["segs"][-1] in ("min", "max"):
                    f = sp.Min if clo["segs"][-1] == "min" else sp.Max
                    for item in seq:
                        acc = f(acc, item)
                    return acc
            raise Stop("method `.%s()`" % m)
        if k == "Call":
            segs = A.path_segs(e["func"]) or []
            if segs[-2:] in (["f32", "min"], ["f32", "max"]) and len(e["args"]) == 2:
                a, b = self.ev(e["args"][0]), self.ev(e["args"][1])
                return sp.Min(a, b) if segs[-1] == "min" else sp.Max(a, b)
            if segs[-2:] == ["Interval", "new"] and len(e["args"]) == 2:
                raise Done((self.ev(e["args"][0]), self.ev(e["args"][1])))
            raise Stop("call `%s`" % A.unparse(e["func"]))
        if k == "Binary":
            op = e["op"]
            if op in ("+", "-", "*", "/"):
                a, b = self.ev(e["left"]), self.ev(e["right"])
                if isinstance(a, list) or isinstance(b, list):
                    raise Stop("arithmetic on an array")
                return {"+": lambda: a + b, "-": lambda: a - b, "*": lambda: a * b, "/": lambda: a / b}[op]()
            if op in ("+=", "-=", "*=") and A.strip(e["left"]).get("k") == "Path":
                n = A.strip(e["left"])["segs"][0]
                a, b = self.ev(e["left"]), self.ev(e["right"])
                self.env[n] = {"+=": a + b, "-=": a - b, "*=": a * b}[op]
                return None
            raise Stop("operator `%s`" % op)
        if k == "Array":
            return [self.ev(x) for x in e["elems"]]
        if k == "Repeat":
            n = self.ev(e["len"])
            if not isinstance(n, int):
                raise Stop("array length")
            return [self.ev(e["e"])] * n
        if k == "Tuple":
            return tuple(self.ev(x) for x in e["elems"])
        if k == "Index":
            v = self.ev(e["e"])
            ix = A.strip(e["index"])
            if not isinstance(v, list):
                raise Stop("index into a non-array")
            if ix.get("k") == "Range":
                lo = self.ev(ix["start"]) if ix.get("start") else 0
                hi = self.ev(ix["end"]) if ix.get("end") else len(v)
                if ix.get("closed"):
                    hi += 1
                if not isinstance(lo, int) or not isinstance(hi, int):
                    raise Stop("slice bounds")
                return v[lo:hi]
            i = self.ev(ix)
            if not isinstance(i, int) or not 0 <= i < len(v):
                raise Stop("array index `%s`" % A.unparse(ix))
            return v[i]
        if k == "Range":
            lo = self.ev(e["start"]) if e.get("start") else 0
            hi = self.ev(e["end"])
            if e.get("closed"):
                hi += 1
            if isinstance(lo, int) and isinstance(hi, int):
                return list(range(lo, hi))
            raise Stop("range bounds")
        if k == "Assign":
            tgt = A.strip(e["left"])
            v = self.ev(e["right"])
            if tgt.get("k") == "Path" and len(tgt["segs"]) == 1:
                self.env[tgt["segs"][0]] = v
                return None
            if tgt.get("k") == "Index" and A.strip(tgt["e"]).get("k") == "Path":
                n = A.strip(tgt["e"])["segs"][0]
                i = self.ev(tgt["index"])
                arr = self.env.get(n)
                if not isinstance(arr, list) or not isinstance(i, int) or not 0 <= i < len(arr):
                    raise Stop("array store `%s`" % A.unparse(tgt))
                arr = list(arr)
                arr[i] = v
                self.env[n] = arr
                return None
            raise Stop("assignment to `%s`" % A.unparse(tgt))
        if k == "Block":
            return self.block(e)
        if k == "For":
            seq = self.ev(e["iter"])
            if not isinstance(seq, (list, tuple)):
                raise Stop("loop over `%s`" % A.unparse(e["iter"])[:40])
            for item in seq:
                self.bind(e["pat"], item)
                self.block(e["body"])
            return None
        if k == "If":
            then_nan = _diverges_nan(e["then"])
            els = e.get("else")
            else_nan = els is not None and _diverges_nan(els)
            if then_nan and not else_nan:
                return self.ev(els) if els is not None else None
            if else_nan and not then_nan:
                return self.ev(e["then"])
            raise Stop("a branch on `%s`" % A.unparse(e["cond"])[:50])
        if k == "Return":
            if e.get("e") is not None and _is_nan_expr(e["e"]):
                raise NaNExit()
            return self.ev(e["e"])
        if k == "Macro":
            return None  # debug assertions
        raise Stop("`%s`" % (k or A.unparse(e0)[:30]))

    def bind(self, pat, v):
        k = pat.get("k")
        if k == "PType":
            return self.bind(pat["pat"], v)
        if k == "PRef":
            return self.bind(pat["pat"], v)
        if k == "PIdent":
            self.env[pat["name"]] = v
            return
        if k == "PWild":
            return
        if k in ("PTuple", "PSlice") and isinstance(v, (list, tuple)) and len(pat.get("elems", [])) == len(v):
            for p, x in zip(pat["elems"], v):
                self.bind(p, x)
            return
        raise Stop("pattern `%s`" % A.unparse(pat))

    def block(self, b):
        last = None
        for s in A.stmts_of(b):
            k = s.get("k")
            if k == "Let":
                if s.get("init") is None:
                    raise Stop("uninitialised let")
                self.bind(s["pat"], self.ev(s["init"]))
                last = None
            elif k == "ExprStmt":
                last = self.ev(s["e"])
                if s.get("semi"):
                    last = None
            elif k in ("Item", "Fn", "Use"):
                continue
            else:
                last = self.ev(s)
        return last


def _diverges_nan(b):
    """a block whose only effect is to answer the NaN interval"""
    ss = A.stmts_of(b)
    if len(ss) != 1:
        return False
    e = ss[0].get("e", ss[0]) if ss[0].get("k") == "ExprStmt" else ss[0]
    e = A.strip(e)
    if e.get("k") == "Return":
        e = A.strip(e["e"]) if e.get("e") else e
    return _is_nan_expr(e) and not list(A.find(e, "For"))


def r_corner_folds(rule, root=None):
    d = A.load(IV, root)
    a0, a1, b0, b1 = sp.symbols("a0 a1 b0 b1", real=True)
    for op, tr, f in (("mul", "Mul", lambda x, y: x * y), ("div", "Div", lambda x, y: x / y)):
        fns = [fn for fn in d["_fns"] if fn["name"] == op and not fn["_test"] and (fn.get("_owner") or {}).get("self_ty") == "Interval"
               and A.strip_generics((fn.get("_owner") or {}).get("trait") or "").endswith(tr) and "Interval" in ((fn.get("_owner") or {}).get("trait") or "")]
        if not fns:
            rule.lost("impl %s<Interval> for Interval" % tr)
            continue
        fn = fns[0]
        ins = fn["sig"]["inputs"]
        rhs = None
        for p in ins[1:]:
            rhs = A.binding_name(p.get("pat", p)) if isinstance(p, dict) else None
        rhs = rhs or "rhs"
        env = {"self.lower": a0, "self.upper": a1, "%s.lower" % rhs: b0, "%s.upper" % rhs: b1,
               "self.lower()": a0, "self.upper()": a1, "%s.lower()" % rhs: b0, "%s.upper()" % rhs: b1}
        it = Interp(env)
        key = "Interval::%s" % op
        try:
            v = it.block(fn["body"])
            rule.skip(key, "the body ends without `Interval::new` on its main path (%s)" % (v,), count=True)
            continue
        except Done as dn:
            lo, hi = dn.v
        except NaNExit:
            rule.skip(key, "the main path answers NaN", count=True)
            continue
        except Stop as st:
            rule.skip(key, "outside the interpreted subset: %s" % st, count=True)
            continue
        corners = [f(x, y) for x in (a0, a1) for y in (b0, b1)]
        wl, wh = sp.Min(*corners), sp.Max(*corners)
        if lo == wl and hi == wh:
            rule.ok("%s: lower = Min, upper = Max over all four corner %s" % (key, "products" if op == "mul" else "quotients"), file=IV, line=fn["ln"])
        else:
            which = "lower" if lo != wl else "upper"
            got = lo if lo != wl else hi
            rule.bad("%s|corners" % op, "%s: its %s bound is `%s`; an enclosure needs the %s over all four corners `%s`" % (key, which, got, "smallest" if which == "lower" else "largest", wl if which == "lower" else wh), A.where(IV, fn))
