"""Rules added after the generic mutation sweep of round 8 (tools/mutsweep.py) pointed at guards nobody read."""
import re

from . import ast as A

IV = "fidget-core/src/types/interval.rs"
FLOAT_RS = "fidget-core/src/types/float.rs"
OCT = "fidget-mesh/src/octree.rs"


def _unparen(c):
    c = c.replace(" ", "")
    while c.startswith("(") and c.endswith(")"):
        depth = 0
        ok = True
        for i, ch in enumerate(c):
            depth += ch == "("
            depth -= ch == ")"
            if depth == 0 and i < len(c) - 1:
                ok = False
                break
        if not ok:
            break
        c = c[1:-1]
    return c


def _disjuncts(c):
    return sorted(_unparen(x) for x in _unparen(c).split("||"))


def r_recip_pole(rule, root=None):
    """1 / [a, b] is [1/b, 1/a] only when the pole is outside the box *strictly*: a bound equal to zero makes one
    quotient infinite of the wrong sign and the bounds come out reversed (Interval::new refuses them)"""
    fn = A.find_fn(IV, "recip", self_ty="Interval", root=root)
    cases = A.result_cases(A.inline_lets_deep(fn["body"]))
    news = [(l, cs) for l, cs in cases if "Interval::new(" in str(A.ftxt(l))]
    if len(news) != 1:
        rule.lost("the single `Interval::new(1.0 / upper, 1.0 / lower)` result of Interval::recip")
        return
    leaf, cs = news[0]
    t = str(A.ftxt(leaf))
    if t in ("Interval::new((1.0/self.upper),(1.0/self.lower))", "Interval::new((1.0/self.upper()),(1.0/self.lower()))"):
        rule.ok("recip: bounds are (1 / upper, 1 / lower)", file=IV, line=fn["ln"])
    else:
        rule.bad("recip|bounds", "Interval::recip must return [1 / upper, 1 / lower]; found `%s`" % t, A.where(fn))
    conds = [c for c in cs if "nan" not in c.lower()]
    want = sorted(["self.lower>0.0", "self.upper<0.0"])
    got = None
    if len(conds) == 1 and not conds[0].startswith("!"):
        got = _disjuncts(conds[0])
    alt = sorted(["0.0<self.lower", "self.upper<0.0"])
    if got in (want, alt, sorted(["0.0<self.lower", "0.0>self.upper"]), sorted(["self.lower>0.0", "0.0>self.upper"])):
        rule.ok("recip: taken only when zero is strictly outside the box (lower > 0 or upper < 0)", file=IV, line=fn["ln"])
    else:
        rule.bad("recip|pole", "Interval::recip divides under `%s`; the pole must be excluded strictly on both sides (`self.lower > 0.0 || self.upper < 0.0`): with a bound equal to zero the quotient bounds are reversed" % " && ".join(cs), A.where(fn))


def r_scalar_nan_both(rule, root=None):
    """f32 min_choice / max_choice: an undecided pair yields NaN when *either* operand is NaN (the interpreter's
    reference semantics and what the native min / max clauses implement)"""
    for name in ("min_choice", "max_choice"):
        cands = [f for f in A.fns(FLOAT_RS, root) if f["name"] == name and (f.get("_owner") or {}).get("self_ty") == "f32" and dict.get(f, "body")]
        if len(cands) != 1:
            rule.lost("fn %s of `impl FloatExt for f32`" % name)
            continue
        fn = cands[0]
        ps = [A.binding_name(p["pat"]) for p in fn["sig"]["inputs"] if "pat" in p]
        other = ps[0] if ps else "other"
        found = False
        for leaf, cs in A.result_cases(A.inline_lets_deep(fn["body"])):
            l = A.strip(leaf)
            if l.get("k") != "Tuple" or len(l["elems"]) != 2 or str(A.ftxt(l["elems"][1])) != "Choice::Both":
                continue
            first = A.strip(l["elems"][0])
            if A.ident(first):
                # `let value = if .. { NAN } else { other }; (value, Choice::Both)`
                lets_ = [x for x in A.find(fn["body"], "Let") if A.binding_name(x["pat"]) == A.ident(first) and x.get("init") is not None]
                if len(lets_) == 1:
                    first = lets_[0]["init"]
            for v, vc in A.value_cases(first):
                if "NAN" in str(A.ftxt(v)).upper():
                    found = True
                    tests = sorted(x for c in vc for x in _disjuncts(c))
                    if tests == sorted(["self.is_nan()", "%s.is_nan()" % other]) and len(vc) == 1 and not vc[0].startswith("!"):
                        rule.ok("f32::%s: NaN when either operand is NaN" % name, file=FLOAT_RS, line=fn["ln"])
                    else:
                        rule.bad("f32|%s|nan" % name, "f32::%s answers NaN only under `%s`; a NaN in *either* operand must give NaN (`self.is_nan() || %s.is_nan()`)" % (name, " && ".join(vc), other), A.where(fn))
        if not found:
            rule.bad("f32|%s|nan-missing" % name, "f32::%s has no NaN result for an undecided pair: min / max of a NaN and a number must be NaN" % name, A.where(fn))


def r_transform_option(rule, root=None):
    """the mesher hands its evaluators `None` for the transform only when world_to_model is the identity"""
    fn = A.find_fn(OCT, "new", self_ty="OctreeBuilder", root=root)
    lets = [l for l in A.find(fn["body"], "Let") if A.binding_name(l["pat"]) == "world_to_model" and l.get("init") is not None]
    if len(lets) != 1:
        rule.lost("`let world_to_model = if settings.world_to_model == identity {None} else {Some(..)}` in OctreeBuilder::new")
        return
    got = {}
    for leaf, cs in A.value_cases(lets[0]["init"]):
        got[str(A.ftxt(leaf))] = [c.replace(" ", "") for c in cs]
    def is_identity_test(c):
        """+1: `world_to_model == identity`, -1: its negation, None: something else"""
        neg = False
        c = c.replace(" ", "")
        while c.startswith("!"):
            neg = not neg
            c = c[1:]
        c = _unparen(c)
        m_ = re.fullmatch(r"(settings\.world_to_model|nalgebra::Matrix4::identity\(\)|Matrix4::identity\(\))(==|!=)(settings\.world_to_model|nalgebra::Matrix4::identity\(\)|Matrix4::identity\(\))", c)
        if not m_ or (m_.group(1).startswith("settings")) == (m_.group(3).startswith("settings")):
            return None
        if m_.group(2) == "!=":
            neg = not neg
        return -1 if neg else 1

    none_c = got.get("None")
    some_c = got.get("Some(&settings.world_to_model)")
    if none_c is not None and some_c is not None and len(none_c) == 1 and len(some_c) == 1 and is_identity_test(none_c[0]) == 1 and is_identity_test(some_c[0]) == -1:
        rule.ok("evaluators get no transform exactly when world_to_model is the identity, and the matrix itself otherwise", file=OCT, line=lets[0]["ln"])
    else:
        rule.bad("builder|transform-option", "OctreeBuilder::new must pass None only for the identity matrix and Some(&settings.world_to_model) otherwise; found %s" % got, A.where(OCT, lets[0]))
