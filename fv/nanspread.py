"""An interval sum or difference with one NaN bound must become the NaN interval.

Adding or subtracting infinities of opposite sign leaves NaN in *one* bound only (`[1, inf] - [inf, inf]` is
`[-inf, NaN]`).  The interpreter's `Add` / `Sub` answer the NaN interval then; an interval with a single NaN bound
handed on to an out-of-line operation trips `Interval::new`'s assertion inside an `extern` function, which aborts the
process (C11).  The native interval `build_add` / `build_sub` (and the aarch64 `build_sub_reg_imm`) are therefore
followed through a NaN-lane abstraction: after the arithmetic instruction the two bounds of the output are assumed to
be (number, number), (NaN, number), (number, NaN) or (NaN, NaN); lanes hold `n` / `N` (data), `1` / `0` (compare
masks) or `?`; unordered compares, lane permutes and bitwise mask operations are interpreted (all ones is a NaN); at
the end both bounds must be NaN in the three NaN cases and untouched numbers in the first."""
from . import asm as M
from . import asmchecks as AC


def _or(a, b):
    if a == "0":
        return b
    if b == "0":
        return a
    if "1" in (a, b):
        other = b if a == "1" else a
        return "1" if other in ("1", "0") else "N"  # data | all-ones is a NaN
    if a == "N" and b == "N":
        return "N"
    return "?"


def _and(a, b):
    if a == "1":
        return b
    if b == "1":
        return a
    if "0" in (a, b):
        return "0"
    return "?"


def _not(a):
    return {"1": "0", "0": "1"}.get(a, "?")


def _x86(ins, out, pattern):
    v = {}
    started = False

    def get(o):
        return list(v.get(o.name, ["?"] * 4))

    for x in ins:
        if x.label is not None:
            continue
        m, ops = x.mnem, x.ops
        base = m[1:] if m.startswith("v") else m
        if not started:
            if base in ("addps", "subps") and ops and ops[0].kind == "vec" and ops[0].name == out:
                v[out] = [pattern[0], pattern[1], "?", "?"]
                started = True
            continue
        if not ops or ops[0].kind != "vec":
            continue
        d = ops[0]
        vec = [o for o in ops if o.kind == "vec"]
        if base in ("cmpunordps", "cmpunordss") and len(vec) == 3 and ops[1].name == ops[2].name:
            v[d.name] = [{"N": "1", "n": "0"}.get(q, "?") for q in get(ops[1])]
        elif base in ("cmpordps",) and len(vec) == 3 and ops[1].name == ops[2].name:
            v[d.name] = [{"N": "0", "n": "1"}.get(q, "?") for q in get(ops[1])]
        elif base == "pshufd" and len(ops) == 3 and ops[2].kind == "imm":
            import re as _re

            t = _re.sub(r"as\s*i8|as\s*u8|u8|i8|\s|_", "", ops[2].text)
            try:
                k = int(t, 0) & 0xFF
            except ValueError:
                v[d.name] = ["?"] * 4
                continue
            s = get(ops[1])
            v[d.name] = [s[(k >> (2 * l)) & 3] for l in range(4)]
        elif base in ("orps", "orpd", "por") and len(vec) == 3:
            v[d.name] = [_or(p, q) for p, q in zip(get(ops[1]), get(ops[2]))]
        elif base in ("andps", "andpd", "pand") and len(vec) == 3:
            v[d.name] = [_and(p, q) for p, q in zip(get(ops[1]), get(ops[2]))]
        elif base in ("andnps", "andnpd", "pandn") and len(vec) == 3:
            v[d.name] = [_and(_not(p), q) for p, q in zip(get(ops[1]), get(ops[2]))]
        elif base in ("xorps", "pxor", "xorpd") and len(vec) == 3 and ops[1].name == ops[2].name:
            v[d.name] = ["0"] * 4
        elif base in ("pcmpeqd", "pcmpeqw", "pcmpeqb") and len(vec) == 3 and ops[1].name == ops[2].name == d.name:
            v[d.name] = ["1"] * 4
        elif base in ("movaps", "movups", "movdqa", "movq") and len(vec) == 2:
            v[d.name] = get(ops[1])
        elif base == "blendvps" and len(vec) == 4:
            a, b, mk = get(ops[1]), get(ops[2]), get(ops[3])
            v[d.name] = [(q if k_ == "1" else (p if k_ == "0" else "?")) for p, q, k_ in zip(a, b, mk)]
        else:
            v[d.name] = ["?"] * 4
    return v.get(out, ["?"] * 4)[:2] if started else None


def _a64(ins, out, pattern):
    v = {}
    started = False

    def get(o):
        return list(v.get(o.name, ["?"] * 4))

    for x in ins:
        if x.label is not None:
            continue
        m, ops = x.mnem, x.ops
        if not started:
            if m in ("fadd", "fsub") and ops and ops[0].kind == "vec" and ops[0].name == out:
                v[out] = [pattern[0], pattern[1], "?", "?"]
                started = True
            continue
        if not ops or ops[0].kind != "vec":
            continue
        d = ops[0]
        vec = [o for o in ops if o.kind == "vec"]
        if m == "fcmeq" and len(vec) == 3 and ops[1].name == ops[2].name:
            v[d.name] = [{"N": "0", "n": "1"}.get(q, "?") for q in get(ops[1])]
        elif m == "rev64" and len(vec) == 2:
            s = get(ops[1])
            v[d.name] = [s[1], s[0], s[3], s[2]]
        elif m in ("mvn", "not") and len(vec) == 2:
            v[d.name] = [_not(q) for q in get(ops[1])]
        elif m == "orr" and len(vec) == 3:
            v[d.name] = [_or(p, q) for p, q in zip(get(ops[1]), get(ops[2]))]
        elif m == "and" and len(vec) == 3:
            v[d.name] = [_and(p, q) for p, q in zip(get(ops[1]), get(ops[2]))]
        elif m == "orn" and len(vec) == 3:
            v[d.name] = [_or(p, _not(q)) for p, q in zip(get(ops[1]), get(ops[2]))]
        elif m == "bic" and len(vec) == 3:
            v[d.name] = [_and(p, _not(q)) for p, q in zip(get(ops[1]), get(ops[2]))]
        elif m == "mov" and len(vec) == 2 and ops[1].lane is None and d.lane is None:
            v[d.name] = get(ops[1])
        else:
            v[d.name] = ["?"] * 4
    return v.get(out, ["?"] * 4)[:2] if started else None


def check_nan_spread(rule, arch, root=None):
    if arch == "x86_64":
        p = AC.path_of("interval")
        builders = M.load_builders(p, root)
        names = ("build_add", "build_sub")
        stream = lambda b: AC.stream(b, builders)  # noqa: E731
        run = _x86
    else:
        from . import a64 as X

        p = X.path_of("interval")
        builders = X.load_builders(p, root)
        names = tuple(n for n in ("build_add", "build_sub", "build_sub_reg_imm", "build_add_imm", "build_sub_imm_reg") if n in builders)
        stream = X.flat_ins
        run = _a64
    for name in names:
        b = builders.get(name)
        if b is None:
            rule.lost("%s interval %s" % (arch, name))
            continue
        outp = AC.out_param(b)
        ins = stream(b)
        bad = None
        for pat in (("n", "n"), ("N", "n"), ("n", "N"), ("N", "N")):
            got = run(ins, "T:%s" % outp, pat)
            if got is None:
                bad = ("lost", "no vector add / sub into the output register")
                break
            want = ["n", "n"] if pat == ("n", "n") else ["N", "N"]
            if list(got) != want:
                bad = ("bad", pat, got)
                break
        if bad is None:
            rule.ok("%s interval %s: a sum / difference with one NaN bound becomes the NaN interval, others pass unchanged" % (arch, name), file=p, line=b.fn["ln"])
        elif bad[0] == "lost":
            rule.skip("%s interval %s" % (arch, name), bad[1], count=True)
        else:
            names_ = {"n": "a number", "N": "NaN", "?": "not determined", "1": "a mask", "0": "zero"}
            rule.bad("nan-spread|%s|%s" % (arch, name), "%s interval %s: when the arithmetic leaves (lower, upper) = (%s, %s) the clause ends with (%s, %s); a single NaN bound must become the NaN interval (the interpreter's Add / Sub do that, and an out-of-line operation fed [x, NaN] aborts the process in Interval::new)" % (arch, name, names_[bad[1][0]], names_[bad[1][1]], names_.get(bad[2][0], bad[2][0]), names_.get(bad[2][1], bad[2][1])), "%s:%d" % (p, b.fn["ln"]))
