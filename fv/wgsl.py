"""A small front end for the WGSL shaders of fidget-wgpu (interval_ops.wgsl, tape_interpreter.wgsl).

The shaders are plain structured code (functions, let / var, if / else, switch, while, return, calls,
component access and swizzles).  The parser produces the same dictionary shapes as the Rust dump
(`k`: Fn / Block / Let / Assign / If / Switch / While / Return / Call / Field / Index / Binary / Unary /
Lit / Path / ExprStmt) so that `ast.unparse`, `ast.find` and friends work on it, and a lane evaluator
turns an interval operation into its paths: (conditions, result) with the two bounds written as scalar
expressions of the operands' bounds."""
import os
import re

from . import ast as A

_TOK = re.compile(r"""
    (?P<ws>\s+|//[^\n]*|/\*.*?\*/)
  | (?P<num>0[xX][0-9a-fA-F]+[iu]?|\d+\.\d*(?:[eE][+-]?\d+)?[fh]?|\.\d+(?:[eE][+-]?\d+)?[fh]?|\d+[eE][+-]?\d+[fh]?|\d+[iufh]?)
  | (?P<id>[A-Za-z_][A-Za-z_0-9]*)
  | (?P<op><<=|>>=|\|\||&&|==|!=|<=|>=|<<|>>|\+=|-=|\*=|/=|%=|&=|\|=|\^=|->|\+\+|--|[-+*/%<>=!&|^~.,;:(){}\[\]@])
""", re.X | re.S)


class ParseError(Exception):
    pass


def tokenize(src):
    out = []
    pos = 0
    line = 1
    while pos < len(src):
        m = _TOK.match(src, pos)
        if not m:
            raise ParseError("unexpected character %r at line %d" % (src[pos], line))
        text = m.group(0)
        if m.lastgroup != "ws":
            out.append((m.lastgroup, text, line))
        line += text.count("\n")
        pos = m.end()
    out.append(("eof", "", line))
    return out


_BINPREC = [
    ("||",), ("&&",), ("|",), ("^",), ("&",), ("==", "!="), ("<", ">", "<=", ">="), ("<<", ">>"), ("+", "-"), ("*", "/", "%"),
]


class Parser:
    def __init__(self, src, path=""):
        self.t = tokenize(src)
        self.i = 0
        self.path = path

    # -- token helpers
    def peek(self, k=0):
        return self.t[min(self.i + k, len(self.t) - 1)]

    def at(self, text):
        return self.peek()[1] == text and self.peek()[0] != "eof"

    def eat(self, text=None):
        tok = self.peek()
        if text is not None and tok[1] != text:
            raise ParseError("%s: expected `%s`, found `%s` at line %d" % (self.path, text, tok[1], tok[2]))
        self.i += 1
        return tok

    def opt(self, text):
        if self.at(text):
            self.i += 1
            return True
        return False

    # -- items
    def module(self):
        items = []
        while self.peek()[0] != "eof":
            while self.at("@"):
                self.attribute()
            tok = self.peek()
            if tok[1] == "fn":
                items.append(self.function())
            elif tok[1] == "struct":
                self.eat()
                name = self.eat()[1]
                self.skip_braces()
                items.append({"k": "StructDef", "name": name, "ln": tok[2]})
            elif tok[1] in ("const", "override"):
                self.eat()
                name = self.eat()[1]
                if self.opt(":"):
                    self.type_()
                e = None
                if self.opt("="):
                    e = self.expr()
                self.eat(";")
                items.append({"k": "Const", "name": name, "e": e, "ln": tok[2]})
            elif tok[1] in ("var", "alias", "enable", "requires", "diagnostic"):
                while not self.at(";"):
                    self.eat()
                self.eat(";")
            elif tok[1] == ";":
                self.eat()
            else:
                raise ParseError("%s: unexpected `%s` at line %d" % (self.path, tok[1], tok[2]))
        return items

    def attribute(self):
        self.eat("@")
        self.eat()
        if self.at("("):
            depth = 0
            while True:
                tok = self.eat()
                if tok[1] == "(":
                    depth += 1
                elif tok[1] == ")":
                    depth -= 1
                    if depth == 0:
                        break

    def skip_braces(self):
        self.eat("{")
        depth = 1
        while depth:
            tok = self.eat()
            if tok[1] == "{":
                depth += 1
            elif tok[1] == "}":
                depth -= 1

    def type_(self):
        """a type: ident with optional <..> generic arguments (kept as text)"""
        out = self.eat()[1]
        if self.at("<"):
            depth = 0
            while True:
                tok = self.eat()
                out += tok[1]
                if tok[1] == "<":
                    depth += 1
                elif tok[1] == ">":
                    depth -= 1
                    if depth == 0:
                        break
                elif tok[1] == ">>":
                    depth -= 2
                    if depth <= 0:
                        break
        return out

    def function(self):
        ln = self.eat("fn")[2]
        name = self.eat()[1]
        self.eat("(")
        params = []
        while not self.at(")"):
            while self.at("@"):
                self.attribute()
            pn = self.eat()[1]
            self.eat(":")
            ty = self.type_()
            params.append((pn, ty))
            if not self.opt(","):
                break
        self.eat(")")
        ret = None
        if self.opt("->"):
            while self.at("@"):
                self.attribute()
            ret = self.type_()
        body = self.block()
        return {"k": "Fn", "name": name, "params": params, "ret": ret, "body": body, "ln": ln, "le": self.t[self.i - 1][2], "file": self.path}

    # -- statements
    def block(self):
        ln = self.eat("{")[2]
        stmts = []
        while not self.at("}"):
            stmts.append(self.statement())
        self.eat("}")
        return {"k": "Block", "stmts": stmts, "ln": ln}

    def statement(self):
        tok = self.peek()
        ln = tok[2]
        w = tok[1]
        if w == "{":
            return {"k": "ExprStmt", "e": self.block(), "semi": True, "ln": ln}
        if w in ("let", "var", "const"):
            self.eat()
            if self.at("<"):
                self.type_generic_skip()
            name = self.eat()[1]
            ty = None
            if self.opt(":"):
                ty = self.type_()
            init = None
            if self.opt("="):
                init = self.expr()
            self.eat(";")
            return {"k": "Let", "pat": {"k": "PIdent", "name": name, "mut": w == "var"}, "init": init, "ty": ty, "ln": ln}
        if w == "return":
            self.eat()
            e = None if self.at(";") else self.expr()
            self.eat(";")
            return {"k": "ExprStmt", "e": {"k": "Return", "e": e, "ln": ln}, "semi": True, "ln": ln}
        if w in ("continue", "break", "discard"):
            self.eat()
            self.eat(";")
            return {"k": "ExprStmt", "e": {"k": w.capitalize(), "ln": ln}, "semi": True, "ln": ln}
        if w == "if":
            return {"k": "ExprStmt", "e": self.if_(), "semi": False, "ln": ln}
        if w == "switch":
            self.eat()
            e = self.expr()
            self.eat("{")
            cases = []
            while not self.at("}"):
                cln = self.peek()[2]
                if self.opt("default"):
                    sels = None
                else:
                    self.eat("case")
                    sels = []
                    while True:
                        if self.opt("default"):
                            sels.append({"k": "Path", "segs": ["default"]})
                        else:
                            sels.append(self.expr())
                        if not self.opt(","):
                            break
                self.opt(":")
                cases.append({"sel": sels, "body": self.block(), "ln": cln})
            self.eat("}")
            return {"k": "ExprStmt", "e": {"k": "Switch", "e": e, "cases": cases, "ln": ln}, "semi": False, "ln": ln}
        if w == "while":
            self.eat()
            c = self.expr()
            return {"k": "ExprStmt", "e": {"k": "While", "cond": c, "body": self.block(), "ln": ln}, "semi": False, "ln": ln}
        if w == "loop":
            self.eat()
            return {"k": "ExprStmt", "e": {"k": "Loop", "body": self.block(), "ln": ln}, "semi": False, "ln": ln}
        if w == "for":
            self.eat()
            self.eat("(")
            init = None if self.at(";") else self.statement_nosemi()
            self.eat(";")
            cond = None if self.at(";") else self.expr()
            self.eat(";")
            step = None if self.at(")") else self.statement_nosemi()
            self.eat(")")
            return {"k": "ExprStmt", "e": {"k": "ForC", "init": init, "cond": cond, "step": step, "body": self.block(), "ln": ln}, "semi": False, "ln": ln}
        s = self.statement_nosemi()
        self.eat(";")
        return s

    def type_generic_skip(self):
        depth = 0
        while True:
            tok = self.eat()
            if tok[1] == "<":
                depth += 1
            elif tok[1] == ">":
                depth -= 1
                if depth == 0:
                    return

    def statement_nosemi(self):
        ln = self.peek()[2]
        if self.peek()[1] in ("let", "var"):
            w = self.eat()[1]
            name = self.eat()[1]
            ty = None
            if self.opt(":"):
                ty = self.type_()
            init = self.expr() if self.opt("=") else None
            return {"k": "Let", "pat": {"k": "PIdent", "name": name, "mut": w == "var"}, "init": init, "ty": ty, "ln": ln}
        e = self.expr()
        tok = self.peek()
        if tok[1] == "=":
            self.eat()
            r = self.expr()
            return {"k": "ExprStmt", "e": {"k": "Assign", "left": e, "right": r, "ln": ln}, "semi": True, "ln": ln}
        if tok[1] in ("+=", "-=", "*=", "/=", "%=", "&=", "|=", "^=", "<<=", ">>="):
            self.eat()
            r = self.expr()
            return {"k": "ExprStmt", "e": {"k": "Binary", "op": tok[1], "left": e, "right": r, "ln": ln}, "semi": True, "ln": ln}
        if tok[1] in ("++", "--"):
            self.eat()
            return {"k": "ExprStmt", "e": {"k": "Binary", "op": tok[1][0] + "=", "left": e, "right": {"k": "Lit", "ty": "int", "v": "1", "s": "1"}, "ln": ln}, "semi": True, "ln": ln}
        return {"k": "ExprStmt", "e": e, "semi": True, "ln": ln}

    def if_(self):
        ln = self.eat("if")[2]
        c = self.expr()
        th = self.block()
        el = None
        if self.opt("else"):
            el = self.if_() if self.at("if") else self.block()
        return {"k": "If", "cond": c, "then": th, "else": el, "ln": ln}

    # -- expressions
    def expr(self, level=0):
        if level == len(_BINPREC):
            return self.unary()
        left = self.expr(level + 1)
        while self.peek()[1] in _BINPREC[level] and self.peek()[0] == "op":
            # `<` after an identifier that names a generic function is handled in primary()
            op = self.eat()
            right = self.expr(level + 1)
            left = {"k": "Binary", "op": op[1], "left": left, "right": right, "ln": op[2]}
        return left

    def unary(self):
        tok = self.peek()
        if tok[0] == "op" and tok[1] in ("-", "!", "~", "&", "*"):
            self.eat()
            return {"k": "Unary", "op": tok[1], "e": self.unary(), "ln": tok[2]}
        return self.postfix()

    _GENERIC_FNS = {"bitcast", "array", "vec2", "vec3", "vec4", "mat2x2", "mat3x3", "mat4x4", "ptr", "atomic"}

    def postfix(self):
        tok = self.peek()
        ln = tok[2]
        if tok[1] == "(":
            self.eat()
            e = self.expr()
            self.eat(")")
            e = {"k": "Paren", "e": e, "ln": ln}
        elif tok[0] == "num":
            self.eat()
            s = tok[1]
            isf = bool(re.search(r"[.eE]", s) and not s.lower().startswith("0x")) or s.endswith(("f", "h")) and not s.lower().startswith("0x")
            v = s.rstrip("fh") if isf else s.rstrip("iu")
            if not isf:
                v = str(int(v, 0))
            e = {"k": "Lit", "ty": "float" if isf else "int", "v": v, "s": s, "ln": ln}
        elif tok[0] == "id":
            self.eat()
            name = tok[1]
            if name in ("true", "false"):
                e = {"k": "Lit", "ty": "bool", "v": name, "s": name, "ln": ln}
            else:
                turbofish = ""
                if name in self._GENERIC_FNS and self.at("<"):
                    turbofish = "<" + self.type_args() + ">"
                e = {"k": "Path", "segs": [name], "ln": ln}
                if turbofish:
                    e["generic"] = turbofish
                    e["s"] = name + turbofish
        else:
            raise ParseError("%s: unexpected `%s` at line %d" % (self.path, tok[1], tok[2]))
        while True:
            if self.at("("):
                self.eat()
                args = []
                while not self.at(")"):
                    args.append(self.expr())
                    if not self.opt(","):
                        break
                self.eat(")")
                e = {"k": "Call", "func": e, "args": args, "ln": ln}
            elif self.at("."):
                self.eat()
                e = {"k": "Field", "e": e, "member": self.eat()[1], "ln": ln}
            elif self.at("["):
                self.eat()
                ix = self.expr()
                self.eat("]")
                e = {"k": "Index", "e": e, "index": ix, "ln": ln}
            else:
                return e

    def type_args(self):
        self.eat("<")
        depth = 1
        out = ""
        while depth:
            tok = self.eat()
            if tok[1] == "<":
                depth += 1
            elif tok[1] == ">":
                depth -= 1
                if depth == 0:
                    break
            out += tok[1]
        return out


_CACHE = {}


def load(rel, root=None):
    """{function name: Fn} plus '_items' for a shader file of the repository"""
    root = root or A.REPO
    key = (root, rel)
    if key not in _CACHE:
        p = os.path.join(root, rel)
        if not os.path.exists(p):
            raise A.AnchorLost("shader file %s" % rel)
        try:
            items = Parser(open(p).read(), rel).module()
        except ParseError as e:
            raise A.AnchorLost("WGSL syntax the front end understands in %s (%s)" % (rel, e))
        d = {it["name"]: it for it in items if it.get("k") == "Fn"}
        d["_items"] = items
        _CACHE[key] = d
    return _CACHE[key]


# ---------------------------------------------------------------------------
# lane evaluation of interval operations


class Untranslatable(Exception):
    pass


NAN = "NaN"


def _bin(op, a, b):
    if op in ("+", "*") and b < a:
        a, b = b, a
    return "(%s%s%s)" % (a, op, b)


_LANEWISE = {"sqrt", "floor", "ceil", "round", "abs", "exp", "log", "sin", "cos", "tan", "asin", "acos", "atan", "min", "max", "trunc", "fract", "sign"}


class Lanes:
    """evaluates expressions over operands whose `.v` is a pair of scalar bounds"""

    def __init__(self, env):
        self.env = dict(env)  # name -> value; value: str (scalar) | (str, str) (vec2) | {'v': (str, str)} (Value)

    def ev(self, e):
        k = e.get("k")
        if k == "Paren":
            return self.ev(e["e"])
        if k == "Lit":
            return e["v"] if e["ty"] != "float" else repr(float(e["v"]))
        if k == "Path":
            n = e["segs"][0]
            if n in self.env:
                return self.env[n]
            return n
        if k == "Unary":
            v = self.ev(e["e"])
            if e["op"] == "-":
                return self.lift1(lambda x: "(-%s)" % x if not x.startswith("(-") else x[2:-1], v)
            if e["op"] == "!":
                if isinstance(v, str):
                    return v[1:] if v.startswith("!") else "!" + v
            raise Untranslatable("unary %s" % e["op"])
        if k == "Binary":
            a, b = self.ev(e["left"]), self.ev(e["right"])
            return self.lift2(lambda x, y: _bin(e["op"], x, y), a, b)
        if k == "Field":
            base = self.ev(e["e"])
            m = e["member"]
            if isinstance(base, dict):
                if m in base:
                    return base[m]
                raise Untranslatable("member %s" % m)
            if isinstance(base, tuple) and re.fullmatch(r"[xyrg]{1,2}", m):
                idx = ["xyrg".index(c) % 2 for c in m]
                return base[idx[0]] if len(idx) == 1 else (base[idx[0]], base[idx[1]])
            raise Untranslatable("field %s of %s" % (m, type(base).__name__))
        if k == "Index":
            base = self.ev(e["e"])
            ix = self.ev(e["index"])
            if isinstance(base, tuple) and ix in ("0", "1"):
                return base[int(ix)]
            raise Untranslatable("index %s" % ix)
        if k == "Call":
            fn = e["func"]
            name = fn["segs"][0] if fn.get("k") == "Path" else None
            args = [self.ev(a) for a in e["args"]]
            if name in ("vec2f", "vec2"):
                if len(args) == 1:
                    return args[0] if isinstance(args[0], tuple) else (args[0], args[0])
                if len(args) == 2 and all(isinstance(a, str) for a in args):
                    return (args[0], args[1])
                raise Untranslatable("vec2 constructor")
            if name == "Value":
                if not args:
                    return {"v": ("0.0", "0.0")}
                if len(args) == 1 and isinstance(args[0], tuple):
                    return {"v": args[0]}
                raise Untranslatable("Value constructor")
            if name == "nan_i":
                return NAN
            if name == "build_imm" and len(args) == 1 and isinstance(args[0], str):
                return {"v": (args[0], args[0])}
            if name in ("has_nan", "is_nan", "contains_i"):
                return "%s(%s)" % (name, ",".join(self.show(a) for a in args))
            if name in _LANEWISE:
                if len(args) == 1:
                    return self.lift1(lambda x: "%s(%s)" % (name, x), args[0])
                if len(args) == 2:
                    f = (lambda x, y: "%s(%s,%s)" % ((name,) + tuple(sorted((x, y))))) if name in ("min", "max") else (lambda x, y: "%s(%s,%s)" % (name, x, y))
                    return self.lift2(f, args[0], args[1])
            if all(isinstance(a, str) for a in args):
                return "%s(%s)" % (name, ",".join(args))
            raise Untranslatable("call %s" % name)
        raise Untranslatable(k)

    @staticmethod
    def show(v):
        if isinstance(v, dict):
            return v.get("_name") or "[%s,%s]" % v["v"]
        if isinstance(v, tuple):
            return "(%s,%s)" % v
        return v

    @staticmethod
    def lift1(f, v):
        if isinstance(v, tuple):
            return (f(v[0]), f(v[1]))
        if isinstance(v, str):
            return f(v)
        raise Untranslatable("lane operation on a struct")

    @staticmethod
    def lift2(f, a, b):
        if isinstance(a, tuple) and isinstance(b, tuple):
            return (f(a[0], b[0]), f(a[1], b[1]))
        if isinstance(a, tuple) and isinstance(b, str):
            return (f(a[0], b), f(a[1], b))
        if isinstance(a, str) and isinstance(b, tuple):
            return (f(a, b[0]), f(a, b[1]))
        if isinstance(a, str) and isinstance(b, str):
            return f(a, b)
        raise Untranslatable("lane operation on a struct")


def op_paths(fn):
    """[(conditions, result, pushes)] for an interval operation `fn op_x(lhs: Value[, rhs: Value][, stack])`:
    result is NaN, ('lhs'|'rhs') for an operand returned whole, or (lower, upper) as scalar expressions over
    a, b (lhs bounds) and c, d (rhs bounds); pushes are the choice constants pushed on the way"""
    env = {}
    names = iter((("a", "b"), ("c", "d")))
    for pn, ty in fn["params"]:
        if ty == "Value":
            lo, hi = next(names)
            env[pn] = {"v": (lo, hi), "_name": pn}
    out = []

    def run(stmts, env, conds, pushes):
        L = Lanes(env)
        for i, s in enumerate(stmts):
            if s.get("k") == "Let":
                env = dict(env)
                env[s["pat"]["name"]] = L.ev(s["init"]) if s.get("init") is not None else "0"
                L = Lanes(env)
                continue
            e = s["e"]
            k = e.get("k")
            if k == "Return":
                r = L.ev(e["e"])
                if isinstance(r, dict):
                    r = r.get("_name") or r["v"]
                out.append((list(conds), r, list(pushes)))
                return True
            if k == "If":
                c = L.ev(e["cond"])
                if not isinstance(c, str):
                    raise Untranslatable("condition")
                rest = stmts[i + 1:]
                t_done = run(e["then"]["stmts"] + rest, env, conds + [c], pushes)
                if e.get("else") is not None:
                    el = e["else"]
                    els = [{"k": "ExprStmt", "e": el, "semi": False}] if el.get("k") == "If" else el["stmts"]
                    f_done = run(els + rest, env, conds + ["!" + c], pushes)
                else:
                    f_done = run(rest, env, conds + ["!" + c], pushes)
                return t_done and f_done
            if k == "Call" and e["func"].get("k") == "Path" and e["func"]["segs"][0] == "stack_push" and len(e["args"]) == 2:
                pushes = pushes + [A.unparse(e["args"][1])]
                continue
            if k == "Block":
                if run(e["stmts"] + stmts[i + 1:], env, conds, pushes):
                    return True
                return False
            raise Untranslatable("statement %s" % k)
        return False

    run(fn["body"]["stmts"], env, [], [])
    return out
