"""fva64: parse the `dynasm!` token streams of the aarch64 assemblers (which this host never compiles)
into instruction lists, build per-builder control-flow graphs from their relative branches, and give each
instruction a read / write effect from an explicit table.

Nothing is executed: registers hold symbolic lane values at most (see a64checks)."""
import re

from . import ast as A
from . import asm as M

KINDS = ("point", "interval", "float_slice", "grad_slice")
MOD = "fidget-jit/src/aarch64/mod.rs"


def path_of(kind):
    return "fidget-jit/src/aarch64/%s.rs" % kind


ARR_BYTES = {"b8": 8, "b16": 16, "h4": 8, "h8": 16, "s2": 8, "s4": 16, "d1": 8, "d2": 16}
ELEM_BYTES = {"b": 1, "h": 2, "s": 4, "d": 8}
SCALAR_BYTES = {"B": 1, "H": 2, "S": 4, "D": 8, "Q": 16}
SHIFTS = ("lsl", "lsr", "asr", "ror", "uxtw", "sxtw", "uxtx", "sxtx", "msl")
CONDS = ("eq", "ne", "cs", "hs", "cc", "lo", "mi", "pl", "vs", "vc", "hi", "ls", "ge", "lt", "gt", "le", "al")


class Op:
    """one operand.
    vec : name ('T:param' | '<n>' | '?:text'), form ('v' arrangement | 's' scalar view), arr, lane, nbytes
    gpr : name ('x<n>' | 'sp' | 'zr'), width
    mem : base, off (int | None), sym (text of a symbolic offset), pre (bool)
    imm / shift / cond / label"""

    def __init__(self, kind, **kw):
        self.kind = kind
        self.__dict__.update(kw)

    def lanes(self):
        """the 32-bit lanes of the register this operand covers"""
        if self.kind != "vec":
            return ()
        if self.lane is not None:
            eb = ELEM_BYTES[self.elem]
            lo = self.lane * eb
            return tuple(range(lo // 4, max(lo // 4 + 1, (lo + eb + 3) // 4)))
        return tuple(range(0, max(1, (self.nbytes + 3) // 4)))

    def __repr__(self):
        return self.text


class Ins:
    def __init__(self, mnem, ops, ln, label=None, glob=False):
        self.mnem = mnem
        self.ops = ops
        self.ln = ln
        self.label = label
        self.glob = glob

    def __repr__(self):
        if self.label is not None:
            return "%s%s:" % ("->" if self.glob else "", self.label)
        return "%s %s" % (self.mnem, ", ".join(map(repr, self.ops)))


def _ts(toks):
    return A.tokens_str(toks).replace(" ", "")


def _vec_name(inner, local_imm, imm_reg):
    s = _ts(inner)
    m = re.fullmatch(r"reg\((\w+)\)", s)
    if m:
        return str(imm_reg) if m.group(1) in local_imm else "T:" + m.group(1)
    if s == "IMM_REG":
        return str(imm_reg)
    if re.fullmatch(r"\d+", s):
        return s
    return "?:" + s


def _suffix(toks):
    """`.s4` / `.s[1]` after a vector register -> (arr, elem, lane, rest)"""
    if len(toks) >= 2 and toks[0]["t"] == "p" and toks[0]["s"] == "." and toks[1]["t"] == "i":
        a = toks[1]["s"].lower()
        rest = toks[2:]
        if a in ARR_BYTES:
            return a, a[0], None, rest
        if a in ELEM_BYTES and rest and rest[0]["t"] == "g" and rest[0]["d"] == "[":
            try:
                lane = int(_ts(rest[0]["ts"]), 0)
            except ValueError:
                return None
            return None, a, lane, rest[1:]
    return None


def parse_operand(toks, local_imm, imm_reg):
    text = _ts(toks)
    if not toks:
        return Op("imm", text="")
    t0 = toks[0]
    if t0["t"] == "p" and t0["s"] in (">", "<") and len(toks) == 2:
        return Op("label", text=text, name=toks[1]["s"], dir=t0["s"], glob=False)
    if t0["t"] == "p" and t0["s"] == "-" and len(toks) == 3 and toks[1]["s"] == ">":
        return Op("label", text=text, name=toks[2]["s"], dir="->", glob=True)
    if t0["t"] == "p" and t0["s"] == "#":
        return Op("imm", text=_ts(toks[1:]))
    # V(expr).arr / S(expr) / D(expr) / Q(expr)
    if t0["t"] == "i" and t0["s"] in ("V", "B", "H", "S", "D", "Q") and len(toks) >= 2 and toks[1]["t"] == "g" and toks[1]["d"] == "(":
        name = _vec_name(toks[1]["ts"], local_imm, imm_reg)
        rest = toks[2:]
        if t0["s"] == "V":
            sfx = _suffix(rest)
            if sfx is not None and not sfx[3]:
                arr, elem, lane, _ = sfx
                return Op("vec", name=name, form="v", arr=arr, elem=elem, lane=lane, nbytes=ARR_BYTES.get(arr, ELEM_BYTES[elem]), text=text)
        elif not rest:
            return Op("vec", name=name, form="s", arr=None, elem=t0["s"].lower(), lane=None, nbytes=SCALAR_BYTES[t0["s"]], text=text)
        return Op("imm", text=text, unparsed=True)
    if t0["t"] == "i":
        s = t0["s"]
        m = re.fullmatch(r"([vbhsdq])(\d+)", s)
        if m and int(m.group(2)) < 32:
            rest = toks[1:]
            if m.group(1) == "v":
                sfx = _suffix(rest)
                if sfx is not None and not sfx[3]:
                    arr, elem, lane, _ = sfx
                    return Op("vec", name=m.group(2), form="v", arr=arr, elem=elem, lane=lane, nbytes=ARR_BYTES.get(arr, ELEM_BYTES[elem]), text=text)
            elif not rest:
                return Op("vec", name=m.group(2), form="s", arr=None, elem=m.group(1), lane=None, nbytes=SCALAR_BYTES[m.group(1).upper()], text=text)
        m = re.fullmatch(r"([xw])(\d+)", s)
        if m and len(toks) == 1 and int(m.group(2)) <= 30:
            return Op("gpr", name="x" + m.group(2), width=8 if m.group(1) == "x" else 4, text=text)
        if s in ("sp", "wsp") and len(toks) == 1:
            return Op("gpr", name="sp", width=8, text=text)
        if s in ("xzr", "wzr") and len(toks) == 1:
            return Op("gpr", name="zr", width=8 if s[0] == "x" else 4, text=text)
        if s in SHIFTS and len(toks) >= 2:
            return Op("shift", op=s, amount=_ts(toks[1:]).lstrip("#"), text=text)
        if s in CONDS and len(toks) == 1:
            return Op("cond", cc=s, text=text)
    if t0["t"] == "g" and t0["d"] == "[":
        pre = len(toks) == 2 and toks[1]["t"] == "p" and toks[1]["s"] == "!"
        if len(toks) == 1 or pre:
            parts = []
            cur = []
            for t in t0["ts"]:
                if t["t"] == "p" and t["s"] == ",":
                    parts.append(cur)
                    cur = []
                else:
                    cur.append(t)
            if cur:
                parts.append(cur)
            base = parse_operand(parts[0], local_imm, imm_reg) if parts else None
            if base is not None and base.kind == "gpr":
                off, sym = 0, None
                if len(parts) >= 2:
                    st = _ts(parts[1]).lstrip("#")
                    try:
                        off = int(st.replace("_", ""), 0)
                    except ValueError:
                        off, sym = None, st
                return Op("mem", base=base.name, off=off, sym=sym, pre=pre, extra=[_ts(p) for p in parts[2:]], text=text)
    return Op("imm", text=text)


def parse_block(mac, local_imm, imm_reg):
    stmts = M.split_statements(mac["tokens"])
    head = _ts(stmts[0])
    ins = []
    for st in stmts[1:]:
        if not st:
            continue
        if len(st) == 2 and st[0]["t"] == "i" and st[1]["t"] == "p" and st[1]["s"] == ":":
            ins.append(Ins(None, [], st[0]["ln"], label=st[0]["s"]))
            continue
        if len(st) == 4 and st[0]["s"] == "-" and st[1]["s"] == ">" and st[3]["s"] == ":":
            ins.append(Ins(None, [], st[0]["ln"], label=st[2]["s"], glob=True))
            continue
        if st[0]["t"] != "i":
            ins.append(Ins("?" + _ts(st), [], st[0].get("ln", 0)))
            continue
        mnem = st[0]["s"]
        rest = st[1:]
        # conditional branch: `b . mi 20`
        if mnem == "b" and len(rest) >= 2 and rest[0]["t"] == "p" and rest[0]["s"] == "." and rest[1]["t"] == "i":
            mnem = "b." + rest[1]["s"]
            rest = rest[2:]
        ops = []
        cur = []
        for t in rest:
            if t["t"] == "p" and t["s"] == ",":
                ops.append(parse_operand(cur, local_imm, imm_reg))
                cur = []
            else:
                cur.append(t)
        if cur:
            ops.append(parse_operand(cur, local_imm, imm_reg))
        ins.append(Ins(mnem, ops, st[0]["ln"]))
    return head, ins


# ---------------------------------------------------------------------------
# effects

# destination first, every other register operand read, destination not read
W1 = set("""fadd fsub fmul fdiv fnmul fmax fmin fmaxnm fminnm fneg fabs fsqrt frintm frintp frinta frintn frintz frintx
and orr eor bic orn add sub mul neg mvn not rev64 rev32 scvtf ucvtf fcvtms fcvtps fcvtas fcvtzs fcvtns fcvtmu fcvtzu
fcmeq fcmgt fcmge fcmle fcmlt cmeq cmgt cmge cmhi cmhs cmtst zip1 zip2 uzp1 uzp2 trn1 trn2 ext ushr sshr shl ushl sshl
lsr lsl asr ror madd msub udiv sdiv dup fmov mov movz movn movi mvni umov smov fmaxnmv fminnmv fmaxv fminv faddp fmaxp fminp
fmaxnmp fminnmp addv addp fcsel csel csinc cset csetm fcvt fabd frecpe frsqrte adr""".split())
# destination is also an input
RMW = set("movk fmla fmls mla mls bsl bit bif ins sli sri".split())
LOADS = {"ldr": 1, "ldrb": 1, "ldrh": 1, "ldrsw": 1, "ldur": 1, "ldp": 2}
STORES = {"str": 1, "strb": 1, "strh": 1, "stur": 1, "stp": 2}
FLAGS = set("cmp cmn tst fcmp fcmpe".split())
FLAGS_COND = set("fccmp ccmp ccmn".split())
READS_FLAGS = set("fcsel csel csinc cset csetm".split())

# AAPCS64: clobbered by a call
CALL_CLOBBER_GPR = ["x%d" % i for i in range(0, 19)] + ["x30"]


class Eff:
    def __init__(self):
        self.reads = []
        self.writes = []
        self.merges = []  # written operands whose other lanes / bits pass through
        self.addr = []
        self.mem_reads = []
        self.mem_writes = []
        self.flags_w = False
        self.flags_r = False
        self.kind = None
        self.unknown = False


def effect(ins):
    e = Eff()
    m = ins.mnem
    ops = ins.ops
    if ins.label is not None:
        e.kind = "label"
        return e
    if m is None or m.startswith("?") or any(getattr(o, "unparsed", False) for o in ops):
        e.kind = "unknown"
        e.unknown = True
        return e

    def rd(o):
        if o.kind in ("vec", "gpr"):
            if not (o.kind == "gpr" and o.name == "zr"):
                e.reads.append(o)

    def wr(o):
        if o.kind in ("vec", "gpr"):
            if o.kind == "gpr" and o.name == "zr":
                return
            e.writes.append(o)
            if o.kind == "vec" and o.lane is not None:
                e.merges.append(o)

    regs = [o for o in ops if o.kind in ("vec", "gpr")]
    if m in LOADS or m in STORES:
        n = LOADS.get(m) or STORES.get(m)
        mems = [o for o in ops if o.kind == "mem"]
        if len(mems) != 1 or len(regs) != n or ops[n].kind != "mem":
            e.kind = "unknown"
            e.unknown = True
            return e
        mem = mems[0]
        e.addr.append(mem.base)
        post = ops[n + 1:] if len(ops) > n + 1 else []
        if m in LOADS:
            e.kind = "load"
            for o in regs:
                wr(o)
            e.mem_reads.append(mem)
        else:
            e.kind = "store"
            for o in regs:
                rd(o)
            e.mem_writes.append(mem)
        if post or mem.pre:
            # post- / pre-index: the base register is updated
            e.writes.append(Op("gpr", name=mem.base, width=8, text=mem.base))
            e.post = post[0].text if post else mem.text
        return e
    if m in FLAGS or m in FLAGS_COND:
        e.kind = "cmp"
        for o in regs:
            rd(o)
        e.flags_w = True
        e.flags_r = m in FLAGS_COND
        return e
    if m == "b" or m.startswith("b."):
        e.kind = "jmp" if m == "b" else "jcc"
        e.flags_r = m != "b"
        return e
    if m in ("cbz", "cbnz", "tbz", "tbnz"):
        e.kind = "jcc"
        for o in regs:
            rd(o)
        return e
    if m in ("blr", "bl"):
        e.kind = "call"
        for o in regs:
            rd(o)
        return e
    if m == "ret":
        e.kind = "ret"
        return e
    if m == "br":
        e.kind = "unknown"
        e.unknown = True
        return e
    if m == "nop":
        e.kind = "nop"
        return e
    if (m in W1 or m in RMW) and regs and ops[0].kind in ("vec", "gpr"):
        e.kind = "rmw" if m in RMW else "alu"
        wr(ops[0])
        if m in RMW:
            rd(ops[0])
            if ops[0].kind == "vec" and ops[0] not in e.merges:
                e.merges.append(ops[0])
        for o in ops[1:]:
            rd(o)
        e.flags_r = m in READS_FLAGS
        return e
    if m in ("adds", "subs", "ands") and regs:
        e.kind = "alu"
        wr(ops[0])
        for o in ops[1:]:
            rd(o)
        e.flags_w = True
        return e
    e.kind = "unknown"
    e.unknown = True
    return e


def reads_names(e, include_addr=True):
    out = [("v", o.name) if o.kind == "vec" else ("g", o.name) for o in e.reads]
    if include_addr:
        out += [("g", r) for r in e.addr]
    return out


def writes_names(e):
    return [("v", o.name) if o.kind == "vec" else ("g", o.name) for o in e.writes]


# ---------------------------------------------------------------------------
# control flow: branches are byte offsets relative to the branch instruction (4 bytes per instruction)


def branch_offset(x):
    """-> (offset in bytes | None, global label | None)"""
    if not x.ops:
        return None, None
    t = x.ops[-1]
    if t.kind == "label":
        return None, t
    if t.kind == "imm":
        try:
            return int(t.text.replace("_", ""), 0), None
        except ValueError:
            return None, None
    return None, None


def build_cfg(ins):
    """ins: instruction list of one builder (label definitions occupy no space).
    -> (succ, problems); exit = len(ins); global targets are 'global:NAME'"""
    n = len(ins)
    real = [i for i, x in enumerate(ins) if x.label is None]
    pos = {i: k for k, i in enumerate(real)}
    succ = [[] for _ in range(n)]
    problems = []
    for i, x in enumerate(ins):
        if x.label is not None:
            succ[i] = [i + 1]
            continue
        e = effect(x)
        if e.kind in ("jmp", "jcc"):
            off, lab = branch_offset(x)
            tgt = None
            if lab is not None:
                if lab.glob:
                    tgt = "global:" + lab.name
                else:
                    problems.append((x.ln, "`%r`: local labels are not used by the aarch64 assemblers (no commit_local here)" % x))
            elif off is None:
                problems.append((x.ln, "`%r`: branch target is neither a byte offset nor a global label" % x))
            elif off % 4 != 0:
                problems.append((x.ln, "`%r`: branch offset %d is not a multiple of the 4-byte instruction size" % (x, off)))
            else:
                k = pos[i] + off // 4
                if k < 0 or k > len(real):
                    problems.append((x.ln, "`%r`: branch offset %d leaves this clause (%d instruction(s) %s it): it lands inside whatever clause the tape puts next" % (x, off, (k - len(real)) if k > len(real) else -k, "beyond" if k > len(real) else "before")))
                elif off == 0:
                    problems.append((x.ln, "`%r` branches to itself" % x))
                else:
                    tgt = real[k] if k < len(real) else n
            if e.kind == "jmp":
                succ[i] = [tgt] if tgt is not None else []
            else:
                succ[i] = [i + 1] + ([tgt] if tgt is not None else [])
        elif e.kind == "ret":
            succ[i] = []
        else:
            succ[i] = [i + 1]
    return succ, problems


def enumerate_paths(ins, succ, limit=4096):
    return M.enumerate_paths(ins, succ, limit)


# ---------------------------------------------------------------------------
# builders


def imm_reg(root=None):
    for c in A.find_items(MOD, "Const", "IMM_REG", root):
        v = A.lit_value(c["e"])
        if v is not None:
            return int(v)
    return None


def mod_consts(root=None):
    out = {}
    for n in ("REGISTER_LIMIT", "IMM_REG", "OFFSET"):
        for c in A.find_items(MOD, "Const", n, root):
            v = A.lit_value(c["e"])
            out[n] = int(v) if v is not None else None
    return out


class Builder(M.Builder):
    pass


def load_builders(path, root=None):
    d = A.load(path, root)
    ir = imm_reg(root)
    out = {}
    for fn in d["_fns"]:
        if fn["_test"] or fn.get("body") is None:
            continue
        if fn.get("_mods") and any(x.startswith("{") for x in fn["_mods"]):
            continue
        b = Builder(path, fn)
        b.local_imm = M.local_imm_names(fn)
        for m in A.find(fn["body"], "Macro"):
            if m.get("name") == "dynasm":
                head, ins = parse_block(m, b.local_imm, ir)
                b.blocks.append((m, head, ins))
        for c in A.find(fn["body"], "MethodCall"):
            if A.ident(A.strip(c["recv"])) == "self" and (c["method"].startswith("build_") or c["method"].startswith("call_fn") or c["method"] in ("load_imm", "ensure_callee_regs_saved")):
                b.helper_calls.append((c["method"], [A.ident(A.strip(a)) for a in c["args"]], c))
        for m in A.find(fn["body"], "Macro"):
            if m.get("name") in ("assert", "assert_ne", "assert_eq"):
                b.asserts.append(A.ftxt(m))
        if b.blocks or b.helper_calls:
            out[b.name] = b
    M.splice_emitters(out)
    return out


def flat_ins(b):
    out = []
    for _m, _h, ins in b.blocks:
        out.extend(ins)
    return out


def block_variants(b):
    """the instruction streams a builder can emit: dynasm blocks under `if / else` are alternatives, the rest
    is emitted always.  Returns a list of (description, [Ins]) - at most 16 variants."""
    import itertools

    conds = []
    for m, _h, _i in b.blocks:
        cs = A.enclosing_conds(b.fn["body"], m) or []
        conds.append(tuple(cs))
    atoms = []
    for cs in conds:
        for c in cs:
            a = c[1:] if c.startswith("!") else c
            if a not in atoms:
                atoms.append(a)
    if not atoms:
        return [("", flat_ins(b))]
    if len(atoms) > 4:
        return None
    out = []
    seen = set()
    for bits in itertools.product((True, False), repeat=len(atoms)):
        val = dict(zip(atoms, bits))
        ins = []
        chosen = []
        for (m, _h, i), cs in zip(b.blocks, conds):
            ok = all((not val[c[1:]]) if c.startswith("!") else val[c] for c in cs)
            if ok:
                ins.extend(i)
                chosen.append(m["ln"])
        key = tuple(chosen)
        if key in seen:
            continue
        seen.add(key)
        out.append((" && ".join(("" if v else "!") + a for a, v in val.items()), ins))
    return out
