"""E4 nanflow: float-class abstract interpretation of `Interval::new(lo, hi)` sites.

Each f32 atom (a bound of an input interval, a scalar parameter) ranges over
nine classes; every class assignment consistent with well-formed inputs is
enumerated, guards are evaluated three-valued, and the two constructor
arguments are evaluated with sound class transfer functions.  A site is
reported when *NaN asymmetry* is feasible: one argument NaN and the other not,
the one failure of the constructor's assertion that classes alone determine.
Ordering failures inside one class are not reported (non-relational domain)."""
import itertools

from . import ast as A

IV = "fidget-core/src/types/interval.rs"

# classes in increasing order; NaN is unordered
CLASSES = ["-inf", "<-1", "[-1,0)", "-0", "+0", "(0,1]", ">1", "+inf"]
NAN = "NaN"
ALL = frozenset(CLASSES + [NAN])
NONNAN = frozenset(CLASSES)
ORDER = {c: i for i, c in enumerate(CLASSES)}
# -0 and +0 compare equal
RANK = {"-inf": 0, "<-1": 1, "[-1,0)": 2, "-0": 3, "+0": 3, "(0,1]": 4, ">1": 5, "+inf": 6}
NEG = {"-inf": "+inf", "<-1": ">1", "[-1,0)": "(0,1]", "-0": "+0", "+0": "-0", "(0,1]": "[-1,0)", ">1": "<-1", "+inf": "-inf", NAN: NAN}
ZERO = {"-0", "+0"}
INF = {"-inf", "+inf"}
FINITE_NZ = {"<-1", "[-1,0)", "(0,1]", ">1"}


def sign(c):
    if c in ("-inf", "<-1", "[-1,0)", "-0"):
        return -1
    return 1


class Unsupported(Exception):
    pass


def fs(*cs):
    return frozenset(cs)


def lift1(f):
    def g(s):
        out = set()
        for c in s:
            out |= f(c)
        return frozenset(out)

    return g


def lift2(f):
    def g(a, b):
        out = set()
        for x in a:
            for y in b:
                out |= f(x, y)
        return frozenset(out)

    return g


def _add(a, b):
    if a == NAN or b == NAN:
        return {NAN}
    if a in INF and b in INF:
        return {a} if a == b else {NAN}
    if a in INF:
        return {a}
    if b in INF:
        return {b}
    if a in ZERO and b in ZERO:
        return {"+0", "-0"}
    if a in ZERO:
        return {b}
    if b in ZERO:
        return {a}
    if sign(a) == sign(b):
        # same sign, finite: grows in magnitude, may overflow
        return ({"(0,1]", ">1", "+inf"} if sign(a) > 0 else {"[-1,0)", "<-1", "-inf"})
    return set(CLASSES) - INF  # cancellation: any finite value


def _mul(a, b):
    if a == NAN or b == NAN:
        return {NAN}
    if (a in ZERO and b in INF) or (a in INF and b in ZERO):
        return {NAN}
    s = sign(a) * sign(b)
    if a in ZERO or b in ZERO:
        return {"+0"} if s > 0 else {"-0"}
    if a in INF or b in INF:
        return {"+inf"} if s > 0 else {"-inf"}
    # finite non-zero: may underflow to zero or overflow
    return {"+0", "(0,1]", ">1", "+inf"} if s > 0 else {"-0", "[-1,0)", "<-1", "-inf"}


def _div(a, b):
    if a == NAN or b == NAN:
        return {NAN}
    if (a in ZERO and b in ZERO) or (a in INF and b in INF):
        return {NAN}
    s = sign(a) * sign(b)
    if a in INF or b in ZERO:
        return {"+inf"} if s > 0 else {"-inf"}
    if a in ZERO or b in INF:
        return {"+0"} if s > 0 else {"-0"}
    # finite non-zero over finite non-zero: may underflow or overflow
    return {"+0", "(0,1]", ">1", "+inf"} if s > 0 else {"-0", "[-1,0)", "<-1", "-inf"}


def _min(a, b):
    if a == NAN:
        return {b}
    if b == NAN:
        return {a}
    return {a} if RANK[a] < RANK[b] else ({b} if RANK[b] < RANK[a] else {a, b})


def _max(a, b):
    if a == NAN:
        return {b}
    if b == NAN:
        return {a}
    return {a} if RANK[a] > RANK[b] else ({b} if RANK[b] > RANK[a] else {a, b})


def _u(table_nan=(), same=True):
    pass


def _sqrt(c):
    if c == NAN or c in ("-inf", "<-1", "[-1,0)"):
        return {NAN}
    if c in ZERO or c == "+inf":
        return {c}
    return {"(0,1]", ">1"}


def _ln(c):
    if c == NAN or c in ("-inf", "<-1", "[-1,0)"):
        return {NAN}
    if c in ZERO:
        return {"-inf"}
    if c == "+inf":
        return {"+inf"}
    return set(CLASSES) - INF if c == "(0,1]" else {"+0", "(0,1]", ">1"}


def _exp(c):
    if c == NAN:
        return {NAN}
    if c == "-inf":
        return {"+0"}
    if c == "+inf":
        return {"+inf"}
    return {"+0", "(0,1]", ">1", "+inf"}


def _trig(c):
    if c == NAN or c in INF:
        return {NAN}
    return set(CLASSES) - INF


def _tan(c):
    if c == NAN or c in INF:
        return {NAN}
    return set(CLASSES)


def _asin(c):
    if c == NAN or c in ("-inf", "<-1", ">1", "+inf"):
        return {NAN}
    return set(CLASSES) - INF


def _atan(c):
    if c == NAN:
        return {NAN}
    return set(CLASSES) - INF


def _roundish(c):
    if c == NAN:
        return {NAN}
    if c in INF or c in ZERO:
        return {c}
    return {"-0", "[-1,0)", "<-1"} if sign(c) < 0 else {"+0", "(0,1]", ">1"}


def _floor(c):
    if c == NAN:
        return {NAN}
    if c in INF or c in ZERO:
        return {c}
    return {"[-1,0)", "<-1"} if sign(c) < 0 else {"+0", "(0,1]", ">1"}


def _ceil(c):
    if c == NAN:
        return {NAN}
    if c in INF or c in ZERO:
        return {c}
    return {"-0", "[-1,0)", "<-1"} if sign(c) < 0 else {"(0,1]", ">1"}


def _abs(c):
    if c == NAN:
        return {NAN}
    return {c} if sign(c) > 0 else {NEG[c]}


def _sq(c):
    if c == NAN:
        return {NAN}
    return _mul(c, c)


def _rem(a, b):
    if a == NAN or b == NAN or a in INF or b in ZERO:
        return {NAN}
    if b in INF:
        return set(CLASSES)
    return {"+0", "(0,1]", ">1", "-0"}


UN = {"sqrt": _sqrt, "ln": _ln, "exp": _exp, "sin": _trig, "cos": _trig, "tan": _tan, "asin": _asin, "acos": _asin, "atan": _atan,
      "floor": _floor, "ceil": _ceil, "round": _roundish, "abs": _abs}
BIN = {"min": _min, "max": _max, "rem_euclid": _rem, "atan2": lambda a, b: {NAN} if NAN in (a, b) else set(CLASSES) - INF}


# three-valued comparisons on single classes -> set of possible truth values


def cmp_classes(op, a, b):
    if a == NAN or b == NAN:
        return {op == "!="}
    ra, rb = RANK[a], RANK[b]
    point = lambda c: c in ZERO or c in INF  # classes that are single values under comparison
    if ra < rb:
        lt, eq = True, False
    elif ra > rb:
        lt, eq = False, False
    else:
        if point(a) and point(b):
            lt, eq = False, True
        else:
            # same band: anything
            return {True, False}
    gt = (not lt) and (not eq)
    return {{"<": lt, "<=": lt or eq, ">": gt, ">=": gt or eq, "==": eq, "!=": not eq}[op]}


def const_class(v):
    import math

    if isinstance(v, str):
        return {"PI": ">1", "TAU": ">1", "NAN": NAN, "INFINITY": "+inf"}.get(v)
    if math.isnan(v):
        return NAN
    if v == float("inf"):
        return "+inf"
    if v == float("-inf"):
        return "-inf"
    if v == 0:
        return "-0" if math.copysign(1, v) < 0 else "+0"
    if v < -1:
        return "<-1"
    if v < 0:
        return "[-1,0)"
    if v <= 1:
        return "(0,1]"
    return ">1"


class Site:
    def __init__(self, fn, node):
        self.fn = fn
        self.node = node
        self.asym = []  # (assignment, S1, S2)
        self.reached = 0


class Analyzer:
    """one function, one class assignment"""

    def __init__(self, fn, assign, ivs, scalars, sites):
        self.fn = fn
        self.assign = assign  # atom name -> class
        self.ivs = ivs  # interval variable -> (lower atom, upper atom)
        self.scalars = scalars
        self.sites = sites

    # --- values: ('f', frozenset) | ('iv', lo_set, hi_set) | ('b', set(bool))
    def ev(self, e, env):
        e = A.strip(e)
        k = e.get("k")
        if k == "Lit":
            if e["ty"] in ("int", "float"):
                return ("f", fs(const_class(float(e["v"]))))
            if e["ty"] == "bool":
                return ("b", {e["v"] == "true"})
        if k == "Path":
            segs = e["segs"]
            if len(segs) == 1 and segs[0] in env:
                return env[segs[0]]
            c = const_class(segs[-1])
            if c is not None and len(segs) >= 1 and segs[-1] in ("PI", "TAU", "NAN", "INFINITY"):
                return ("f", fs(c))
            if len(segs) >= 2 and segs[0] in ("Choice", "Quadrant"):
                return ("?",)
            raise Unsupported("name %s" % "::".join(segs))
        if k == "Unary" and e["op"] == "-":
            v = self.ev(e["e"], env)
            if v[0] == "f":
                return ("f", frozenset(NEG[c] for c in v[1]))
            raise Unsupported("neg of %s" % v[0])
        if k == "Unary" and e["op"] == "!":
            v = self.ev(e["e"], env)
            return ("b", {not x for x in v[1]})
        if k == "Field":
            base = self.ev(e["e"], env)
            if base[0] == "iv" and e["member"] in ("lower", "upper"):
                return ("f", base[1] if e["member"] == "lower" else base[2])
            raise Unsupported("field %s" % e["member"])
        if k == "Binary":
            op = e["op"]
            if op in ("&&", "||"):
                l = self.ev(e["left"], env)[1]
                r = self.ev(e["right"], env)[1]
                out = set()
                for x in l:
                    if op == "&&":
                        out |= ({False} if not x else set(r))
                    else:
                        out |= ({True} if x else set(r))
                return ("b", out)
            l = self.ev(e["left"], env)
            r = self.ev(e["right"], env)
            if l[0] != "f" or r[0] != "f":
                raise Unsupported("binary on %s/%s" % (l[0], r[0]))
            if op in ("<", "<=", ">", ">=", "==", "!="):
                out = set()
                for a in l[1]:
                    for b in r[1]:
                        out |= cmp_classes(op, a, b)
                return ("b", out)
            f = {"+": _add, "*": _mul, "/": _div, "-": lambda a, b: _add(a, NEG[b])}.get(op)
            if f is None:
                raise Unsupported("operator %s" % op)
            return ("f", lift2(f)(l[1], r[1]))
        if k == "MethodCall":
            m = e["method"]
            recv = self.ev(e["recv"], env)
            args = [self.ev(a, env) for a in e["args"]]
            if recv[0] == "iv":
                lo, hi = recv[1], recv[2]
                if m == "lower":
                    return ("f", lo)
                if m == "upper":
                    return ("f", hi)
                if m == "has_nan":
                    out = set()
                    for a in lo:
                        for b in hi:
                            out.add(a == NAN or b == NAN)
                    return ("b", out)
                if m == "width":
                    return ("f", lift2(lambda a, b: _add(a, NEG[b]))(hi, lo))
                if m == "contains" and len(args) == 1 and args[0][0] == "f":
                    out = set()
                    for v in args[0][1]:
                        for a in lo:
                            for b in hi:
                                for t1 in cmp_classes(">=", v, a):
                                    for t2 in cmp_classes("<=", v, b):
                                        out.add(t1 and t2)
                    return ("b", out)
                if m == "abs":
                    # |[lo, hi]|: a well-formed non-negative interval (or NaN)
                    if NAN in lo or NAN in hi:
                        return ("iv", fs(NAN), fs(NAN)) if (lo == fs(NAN)) else ("iv", frozenset({"+0", "(0,1]", ">1", "+inf", NAN}), frozenset({"+0", "(0,1]", ">1", "+inf", NAN}))
                    pos = frozenset({"+0", "(0,1]", ">1", "+inf"})
                    mags = frozenset(set().union(*[_abs(c) for c in lo | hi]))
                    return ("iv", pos, mags)
                raise Unsupported("interval method %s" % m)
            if recv[0] == "f":
                if m in ("into", "clone"):
                    return recv
                if m == "is_nan":
                    return ("b", {c == NAN for c in recv[1]})
                if m == "powi" and len(args) == 1:
                    return ("f", lift1(_sq)(recv[1]))
                if m in UN and not args:
                    return ("f", lift1(UN[m])(recv[1]))
                if m in BIN and len(args) == 1 and args[0][0] == "f":
                    return ("f", lift2(BIN[m])(recv[1], args[0][1]))
                raise Unsupported("float method %s" % m)
            raise Unsupported("method %s on %s" % (m, recv[0]))
        if k == "Call":
            segs = A.path_segs(e["func"]) or []
            if segs[-2:] == ["Interval", "new"] and len(e["args"]) == 2:
                a = self.ev(e["args"][0], env)
                b = self.ev(e["args"][1], env)
                self.site(e, a[1], b[1])
                return ("iv", a[1], b[1])
            if segs[-2:] == ["Interval", "from"] and len(e["args"]) == 1:
                v = self.ev(e["args"][0], env)
                return ("iv", v[1], v[1]) if v[0] == "f" else v
            if segs[-1:] == ["quadrant"] and len(e["args"]) == 1:
                # an enum classification of a float: any variant (the match over it is explored arm by arm)
                self.ev(e["args"][0], env)
                return ("?",)
            raise Unsupported("call %s" % "::".join(segs))
        if k == "Tuple":
            for x in e["elems"]:
                try:
                    self.ev(x, env)
                except Unsupported:
                    pass
            return ("tuple",)
        if k == "If":
            # every feasible branch returned: what follows the statement is not reached
            return ("ret",) if self.branch(e, env) else ("?",)
        if k == "Block":
            return ("ret",) if self.block(e, dict(env)) else ("?",)
        if k == "Return":
            if e.get("e") is not None:
                self.ev(e["e"], env)
            return ("ret",)
        if k == "Match":
            # a match over values outside the float model (enum classifications): every arm whose guard
            # can hold is explored - an over-approximation of the paths
            scr = A.strip(e["e"])
            if scr.get("k") == "Tuple":
                elems = [self.ev(x, env) for x in scr["elems"]]
                if all(v_[0] == "b" for v_ in elems):
                    # a table over comparisons: first arm whose literals can all hold; stop at one that must
                    done = []
                    for arm in e["arms"]:
                        pats = arm["pat"]["elems"] if arm["pat"].get("k") == "PTuple" else None
                        if pats is None or len(pats) != len(elems) or arm.get("guard") is not None:
                            raise Unsupported("match arm over a tuple of comparisons")
                        may, must = True, True
                        for p_, v_ in zip(pats, elems):
                            if p_.get("k") == "PWild":
                                continue
                            if p_.get("k") != "PLit" or p_["lit"].get("ty") != "bool":
                                raise Unsupported("pattern in a tuple of comparisons")
                            want = p_["lit"]["v"] == "true"
                            may = may and (want in v_[1])
                            must = must and (v_[1] == {want})
                        if may:
                            done.append(self.ev(arm["body"], dict(env)) == ("ret",))
                        if must:
                            break
                    return ("ret",) if done and all(done) else ("?",)
            sv = self.ev(e["e"], env)
            if sv[0] not in ("?", "tuple"):
                raise Unsupported("match on %s" % sv[0])
            done = []
            for arm in e["arms"]:
                if any(True for _ in A.find(arm["pat"], "PIdent") if not (_.get("name", "")[:1].isupper())):
                    raise Unsupported("match arm binds a value")
                if arm.get("guard") is not None:
                    g = self.ev(arm["guard"], env)
                    if g[0] != "b":
                        raise Unsupported("guard")
                    if True not in g[1]:
                        continue
                r = self.ev(arm["body"], dict(env))
                done.append(r == ("ret",))
            return ("ret",) if done and all(done) else ("?",)
        raise Unsupported(k)

    def site(self, node, s1, s2):
        st = self.sites.setdefault(id(node), Site(self.fn, node))
        st.reached += 1
        n1, n2 = NAN in s1, NAN in s2
        o1, o2 = bool(s1 - {NAN}), bool(s2 - {NAN})
        if (n1 and o2) or (n2 and o1):
            # definite only when the NaN side is certainly NaN and the other certainly not
            definite = (s1 == fs(NAN) and not n2) or (s2 == fs(NAN) and not n1)
            st.asym.append((dict(self.assign), sorted(s1), sorted(s2), definite))

    def branch(self, e, env):
        c = A.strip(e["cond"])
        v = self.ev(c, env)
        if v[0] != "b":
            raise Unsupported("condition")
        done = []
        if True in v[1]:
            done.append(self.block(e["then"], dict(env)))
        if False in v[1]:
            if e.get("else") is not None:
                el = A.strip(e["else"])
                if el.get("k") == "If":
                    done.append(self.branch(el, env))
                else:
                    done.append(self.block(el, dict(env)))
            else:
                done.append(False)
        return bool(done) and all(done)

    def alternatives(self, e, env):
        """possible values of an if / block / tuple expression used as a let initialiser"""
        e = A.strip(e)
        k = e.get("k")
        if k == "If":
            v = self.ev(e["cond"], env)
            out = []
            if True in v[1]:
                out += self.alternatives(e["then"], env)
            if False in v[1]:
                if e.get("else") is None:
                    raise Unsupported("if without else as a value")
                out += self.alternatives(e["else"], env)
            return out
        if k == "Block":
            if len(e["stmts"]) != 1:
                raise Unsupported("multi-statement block as a value")
            return self.alternatives(A.stmt_expr(e["stmts"][0]), env)
        if k == "Tuple":
            return [("tuplev", [self.ev(x, env) for x in e["elems"]])]
        return [self.ev(e, env)]

    def block(self, b, env):
        """True when every feasible path through the block ends in `return`"""
        return self.stmts(b["stmts"], 0, env)

    def stmts(self, ss, i, env):
        while i < len(ss):
            s = ss[i]
            if s.get("k") == "Let" and s.get("init") is not None and s["pat"].get("k") == "PTuple":
                names = [A.binding_name(x) for x in s["pat"]["elems"]]
                rets = []
                for tup in self.alternatives(s["init"], env):
                    if tup[0] != "tuplev" or len(tup[1]) != len(names):
                        raise Unsupported("tuple let of %s" % tup[0])
                    # fork on every component's class as well
                    comps = [sorted(v[1]) if v[0] == "f" else [None] for v in tup[1]]
                    for combo in itertools.product(*comps):
                        e2 = dict(env)
                        for n, v, c in zip(names, tup[1], combo):
                            if n:
                                e2[n] = ("f", fs(c)) if c is not None else v
                        rets.append(self.stmts(ss, i + 1, e2))
                return bool(rets) and all(rets)
            if s.get("k") == "Let":
                nm = A.binding_name(s["pat"])
                if nm is None or s.get("init") is None:
                    raise Unsupported("let pattern")
                v = self.ev(s["init"], env)
                if v[0] == "f" and len(v[1]) > 1:
                    # fork on the local's class so that later uses of it stay correlated
                    rets = []
                    for c in sorted(v[1]):
                        e2 = dict(env)
                        e2[nm] = ("f", fs(c))
                        rets.append(self.stmts(ss, i + 1, e2))
                    return all(rets)
                env[nm] = v
                i += 1
                continue
            if s.get("k") in ("Use", "Fn"):
                i += 1
                continue
            e = A.stmt_expr(s)
            if e is None:
                raise Unsupported(s.get("k"))
            r = self.ev(e, env)
            if r == ("ret",):
                return True
            i += 1
        return False


def interval_fns(root=None):
    d = A.load(IV, root)
    out = []
    for f in d["_fns"]:
        if f["_test"] or f.get("body") is None:
            continue
        ow = f.get("_owner") or {}
        if ow.get("self_ty") != "Interval":
            continue
        if any((A.path_segs(c["func"]) or [])[-2:] == ["Interval", "new"] for c in A.find(f["body"], "Call")):
            out.append(f)
    return out


def well_formed_pairs():
    out = [(NAN, NAN)]
    for a in CLASSES:
        for b in CLASSES:
            if ORDER[a] <= ORDER[b] or (a in ZERO and b in ZERO):
                out.append((a, b))
    return out


def analyse(fn):
    """-> (sites dict, unsupported reason or None, evaluations)"""
    params = []
    for inp in fn["sig"]["inputs"]:
        if "self" in inp:
            params.append(("self", "iv"))
        else:
            ty = inp["ty"].replace(" ", "")
            nm = A.binding_name(inp["pat"])
            if ty in ("Self", "Interval"):
                params.append((nm, "iv"))
            elif ty == "f32":
                params.append((nm, "f"))
            elif ty == "[f32;2]":
                params.append((nm, "arr"))
            else:
                return {}, "parameter `%s: %s`" % (nm, ty), 0
    if any(k == "arr" for _, k in params):
        return {}, "raw array input (caller-supplied bounds)", 0
    if list(A.find(fn["body"], "For")) or list(A.find(fn["body"], "Closure")) or list(A.find(fn["body"], "Match")):
        # loops / closures / quadrant tables are outside the model
        reason = "loop, closure or match in body"
        # still try: sites outside those constructs are analysed if evaluation gets there
    doms = []
    for nm, k in params:
        doms.append(well_formed_pairs() if k == "iv" else [(c,) for c in CLASSES + [NAN]])
    sites = {}
    evals = 0
    err = None
    for combo in itertools.product(*doms):
        env = {}
        assign = {}
        for (nm, k), val in zip(params, combo):
            if k == "iv":
                env[nm] = ("iv", fs(val[0]), fs(val[1]))
                assign[nm] = "[%s, %s]" % val
            else:
                env[nm] = ("f", fs(val[0]))
                assign[nm] = val[0]
        an = Analyzer(fn, assign, None, None, sites)
        try:
            an.block(fn["body"], env)
            evals += 1
        except Unsupported as e:
            # this assignment of classes runs into something outside the model; others may leave the function
            # earlier (an early return in front of a loop) and their sites are still decided
            err = str(e)
            continue
        except RecursionError:
            err = "recursion"
            break
    return sites, err, evals
