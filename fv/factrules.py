"""Rules over resolved-program facts (E1).  Thorough tier builds the facts; the
quick tier uses them only when this source tree's facts are already cached."""
from . import ast as A
from . import facts as F


def _facts(rule, ctx):
    try:
        return F.get(build=(ctx.tier == "thorough"))
    except F.FactsUnavailable as e:
        rule.skip("resolved-program facts", "%s (run the thorough tier to build them)" % e)
        rule.floor = 0
        return None


def no_recursion(rule, ctx):
    f = _facts(rule, ctx)
    if f is None:
        return
    targets = [
        "<context::tree::TreeOp as std::cmp::PartialEq>::eq", "<context::tree::TreeOp as std::hash::Hash>::hash",
        "<context::tree::TreeOp as std::ops::Drop>::drop", "context::Context::import", "context::Context::export",
        "context::Context::deriv", "compiler::ssa_tape::SsaTape::new",
    ]
    for t in targets:
        if t not in f.fns:
            rule.lost("function %s in the MIR facts" % t)
            continue
        if f.in_cycle(t):
            rule.bad("cycle|%s" % t, "%s is part of a call-graph cycle (resolved callees): deep expressions would overflow the stack" % t, "%s:%s" % (f.fns[t]["file"], f.fns[t]["line"]))
        else:
            rule.ok("%s is in no call-graph cycle (%d resolved call edges followed)" % (t, len(f.calls.get(t, []))))


def remap_constructors(rule, ctx):
    f = _facts(rule, ctx)
    if f is None:
        return
    want = {"RemapAffine": "context::tree::Tree::remap_affine", "RemapAxes": "context::tree::Tree::remap_xyz"}
    seen = {k: 0 for k in want}
    for a in f.aggs:
        if a["adt"].endswith("context::tree::TreeOp") or a["adt"] == "TreeOp" or a["adt"].endswith("::TreeOp"):
            v = a["variant"]
            if v in want:
                seen[v] += 1
                if a["fn"] != want[v] and not a["fn"].startswith(want[v] + "::"):
                    rule.bad("agg|%s|%s" % (v, a["fn"]), "TreeOp::%s is constructed in %s (type-resolved); only %s may build it" % (v, a["fn"], want[v]), "line %s" % a["line"])
    for v, n in seen.items():
        if n == 0:
            rule.lost("construction of TreeOp::%s in the MIR facts" % v)
        else:
            rule.ok("TreeOp::%s: %d construction site(s), all in %s" % (v, n, want[v]))


def send_sync_inventory(rule, ctx):
    f = _facts(rule, ctx)
    if f is None:
        return
    vetted = {("std::marker::Send", "mmap::Mmap"), ("std::marker::Send", "JitTracingFn<T>"), ("std::marker::Sync", "JitTracingFn<T>"),
              ("std::marker::Send", "JitBulkFn<T>"), ("std::marker::Sync", "JitBulkFn<T>"), ("std::marker::Send", "JitBulkEval<T>"), ("std::marker::Sync", "JitBulkEval<T>")}
    got = {(u["trait"], u["ty"]) for u in f.unsafe_impls if u["trait"] in ("std::marker::Send", "std::marker::Sync")}
    for x in sorted(got - vetted):
        rule.bad("unsafe-impl|%s|%s" % x, "unvetted `unsafe impl %s for %s` (type-resolved)" % x, "")
    for x in sorted(got & vetted):
        rule.ok("unsafe impl %s for %s (vetted)" % x)
    if len(got & vetted) < 7:
        rule.skip("vetted impls", "%d of the 7 vetted impls no longer exist" % (7 - len(got & vetted)))
    # nobody writes a field of the JIT handles or of VarMap after construction
    for w in f.writes:
        adt = w["adt"]
        if adt.endswith("JitTracingFn") or adt.endswith("JitBulkFn"):
            rule.bad("write|%s.%s|%s" % (adt, w["field"], w["fn"]), "%s writes field `%s` of %s: the handle's Send/Sync claim rests on being immutable" % (w["fn"], w["field"], adt), "line %s" % w["line"])
        if adt.endswith("var::VarMap"):
            rule.bad("write|VarMap.%s|%s" % (w["field"], w["fn"]), "%s writes VarMap.%s directly; indices may only be assigned through VarMap::insert" % (w["fn"], w["field"]), "line %s" % w["line"])
    rule.ok("no field of JitTracingFn / JitBulkFn / VarMap is assigned outside construction (%d field writes examined)" % len(f.writes))


PANICKY = ("core::panicking::", "std::rt::begin_panic", "std::option::Option::<T>::unwrap", "std::option::Option::<T>::expect",
           "std::result::Result::<T, E>::unwrap", "std::result::Result::<T, E>::expect", "core::slice::index::slice_index")


def data_cone_panics(rule, ctx):
    """every function of the per-op data types (Interval, Grad, FloatExt for f32): calls to panicking std entry
    points and MIR assert terminators, against the justified inventory"""
    f = _facts(rule, ctx)
    if f is None:
        return
    allowed = {
        "types::interval::Interval::new": {"panic": 1},
        "types::interval::Interval::quadrant": {"panic": 1},
        "types::grad::Grad::d": {"panic": 1},
        # array indexing with constant / loop-bounded indices in the four-product loops
        # `k += 1` over a 2x2 loop cannot overflow; out[k] is indexed with k < 4
        "<types::interval::Interval as std::ops::Mul>::mul": {"bounds": 99, "arith": 1},
        "<types::interval::Interval as std::ops::Div>::div": {"bounds": 99, "arith": 1},
        "<types::interval::Interval as std::convert::From<[f32; 2]>>::from": {"bounds": 2},
    }
    n = 0
    for name, fn in sorted(f.fns.items()):
        if fn["crate"] != "fidget_core" or not (fn["file"].endswith("types/interval.rs") or fn["file"].endswith("types/grad.rs") or fn["file"].endswith("types/float.rs")):
            continue
        if "compare_eq" in name:
            continue
        n += 1
        counts = {}
        for c in f.calls.get(name, []):
            cal = c["callee"]
            if "::panicking::" in cal or cal.startswith("std::rt::begin_panic") or cal.endswith("::unwrap") or cal.endswith("::expect") or "slice_index" in cal:
                counts["panic"] = counts.get("panic", 0) + 1
        for a in f.asserts.get(name, []):
            k = "bounds" if a["what"] == "bounds" else "arith"
            counts[k] = counts.get(k, 0) + 1
        # closures share their parent's allowance
        base = name.split("::{closure")[0]
        al = allowed.get(base, {})
        bad = {k: v for k, v in counts.items() if v > al.get(k, 0)}
        if bad:
            rule.bad("mirpanic|%s" % name, "%s can panic (%s) beyond its justified inventory %s: a finite input reaching it would crash the evaluator" % (name, bad, al), "%s:%s" % (fn["file"], fn["line"]))
        else:
            rule.ok("%s: panic-capable MIR sites %s within inventory" % (name, counts or "{}"))
    if n < 60:
        rule.lost("per-op data functions in the MIR facts (found %d)" % n)
