"""C14 - shape evaluation binds variables by identity and applies the transform."""
import re
from .. import ast as A
from .. import shapecore as SC

VAR = SC.VAR


def r_varmap(rule, root=None):
    fn = A.find_fn(VAR, "get", self_ty="VarMap", root=root)
    ms = list(A.find(fn["body"], "Match"))
    want = {"Var::X": "self.x", "Var::Y": "self.y", "Var::Z": "self.z"}
    for arm in ms[0]["arms"] if ms else []:
        pt = A.ftxt(arm["pat"])
        tt = A.ftxt(arm["body"])
        if pt in want:
            if tt == want[pt]:
                rule.ok("VarMap::get %s -> %s" % (pt, tt), file=VAR, line=arm["ln"])
            else:
                rule.bad("get|%s" % pt, "VarMap::get(%s) returns `%s`" % (pt, tt), A.where(fn, arm))
        elif pt.startswith("Var::V("):
            vn = pt[7:-1]
            if tt in ("self.v.get(%s).cloned()" % vn, "self.v.get(%s).copied()" % vn, "self.v.get(&%s).copied()" % vn, "self.v.get(&%s).cloned()" % vn):
                rule.ok("VarMap::get Var::V -> self.v[id]")
            else:
                rule.bad("get|V", "VarMap::get(Var::V) returns `%s`" % tt, A.where(fn, arm))
    fn = A.find_fn(VAR, "insert", self_ty="VarMap", root=root)
    t = A.ftxt(fn["body"])
    mn = t.fmatch("let$N=self.len();")
    nxt = mn["$N"] if mn else "self.len()"
    first = fn["body"]["stmts"][0] if fn["body"]["stmts"] else {}
    if mn is None and "self.len()" not in t:
        rule.bad("insert|next", "VarMap::insert must number a new variable with the current length", A.where(fn))
    else:
        rule.ok("VarMap::insert: next index = len()")
    ms = list(A.find(fn["body"], "Match"))
    want = {"Var::X": "self.x.get_or_insert(%s)" % nxt, "Var::Y": "self.y.get_or_insert(%s)" % nxt, "Var::Z": "self.z.get_or_insert(%s)" % nxt}
    for arm in ms[0]["arms"] if ms else []:
        pt = A.ftxt(arm["pat"])
        tt = A.ftxt(arm["body"])
        if pt in want:
            if tt == want[pt]:
                rule.ok("VarMap::insert %s keeps an existing index" % pt, file=VAR, line=arm["ln"])
            else:
                rule.bad("insert|%s" % pt, "VarMap::insert(%s) does `%s`; an already-present variable must keep its index (get_or_insert)" % (pt, tt), A.where(fn, arm))
        elif pt.startswith("Var::V("):
            vn = pt[7:-1]
            if tt == "self.v.entry(%s).or_insert(%s)" % (vn, nxt):
                rule.ok("VarMap::insert Var::V keeps an existing index")
            else:
                rule.bad("insert|V", "VarMap::insert(Var::V) does `%s`" % tt, A.where(fn, arm))
    fn = A.find_fn(VAR, "len", self_ty="VarMap", root=root)
    t = A.ftxt(fn["body"])
    terms = []

    def _terms(e):
        e = A.strip(e)
        if e.get("k") == "Binary" and e["op"] == "+":
            _terms(e["left"]); _terms(e["right"])
        else:
            from .. import effects as E_
            terms.append(E_.canon(e))

    _terms(A.unblock(fn["body"]))
    if sorted(terms) == sorted(["self.x.is_some()", "self.y.is_some()", "self.z.is_some()", "self.v.len()"]):
        rule.ok("VarMap::len counts x, y, z and every free variable once")
    else:
        rule.bad("len", "VarMap::len must count each of x, y, z and all free variables exactly once", A.where(fn))
    # iter yields (Var::A, index of A)
    fn = A.find_fn(VAR, "iter", self_ty="VarMap", root=root)
    t = A.ftxt(fn["body"])
    need = ["self.x.map(|x|(Var::X,x))", "self.y.map(|y|(Var::Y,y))", "self.z.map(|z|(Var::Z,z))", "self.v.iter().map(|(v,k)|(Var::V(*v),*k))"]
    miss = [n for n in need if n not in t]
    if miss and need[3] in A.ftxt(A.value_view(fn["body"])) and _axis_pairs(fn) == {"X": "x", "Y": "y", "Z": "z"}:
        miss = []
    if not miss:
        rule.ok("VarMap::iter pairs every variable with its own index")
    else:
        rule.bad("iter", "VarMap::iter no longer pairs each axis with its own slot (missing %s)" % miss, A.where(fn))
    # only insert mutates the map
    d = A.load(VAR, root)
    writers = []
    for f in d["_fns"]:
        if f["_test"] or (f.get("_owner") or {}).get("self_ty") != "VarMap":
            continue
        sig = f["sig"]["inputs"]
        if sig and "self" in sig[0] and "mut" in sig[0]["self"]:
            writers.append(f["name"])
    if writers == ["insert"]:
        rule.ok("insert is VarMap's only mutating method")
    else:
        rule.bad("writers", "VarMap's &mut self methods are %s; indices must only ever be assigned by insert" % writers, A.where(VAR, {}))


from .. import factrules as FR


VAR = "fidget-core/src/var/mod.rs"


def _axis_pairs(fn):
    """{axis variant: VarMap field whose index it is paired with} in VarMap::iter, for the two spellings
    `self.f.map(|i| (Var::A, i))` and a table `[(Var::A, self.f), ..]` unwrapped pairwise"""
    import re as _re

    pairs = {}
    body = fn["body"]
    text = str(A.ftxt(A.value_view(body)))
    unwrap = _re.search(r"\|\((\w+),(\w+)\)\|\2\.map\(\|(\w+)\|\(\1,\3\)\)", text) is not None
    for t in A.find(body, "Tuple"):
        if len(t["elems"]) != 2:
            continue
        segs = A.path_segs(A.strip(t["elems"][0])) or []
        if len(segs) != 2 or segs[0] != "Var" or segs[1] not in ("X", "Y", "Z"):
            continue
        e2 = A.strip(t["elems"][1])
        f = None
        if A.ident(e2):
            for c in A.find(body, "MethodCall"):
                if c["method"] == "map" and len(c["args"]) == 1 and c["args"][0].get("k") == "Closure" and any(n is t for n in A.walk(c["args"][0]["body"])):
                    ps = c["args"][0].get("inputs", [])
                    m = _re.fullmatch(r"self\.(\w)", str(A.ftxt(A.strip(c["recv"]))))
                    if len(ps) == 1 and A.binding_name(ps[0]) == A.ident(e2) and m:
                        f = m.group(1)
        else:
            m = _re.fullmatch(r"self\.(\w)", str(A.ftxt(e2)))
            if m and unwrap:
                f = m.group(1)
        if f is None or segs[1] in pairs:
            return None
        pairs[segs[1]] = f
    return pairs


def r_var_identity(rule, root=None):
    """a variable made by Var::new is bound by its index, so two live variables must never share one: the
    index comes from a process-wide source (the random 64-bit draw, or one global atomic counter) - not from
    anything per thread, per context or per call site"""
    fn = A.find_fn(VAR, "new", self_ty="Var", root=root)
    body = fn["body"]
    macs = [m["name"] for m in A.find(body, "Macro")]
    calls = [(A.path_segs(c["func"]) or []) for c in A.find(body, "Call")]
    rnd = any(segs[-2:] == ["rand", "random"] or segs == ["random"] for segs in calls)
    atomic = any(c["method"] == "fetch_add" for c in A.find(body, "MethodCall"))
    tail = A.unblock(body["stmts"][-1]["e"]) if body["stmts"] and body["stmts"][-1].get("k") == "ExprStmt" else {}
    wraps = str(A.ftxt(tail)).startswith("Var::V(VarIndex(") or str(A.ftxt(tail)).startswith("Self::V(VarIndex(")
    if "thread_local" in macs:
        rule.bad("var|new|thread-local", "Var::new numbers variables from a per-thread counter: variables created on different threads get the same index, collapse into one input when combined, and overwrite each other's value in ShapeVars", A.where(fn))
    elif (rnd or atomic) and wraps:
        rule.ok("Var::new takes its index from a process-wide source (%s)" % ("rand::random" if rnd else "a global atomic counter"), file=VAR, line=fn["ln"])
    else:
        rule.bad("var|new|source", "Var::new must wrap an index drawn from a process-wide source (rand::random::<u64>() or one global atomic counter) in Var::V(VarIndex(..))", A.where(fn))



SHAPE = "fidget-core/src/shape/mod.rs"


def r3c_bind_check(rule, root=None):
    """ShapeVars::check (behind Shape::bind / BoundShape): *every* named variable of the shape is looked up in the
    supplied map, and a missing one is the error"""
    fn = A.find_fn(SHAPE, "check", self_ty="ShapeVars", root=root)
    calls = [c for c in A.find(fn["body"], "MethodCall") if c["method"] in ("contains_key", "get") and A.ident(A.strip(c["recv"])) == "self" or (c["method"] in ("contains_key", "get") and str(A.ftxt(c["recv"])) in ("self.0", "self"))]
    if not calls:
        rule.lost("the map lookup (`self.contains_key(..)`) of ShapeVars::check")
        return
    okall = True
    for c in calls:
        bs = A.enclosing_binders(fn["body"], c) or []
        hoisted = {A.binding_name(l_["pat"]) for l_ in A.find(fn["body"], "Let") if l_.get("init") is not None and "vars()" in str(A.ftxt(l_["init"])) and A.binding_name(l_["pat"])}
        if any("vars()" in src or any(re.match(r"\(?%s\b" % re.escape(h), src) for h in hoisted) for _n, src, _node in bs):
            continue
        okall = False
        rule.bad("ShapeVars::check|per-variable", "ShapeVars::check looks the variable up outside the iteration over the shape's variables (`%s`): only one variable is tested, and a shape with two named variables binds although one is missing" % str(A.ftxt(c))[:60], A.where(fn, c))
    if okall:
        rule.ok("ShapeVars::check looks up every variable of shape.inner().vars()", file=SHAPE, line=fn["ln"])
    errs = [r_ for r_ in A.result_cases(fn["body"]) if str(A.ftxt(r_[0])).startswith("Err(MissingVar")]
    t = str(A.ftxt(fn["body"]))
    if errs or "Err(MissingVar" in t:
        rule.ok("a variable that is not in the map is reported as MissingVar", file=SHAPE, line=fn["ln"])
    else:
        rule.bad("ShapeVars::check|error", "ShapeVars::check must return Err(MissingVar { .. }) for a variable that is not supplied", A.where(fn))


def r3d_var_array_lengths(rule, root=None):
    """ShapeBulkEval::var_array: a per-sample variable array whose length differs from the sample count - shorter
    *or* longer - is the error MismatchedVarSlices; a one-sided test lets a short array through, and the rest of the
    recycled row is evaluated with whatever it held"""
    fn = A.find_fn(SHAPE, "var_array", self_ty="ShapeBulkEval", root=root)
    row = None
    for clo_ in A.find(fn["body"], "Closure"):
        for p_ in clo_.get("inputs", clo_.get("params", [])):
            if p_.get("k") == "PType" and str(p_.get("ty") or "").replace(" ", "").startswith("&mut[") and A.binding_name(p_["pat"]):
                row = A.binding_name(p_["pat"])
    errs = [r_ for r_ in A.find(fn["body"], "Return") if r_.get("e") is not None and "MismatchedVarSlices" in str(A.ftxt(r_["e"]))]
    errs += [n_ for n_ in A.find(fn["body"], "Call") if "MismatchedVarSlices" in str(A.ftxt(n_)) and not any(any(x is n_ for x in A.walk(r_)) for r_ in errs) and (A.path_segs(n_["func"]) or [None])[-1] == "Err"]
    if row is None or not errs:
        rule.lost("the MismatchedVarSlices result of ShapeBulkEval::var_array")
        return
    ok_any = False
    for e_ in errs:
        conds = [c.replace(" ", "") for c in (A.enclosing_conds(fn["body"], e_) or [])]
        for c in conds:
            m = re.fullmatch(r"\(?(\w+)\.len\(\)!=(\w+)\.len\(\)\)?", c) or re.fullmatch(r"!\(?\(?(\w+)\.len\(\)==(\w+)\.len\(\)\)?\)?", c)
            if m and row in (m.group(1), m.group(2)) and m.group(1) != m.group(2):
                ok_any = True
    if ok_any:
        rule.ok("var_array: any difference between the array's length and the row's is MismatchedVarSlices", file=SHAPE, line=fn["ln"])
    else:
        rule.bad("var_array|lengths", "ShapeBulkEval::var_array reports MismatchedVarSlices under %s; it must be exactly `vars.len() != %s.len()` (a shorter array must be refused too: the rest of the recycled row would be evaluated with stale values)" % ([c[:60] for e_ in errs for c in (A.enclosing_conds(fn["body"], e_) or [])] or "no length comparison (a let-else / `?` on a trimmed slice is one-sided)", row), A.where(SHAPE, errs[0]))

def run(ctx):
    r = ctx.rule("R1", "X/Y/Z and free variables are bound by identity; the transform is applied in axis order", 16)
    ctx.guarded(r, SC.r_axis_binding)
    r = ctx.rule("R2", "VarMap assigns an index once, by identity, and only in insert", 12)
    ctx.guarded(r, r_varmap)
    r = ctx.rule("R2b", "fresh variables get process-wide unique indices", 1)
    ctx.guarded(r, r_var_identity)
    from .. import jitdriver as JD_

    r = ctx.rule("R1c", "native code reads variable slot i at i * (bytes per slot): strides, and no narrowed displacement out of range", 20)
    ctx.guarded(r, JD_.r_strides)
    ctx.guarded(r, JD_.r_narrow_displacements)
    r = ctx.rule("R3", "missing variables and too-short argument lists are errors; extras are allowed", 6)
    ctx.guarded(r, SC.r_arg_checks)
    ctx.guarded(r, SC.r_no_early_ok)
    from .C19 import r1_free_fixed

    r = ctx.rule("R5", "the solver binds every parameter at its tape's own index, fixed ones at their value in every lane", 7)
    ctx.guarded(r, r1_free_fixed)
    r = ctx.rule("R4", "Transformable for f32 / Interval / Grad are the same homogeneous transform", 7)
    ctx.guarded(r, lambda rule: SC.r_transformable(rule, ("Interval", "Grad", "f32")))
    r = ctx.rule("R2f", "[resolved program] VarMap fields are never assigned outside construction", 8)
    ctx.guarded(r, FR.send_sync_inventory, ctx)
    from .. import a64checks as XC

    r = ctx.rule("R1d", "aarch64 native code reads variable slot i at i * (bytes per slot) from x0 and writes output i likewise", 19)
    ctx.guarded(r, XC.check_strides)
    # the native evaluators read variable i through the pointer they were handed; a clause that calls out must hand it back
    from .. import asmcopy as AK_
    from .. import asmchecks as AC_

    r = ctx.rule("R1e", "native call helpers restore the pointer the variables are read through (and every other pointer) after an out-of-line call", 8)
    for kind in AC_.ALL:
        for n_ in ("call_fn_unary", "call_fn_binary"):
            ctx.guarded(r, AK_.check_call_helper, kind, n_)
    # "a function's variable map agrees between the function and every tape made from it" also after simplification:
    # the evaluators bind row i of the *reported* map, the simplified tape's Input ops keep the parent's rows
    from .. import simplify as S_

    r = ctx.rule("R6", "a simplified function reports its parent's variable map (recycled storage never contributes one)", 6)
    ctx.guarded(r, S_.r_tail)
    r = ctx.rule("R3c", "binding a variable set to a shape checks every named variable of the shape (a missing one is MissingVar)", 2)
    ctx.guarded(r, r3c_bind_check)
    r = ctx.rule("R3d", "a per-sample variable array of any other length than the sample count is an error (shorter as well as longer)", 1)
    ctx.guarded(r, r3d_var_array_lengths)
    # named variables reach the inner evaluators through recycled scratch rows (C14j-1: a row "already holding" the value)
    ctx.include('C10', 'variable values are bound through recycled scratch rows', only=('R1s', 'R1v'))
    # every variable row reaches the native code through the bulk driver's pointer lists (small-n copy, main call, tail)
    ctx.include('C02', 'variable rows are handed to native code by the bulk driver', only=('R4',))
