"""C19 - constraint solver (structural part)."""
import re

from .. import ast as A

SOL = "fidget-solver/src/lib.rs"


def txt(n):
    return A.ftxt(n)


def r1_free_fixed(rule, root=None):
    new = A.find_fn(SOL, "new", self_ty="Solver", root=root)
    t = txt(new["body"])
    if "letgrad_index:HashMap<Var,usize>=vars.iter().filter(|(_v,p)|matches!(p,Parameter::Free(..))).enumerate().map(|(i,(v,_p))|(*v,i)).collect();" in t:
        rule.ok("grad_index numbers exactly the Free parameters, densely", file=SOL, line=new["ln"])
    else:
        rule.bad("grad_index", "grad_index must be built from the Free parameters only (filter matches!(p, Parameter::Free(..))) and numbered densely", A.where(new))
    solve = A.find_fn(SOL, "solve", root=root)
    t = txt(solve["body"])
    if "letout=solver.grad_index.into_iter().map(|(v,i)|(v,cur[i])).collect();Ok(out)}" in t:
        rule.ok("the result holds one value per grad_index entry, read from the slot that entry names", file=SOL, line=solve["ln"])
    else:
        rule.bad("result", "solve must return exactly {v: cur[i] for (v, i) in grad_index}: a value for each free parameter and no fixed one", A.where(solve))
    if "for(v,i)in&solver.grad_index{letParameter::Free(f)=vars[v]else{unreachable!();};cur[*i]=f;}" in t:
        rule.ok("the starting point of free parameter i is its own Free(value)")
    else:
        rule.bad("start", "cur[i] must start at the Free value of the parameter whose grad_index is i", A.where(solve))
    jac = A.find_fn(SOL, "get_jacobian", self_ty="Solver", root=root)
    t = txt(jac["body"])
    if "Parameter::Fixed(f)=>{slice.fill(Grad::new(*f,0.0,0.0,0.0));}" in t:
        rule.ok("get_jacobian: a fixed parameter is its given value with zero derivative")
    else:
        rule.bad("fixed|jacobian", "in get_jacobian a Fixed(f) parameter must be Grad::new(f, 0, 0, 0) in every lane", A.where(jac))
    err = A.find_fn(SOL, "get_err", self_ty="Solver", root=root)
    t = txt(err["body"])
    if "Parameter::Fixed(p)=>{*f=*p;}" in t and "Parameter::Free(..)=>{letgi=self.grad_index[v];*f=(cur[gi]-delta[gi]);}" in t:
        rule.ok("get_err: fixed parameters keep their value; free ones are tried at cur - delta")
    else:
        rule.bad("fixed|err", "get_err must evaluate Fixed parameters at their value and Free ones at cur[gi] - delta[gi]", A.where(err))
    for fn in (jac, err):
        t = txt(fn["body"])
        if "letSome(i)=tape.vars().get(v)else{continue;};" in t:
            rule.ok("%s binds each parameter at the index its tape assigns to that variable" % fn["name"])
        else:
            rule.bad("bind|%s" % fn["name"], "%s must look up each parameter's slot in this tape's own variable map" % fn["name"], A.where(fn))


def r2_packing(rule, root=None):
    jac = A.find_fn(SOL, "get_jacobian", self_ty="Solver", root=root)
    calls = [c for c in A.find(jac["body"], "Call") if (A.path_segs(c["func"]) or [])[-2:] == ["Grad", "new"] and len(c["args"]) == 4 and "if" in txt(c)]
    if len(calls) != 1:
        rule.lost("the unit-seed Grad::new(..) in get_jacobian")
    else:
        a = [txt(x) for x in calls[0]["args"]]
        want = ["cur[gi]", "if((j*3)==gi){1.0}else{0.0}", "if(((j*3)+1)==gi){1.0}else{0.0}", "if(((j*3)+2)==gi){1.0}else{0.0}"]
        if a == want:
            rule.ok("writer: free parameter gi seeds lane (gi mod 3) of sample (gi div 3) with 1", file=SOL, line=calls[0]["ln"])
        else:
            rule.bad("pack|writer", "the unit seeds are %s; sample j must carry d/d(param 3j+k) in lane k, i.e. %s" % (a, want), A.where(jac, calls[0]))
        loops = [l for l in A.find(jac["body"], "For") if any(n is calls[0] for n in A.walk(l["body"]))]
        if loops and txt(loops[-1]["pat"]) in ("(j,v)",) and txt(loops[-1]["iter"]) == "slice.iter_mut().enumerate()":
            rule.ok("writer: j enumerates the samples of the parameter's own row")
        else:
            rule.bad("pack|writer-loop", "the seed loop must enumerate the samples of the parameter's row as j", A.where(jac))
    t = txt(jac["body"])
    if "forgiin0..self.grad_index.len(){*jacobian.get_mut((ti,gi)).unwrap()=out[0][(gi/3)].d((gi%3));}" in t:
        rule.ok("reader: column gi of row ti is lane (gi mod 3) of sample (gi div 3) of output 0")
    else:
        rule.bad("pack|reader", "the Jacobian entry (ti, gi) must be out[0][gi / 3].d(gi % 3)", A.where(jac))
    if "result[ti]=out[0][0].v;" in t:
        rule.ok("the residual of equation ti is the value of output 0")
    else:
        rule.bad("pack|residual", "result[ti] must be out[0][0].v", A.where(jac))
    new = A.find_fn(SOL, "new", self_ty="Solver", root=root)
    t = txt(new["body"])
    if re.search(r"vec!\(Grad::from\(0f32\);grad_index\.len\(\)\.div_ceil\(3\)(\.max\(1\))?\)|vec!\[Grad::from\(0f32\);grad_index\.len\(\)\.div_ceil\(3\)", t) or "grad_index.len().div_ceil(3)" in t:
        rule.ok("batch width = ceil(free parameters / 3)")
    else:
        rule.bad("pack|width", "each gradient row must hold ceil(free / 3) samples", A.where(new))
    if "letvar_count=vars.len().max(grad_tapes.iter().map(|t|t.vars().len()).max().unwrap_or(0));" in t:
        rule.ok("scratch rows cover both the parameter count and the widest tape")
    else:
        rule.bad("pack|rows", "the scratch must have max(parameters, widest tape) rows", A.where(new))
    # Grad::d lanes are checked in C05.R3; Grad::new argument order v, dx, dy, dz
    g = A.find_fn("fidget-core/src/types/grad.rs", "new", self_ty="Grad", root=root)
    if txt(g["body"]) == "{Self{v:v,dx:dx,dy:dy,dz:dz}}":
        rule.ok("Grad::new(v, dx, dy, dz) stores its arguments under their own names")
    else:
        rule.bad("pack|grad-new", "Grad::new must store (v, dx, dy, dz) in that order", A.where(g))


def r3_exits(rule, root=None):
    solve = A.find_fn(SOL, "solve", root=root)
    calls = A.linear_calls(solve)
    loops = [l for l in A.find(solve["body"], "For") if txt(l["iter"]) == "0.."]
    if len(loops) != 1:
        rule.lost("the `for i in 0..` iteration loop in solve")
        return
    body = loops[0]["body"]["stmts"]
    seq = [txt(s) for s in body]
    i_jac = next((i for i, s in enumerate(seq) if s.startswith("solver.get_jacobian(&cur,&mutjacobian,&mutresult)")), None)
    i_exit = next((i for i, s in enumerate(seq) if s.startswith("ifresult.iter().all(|v|(*v==0.0)){break;}")), None)
    i_upd = next((i for i, s in enumerate(seq) if "(cur[gi]-=step[gi])" in s), None)
    if i_jac is not None and i_exit is not None and i_upd is not None and i_jac < i_exit < i_upd:
        rule.ok("an all-zero residual ends the iteration before anything is changed", file=SOL, line=body[i_exit]["ln"])
    else:
        rule.bad("exit|zero", "solve must evaluate the residuals, break when all are exactly zero, and only afterwards touch `cur`", A.where(solve, loops[0]))
    t = txt(solve["body"])
    # no free parameters: nothing to evaluate (zero-width gradient batch)
    pre = [txt(s) for s in solve["body"]["stmts"]]
    i_loop = next(i for i, s in enumerate(solve["body"]["stmts"]) if A.strip(A.stmt_expr(s) or {}) is loops[0])
    guard = [i for i, s in enumerate(pre[:i_loop]) if s.startswith("ifcur.is_empty(){returnOk(HashMap::new());}")]
    new = A.find_fn(SOL, "new", self_ty="Solver", root=root)
    wide = ".div_ceil(3).max(1)" in txt(new["body"])
    if guard or wide:
        rule.ok("with no free parameter the zero-width gradient batch is never read")
    else:
        rule.bad("exit|nofree", "with every parameter Fixed the gradient batch has width 0 and get_jacobian reads out[0][0]: solve must return early (or the batch must be at least one wide)", A.where(solve))
    if "letmutchanged=false;forgiin0..solver.grad_index.len(){letprev=cur[gi];(cur[gi]-=step[gi]);(changed|=(prev!=cur[gi]));}" in t:
        rule.ok("the step is applied to every free parameter and `changed` compares old with new")
    else:
        rule.bad("update", "every free parameter must be updated by its own step component and `changed` computed from old vs new", A.where(solve))
    if "leterr=solver.get_err(&cur,delta.as_slice());" in t and "break(err,delta);" in t:
        rule.ok("the accepted step is the one whose error was evaluated")
    else:
        rule.bad("step", "the step taken must be the delta whose error was accepted", A.where(solve))
    if "letmutjacobian=nalgebra::DMatrix::repeat(tapes.len(),cur.len(),0f32);letmutresult=nalgebra::DVector::repeat(tapes.len(),0f32);" in t:
        rule.ok("Jacobian is (equations x free parameters); residual has one entry per equation")
    else:
        rule.bad("shapes", "the Jacobian must be equations x free parameters and the residual one per equation", A.where(solve))


def run(ctx):
    r = ctx.rule("R1", "only free parameters get a gradient slot and a result; fixed ones are constants at their value", 7)
    ctx.guarded(r, r1_free_fixed)
    r = ctx.rule("R2", "three-per-sample packing: writer lanes, reader lanes and batch width agree", 7)
    ctx.guarded(r, r2_packing)
    r = ctx.rule("R3", "exits and updates: zero residual ends before any change; no free parameter never reads an empty batch", 5)
    ctx.guarded(r, r3_exits)
