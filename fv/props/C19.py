"""C19 - constraint solver (structural part).

Facts are stated per statement with `$meta` variables for locals (FragText.find), so that renaming,
naming a sub-expression, extracting a helper, or swapping one idiom for an equivalent one
(let-else / match, get_mut().unwrap() = / index assignment, iterator chain / loop) leaves them true.
Where several spellings of one idiom exist they are listed as alternatives."""
import re

from .. import ast as A

SOL = "fidget-solver/src/lib.rs"


def txt(n):
    return A.ftxt(n)


def first(t, alts, bind=None):
    """the first alternative fragment that matches -> bindings, else None"""
    for f in alts:
        m = t.fmatch(f, bind=bind)
        if m is not None:
            return m
    return None


def opt_or_continue(t, src, bind=None):
    """`$I` := payload of the Option `src`, skipping the iteration when it is None"""
    return first(
        t,
        [
            "letSome($I)=%s else{continue;};".replace(" ", "") % src,
            "let$I=match%s{Some($J)=>$J,None=>continue,};" % src,
            "let$I=match%s{None=>continue,Some($J)=>$J,};" % src,
            "ifletSome($I)=%s{" % src,
        ],
        bind,
    )


def free_filter_ok(closure):
    """closure |(_, p)| that is true exactly for Parameter::Free"""
    body = A.strip(closure["body"])
    if body.get("k") == "Macro" and body["name"] == "matches":
        pat = body.get("pat")
        alts = [A.pat_variant(p)[0] for p in A.flatten_or(pat)] if pat else []
        return alts == [["Parameter", "Free"]]
    if body.get("k") == "Block" and len(body["stmts"]) == 1:
        body = A.strip(A.stmt_expr(body["stmts"][0]) or {})
    if body.get("k") == "Match":
        verdict = {}
        for arm in body["arms"]:
            v = A.strip(arm["body"])
            val = v.get("v") if v.get("k") == "Lit" and v.get("ty") == "bool" else None
            for p in A.flatten_or(arm["pat"]):
                segs, _ = A.pat_variant(p)
                verdict["::".join(segs) if segs else "_"] = val
        return verdict.get("Parameter::Free") == "true" and all(v == "false" for k, v in verdict.items() if k != "Parameter::Free") and len(verdict) >= 2
    return False


def method_chain(e):
    """`a.b(x).c()` -> (root expr, [(method, args), ..]) innermost first"""
    chain = []
    e = A.strip(e)
    while e is not None and e.get("k") == "MethodCall":
        chain.append((e["method"], e["args"]))
        e = A.strip(e["recv"])
    return e, list(reversed(chain))


def _start_ok(solve):
    """`cur[i] = f` for every (v, i) of grad_index, f being the payload of vars[v] as Parameter::Free (anything
    else is unreachable) - with the payload taken by let-else, by a `match` bound to a name, or by a `match`
    that is the assigned value"""
    for loop in A.find(solve["body"], "For"):
        if A.iter_source(str(A.ftxt(A.strip(loop["iter"])))) != "solver.grad_index":
            continue
        p = loop["pat"]["pat"] if loop["pat"].get("k") == "PType" else loop["pat"]
        if p.get("k") != "PTuple" or len(p["elems"]) != 2:
            continue
        def _bn(x):
            while isinstance(x, dict) and x.get("k") in ("PRef", "PReference") and x.get("pat") is not None:
                x = x["pat"]
            return A.binding_name(x)

        v, i = _bn(p["elems"][0]), _bn(p["elems"][1])
        for a in A.find(loop["body"], "Assign"):
            m = re.fullmatch(r"(\w+)\[\*?%s\]" % re.escape(i or "?"), str(A.ftxt(a["left"])))
            if not m:
                continue
            val = A.strip(a["right"])
            src = None
            if A.ident(val):
                for names, scrut, dk, _st in A.variant_lets(loop["body"], "Free"):
                    if names == [A.ident(val)] and dk == "panic":
                        src = str(A.ftxt(A.strip(scrut)))
                if src is None:
                    # the assignment sits in the `Parameter::Free(f)` arm of a match whose other arms cannot be reached
                    for pat_, scr_ in A.enclosing_patterns(loop["body"], a) or []:
                        segs_, subs_ = A.pat_variant(pat_) if pat_.get("k") == "PTupleStruct" else (None, None)
                        if segs_ and segs_[-2:] == ["Parameter", "Free"] and subs_ and A.binding_name(subs_[0]) == A.ident(val):
                            mm_ = [m_ for m_ in A.find(loop["body"], "Match") if any(n_ is a for n_ in A.walk(m_))]
                            if mm_ and all(A._diverge_kind(ar_["body"]) == "panic" for ar_ in mm_[-1]["arms"] if not any(n_ is a for n_ in A.walk(ar_))):
                                src = str(A.ftxt(A.strip(scr_)))
            elif val.get("k") == "Match":
                hit, others = False, True
                for arm in val["arms"]:
                    segs, subs = A.pat_variant(arm["pat"]) if arm["pat"].get("k") == "PTupleStruct" else (None, None)
                    if segs and segs[-2:] == ["Parameter", "Free"] and subs and A.ident(A.strip(A.unblock(arm["body"]))) == A.binding_name(subs[0]):
                        hit = True
                    elif A._diverge_kind(arm["body"]) != "panic":
                        others = False
                if hit and others:
                    src = str(A.ftxt(A.strip(val["e"])))
            if src in ("vars[%s]" % v, "vars[&%s]" % v, "vars[*%s]" % v):
                return True
    return False


def r1_free_fixed(rule, root=None):
    new = A.find_fn(SOL, "new", self_ty="Solver", root=root)
    # grad_index = vars.iter().filter(Free only).enumerate().map(|(i, (v, _))| (*v, i)).collect()
    ok = False
    for s in A.find(new["body"], "Let"):
        if A.binding_name(s["pat"]) != "grad_index" or s.get("init") is None:
            continue
        base, chain = method_chain(s["init"])
        names = [m for m, _a in chain]
        if A.ident(base) == "vars" and names == ["iter", "filter", "enumerate", "map", "collect"]:
            filt = chain[1][1][0] if chain[1][1] else None
            mp = chain[3][1][0] if chain[3][1] else None
            if filt and filt.get("k") == "Closure" and mp and mp.get("k") == "Closure" and free_filter_ok(filt):
                m = txt(mp).fmatch("|($I,($V,$P))|(*$V,$I)") or txt(mp).fmatch("|($I,($V,_))|(*$V,$I)")
                ok = m is not None
    if not ok:
        tn = txt(new["body"])
        for src in ("vars", "vars.iter()"):
            if tn.fmatch("for($V,$P)in%s{ifmatches!($P,Parameter::Free(..)){let$N=grad_index.len();grad_index.insert(*$V,$N);}}" % src) is not None or tn.fmatch("for($V,$P)in%s{ifmatches!($P,Parameter::Free(..)){grad_index.insert(*$V,grad_index.len());}}" % src) is not None:
                ok = True
    if ok:
        rule.ok("grad_index numbers exactly the Free parameters, densely", file=SOL, line=new["ln"])
    else:
        rule.bad("grad_index", "grad_index must be built from the Free parameters only (filter matches!(p, Parameter::Free(..))) and numbered densely", A.where(new))
    solve = A.find_fn(SOL, "solve", root=root)
    t = txt(solve["body"])
    # result: one entry (v, cur[i]) per (v, i) of grad_index, and that map is what is returned
    m = first(
        t,
        [
            "let$O=solver.grad_index.into_iter().map(|($V,$I)|($V,cur[$I])).collect();Ok($O)}",
            "for($V,$I)insolver.grad_index{$O.insert($V,cur[$I]);}Ok($O)}",
            "for($V,$I)in&solver.grad_index{$O.insert(*$V,cur[*$I]);}Ok($O)}",
            "Ok(solver.grad_index.into_iter().map(|($V,$I)|($V,cur[$I])).collect())}",
        ],
    )
    if m is not None:
        rule.ok("the result holds one value per grad_index entry, read from the slot that entry names", file=SOL, line=solve["ln"])
    else:
        rule.bad("result", "solve must return exactly {v: cur[i] for (v, i) in grad_index}: a value for each free parameter and no fixed one", A.where(solve))
    # start: cur[i] = the Free value of the parameter whose grad_index is i (possibly in a helper)
    m = first(
        t,
        [
            "for($V,$I)in&solver.grad_index{letParameter::Free($F)=vars[$V]else{unreachable!();};$C[*$I]=$F;}",
            "for($V,$I)insolver.grad_index{letParameter::Free($F)=vars[$V]else{unreachable!();};$C[*$I]=$F;}",
            "for($V,$I)insolver.grad_index.iter(){letParameter::Free($F)=vars[$V]else{unreachable!();};$C[*$I]=$F;}",
        ],
    )
    if m is None and _start_ok(solve):
        m = {}
    if m is not None:
        rule.ok("the starting point of free parameter i is its own Free(value)")
    else:
        rule.bad("start", "cur[i] must start at the Free value of the parameter whose grad_index is i", A.where(solve))
    jac = A.find_fn(SOL, "get_jacobian", self_ty="Solver", root=root)
    t = txt(jac["body"])
    m = t.fmatch("Parameter::Fixed($F)=>{$S.fill(Grad::new(*$F,0.0,0.0,0.0));}")
    m = t.fmatch("let$S=&mutself.input_grad[$I];", bind=m) if m is not None else None
    if m is not None:
        rule.ok("get_jacobian: a fixed parameter is its given value with zero derivative")
    else:
        rule.bad("fixed|jacobian", "in get_jacobian a Fixed(f) parameter must be Grad::new(f, 0, 0, 0) in every lane of its own row of input_grad", A.where(jac))
    jm = m
    err = A.find_fn(SOL, "get_err", self_ty="Solver", root=root)
    t2 = txt(err["body"])
    m = t2.fmatch("Parameter::Fixed($P)=>{*$F=*$P;}")
    m = t2.fmatch("Parameter::Free(..)=>{let$G=self.grad_index[$V];*$F=(cur[$G]-delta[$G]);}", bind=m) if m is not None else None
    if m is None:
        m = t2.fmatch("Parameter::Fixed($P)=>{*$F=*$P;}")
        m = t2.fmatch("Parameter::Free(..)=>{*$F=(cur[self.grad_index[$V]]-delta[self.grad_index[$V]]);}", bind=m) if m is not None else None
    m = t2.fmatch("let$F=&mutself.input_point[$I];", bind=m) if m is not None else None
    if m is None:
        # the same assignment with the match as the value: `self.input_point[i] = match p { .. }`
        m = t2.fmatch("self.input_point[$I]=match$Q{")
        m = t2.fmatch("Parameter::Fixed($P)=>*$P", bind=m) if m is not None else None
        if m is not None:
            m = t2.fmatch("Parameter::Free(..)=>{let$G=self.grad_index[$V];(cur[$G]-delta[$G])}", bind=m) or t2.fmatch("Parameter::Free(..)=>(cur[self.grad_index[$V]]-delta[self.grad_index[$V]])", bind=m)
    if m is not None:
        rule.ok("get_err: fixed parameters keep their value; free ones are tried at cur - delta")
    else:
        rule.bad("fixed|err", "get_err must evaluate Fixed parameters at their value and Free ones at cur[gi] - delta[gi]", A.where(err))
    em = m
    for fn, tt, mm in ((jac, t, jm), (err, t2, em)):
        b = {"$I": mm["$I"]} if mm and "$I" in mm else None
        if opt_or_continue(tt, "tape.vars().get($V)", b) is not None:
            rule.ok("%s binds each parameter at the index its tape assigns to that variable" % fn["name"])
        else:
            rule.bad("bind|%s" % fn["name"], "%s must look up each parameter's slot in this tape's own variable map" % fn["name"], A.where(fn))


def _seed_by_meaning(jac):
    """the unit seeds read by meaning: inside the loop over the samples j of a free parameter's row, the three
    derivative lanes of `Grad::new(value, d0, d1, d2)` are 1 exactly when 3 j + k equals the parameter's gradient
    index (whatever names, closures or loop idiom spell it).  -> (ok?, message) or None when not analysable"""
    import sympy as sp

    from .. import qef as QF

    body = jac["body"]
    calls = [c for c in A.find(body, "Call") if (A.path_segs(c["func"]) or [])[-2:] == ["Grad", "new"] and len(c["args"]) == 4
             and not all(str(txt(a)) in ("0.0", "0f32", "0.0f32") for a in c["args"][1:])]
    if len(calls) != 1:
        return None
    call = calls[0]
    gname = None
    for l_ in A.find(body, "Let"):
        if l_.get("init") is not None and re.fullmatch(r"self\.grad_index\[\*?&?\w+\]", str(txt(l_["init"]))):
            gname = A.binding_name(l_["pat"])
    loops = [f for f in A.find(body, "For") if any(n is call for n in A.walk(f["body"]))]
    if not loops:
        return None
    lp = loops[-1]
    it = str(txt(lp["iter"]))
    pat = lp["pat"]
    J, G = sp.Symbol("j", integer=True), sp.Symbol("gi", integer=True)
    if pat.get("k") == "PTuple" and it.endswith(".iter_mut().enumerate()") and len(pat["elems"]) == 2:
        j = A.binding_name(pat["elems"][0])
        elem = A.binding_name(pat["elems"][1])
        row = it[: -len(".iter_mut().enumerate()")]
        target_ok = any(str(txt(a["left"])) == "*%s" % elem and any(n is call for n in A.walk(a["right"])) for a in A.find(lp["body"], "Assign"))
    elif re.fullmatch(r"\(?0\.\.(\w+)\.len\(\)\)?", it):
        j = A.binding_name(pat)
        row = re.fullmatch(r"\(?0\.\.(\w+)\.len\(\)\)?", it).group(1)
        target_ok = any(str(txt(a["left"])) == "%s[%s]" % (row, j) and any(n is call for n in A.walk(a["right"])) for a in A.find(lp["body"], "Assign"))
    else:
        return None
    if not j or not target_ok:
        return (False, "the seed built for sample j must be stored in element j of the parameter's own row")
    env = {j: J}
    if gname:
        env[gname] = G
    env["self.grad_index[v]"] = G
    it_ = QF.TInterp(env)
    for l_ in A.find(lp["body"], "Let"):
        if l_.get("init") is not None and A.strip(l_["init"]).get("k") == "Closure" and A.binding_name(l_["pat"]):
            it_.env[A.binding_name(l_["pat"])] = ("closure", A.strip(l_["init"]))
    for k_, a in enumerate(call["args"][1:]):
        try:
            v = it_.ev(a)
        except Exception:  # noqa: BLE001
            return None
        want = sp.Piecewise((1, sp.Eq(3 * J + k_, G)), (0, True))
        same = False
        if isinstance(v, sp.Piecewise) and len(v.args) == 2 and v.args[0][0] == 1 and v.args[1][0] == 0 and isinstance(v.args[0][1], sp.Equality):
            d = sp.simplify((v.args[0][1].lhs - v.args[0][1].rhs) - (3 * J + k_ - G))
            d2 = sp.simplify((v.args[0][1].lhs - v.args[0][1].rhs) + (3 * J + k_ - G))
            same = d == 0 or d2 == 0
        if not same:
            return (False, "lane %d of the seed for sample j is `%s`; it must be 1 exactly when 3 j + %d is the parameter's gradient index" % (k_, v, k_))
    v0 = str(txt(call["args"][0]))
    if not re.fullmatch(r"cur\[(%s|self\.grad_index\[\*?&?\w+\])\]" % re.escape(gname or "?"), v0):
        return (False, "the seed's value must be the parameter's current value cur[gi]; found `%s`" % v0)
    return (True, "")


def r2_packing(rule, root=None):
    jac = A.find_fn(SOL, "get_jacobian", self_ty="Solver", root=root)
    body = A.inline_lets_deep(jac["body"])
    calls = [c for c in A.find(body, "Call") if (A.path_segs(c["func"]) or [])[-2:] == ["Grad", "new"] and len(c["args"]) == 4 and "if" in txt(c)]
    sem = _seed_by_meaning(jac) if len(calls) != 1 else None
    if len(calls) != 1 and sem is not None:
        if sem[0]:
            rule.ok("writer: free parameter gi seeds lane (gi mod 3) of sample (gi div 3) with 1 (read by meaning)", file=SOL, line=jac["ln"])
            rule.ok("writer: j enumerates the samples of the parameter's own row")
        else:
            rule.bad("pack|writer", "get_jacobian: %s" % sem[1], A.where(jac))
    elif len(calls) != 1:
        rule.lost("the unit-seed Grad::new(..) in get_jacobian")
    else:
        # the sample index j enumerates the parameter's own row
        binders = A.enclosing_binders(body, calls[0]) or []
        j = None
        if binders:
            nm, it, node = binders[-1]
            pat = node.get("pat") if node.get("k") == "For" else None
            els = pat.get("elems") if pat and pat.get("k") == "PTuple" else None
            src = A.iter_source(it[: -len(".enumerate()")]) if it.endswith(".enumerate()") else None
            if els and len(els) == 2 and src is not None:
                j = A.binding_name(els[0])
                row = src
        a = [str(txt(x)) for x in calls[0]["args"]]
        if j is None:
            rule.bad("pack|writer-loop", "the seed loop must enumerate the samples of the parameter's row as j", A.where(jac))
        else:
            # the free parameter's own gradient index, however it is named
            mg = txt(jac["body"]).fmatch("let$G=self.grad_index[$V];")
            g = mg["$G"] if mg else "self.grad_index[v]"
            want = ["cur[%s]" % g] + ["if(%s==%s){1.0}else{0.0}" % (lhs, g) for lhs in ("(%s*3)" % j, "((%s*3)+1)" % j, "((%s*3)+2)" % j)]
            alt = ["cur[self.grad_index[v]]"] + [w.replace(g, "self.grad_index[v]") for w in want[1:]]
            if a == want or a == alt:
                rule.ok("writer: free parameter gi seeds lane (gi mod 3) of sample (gi div 3) with 1", file=SOL, line=calls[0]["ln"])
                rule.ok("writer: j enumerates the samples of the parameter's own row")
            else:
                rule.bad("pack|writer", "the unit seeds are %s; sample j must carry d/d(param 3j+k) in lane k, i.e. %s" % (a, want), A.where(jac, calls[0]))
    t = txt(A.value_view(jac["body"]))  # `let grads = &out[0]`, `let free_count = ..` read as what they name
    m = first(
        t,
        [
            "for$G in0..self.grad_index.len(){*jacobian.get_mut(($T,$G)).unwrap()=out[0][($G/3)].d(($G%3));}".replace(" ", ""),
            "for$G in0..self.grad_index.len(){jacobian[($T,$G)]=out[0][($G/3)].d(($G%3));}".replace(" ", ""),
        ],
    )
    if m is not None:
        rule.ok("reader: column gi of row ti is lane (gi mod 3) of sample (gi div 3) of output 0")
    else:
        rule.bad("pack|reader", "the Jacobian entry (ti, gi) must be out[0][gi / 3].d(gi % 3)", A.where(jac))
    mt = m
    if t.fmatch("result[$T]=out[0][0].v;", bind={"$T": mt["$T"]} if mt else None) is not None:
        rule.ok("the residual of equation ti is the value of output 0")
    else:
        rule.bad("pack|residual", "result[ti] must be out[0][0].v", A.where(jac))
    new = A.find_fn(SOL, "new", self_ty="Solver", root=root)
    t = txt(new["body"])
    if "grad_index.len().div_ceil(3)" in t:
        rule.ok("batch width = ceil(free parameters / 3)")
    else:
        rule.bad("pack|width", "each gradient row must hold ceil(free / 3) samples", A.where(new))
    ta = A.ftxt(A.adjacent_view(new["body"]))
    if any(x.fmatch("vars.len().max(grad_tapes.iter().map(|$T|$T.vars().len()).max().unwrap_or(0))") is not None or x.fmatch("grad_tapes.iter().fold(vars.len(),|$N,$T|$N.max($T.vars().len()))") is not None for x in (t, ta)):
        rule.ok("scratch rows cover both the parameter count and the widest tape")
    else:
        rule.bad("pack|rows", "the scratch must have max(parameters, widest tape) rows", A.where(new))
    # Grad::d lanes are checked in C05.R3; Grad::new argument order v, dx, dy, dz
    g = A.find_fn("fidget-core/src/types/grad.rs", "new", self_ty="Grad", root=root)
    st = list(A.find(g["body"], "Struct"))
    f = {x["name"]: str(txt(x["e"])) for x in st[0]["fields"]} if len(st) == 1 else {}
    params = [A.binding_name(i["pat"]) for i in g["sig"]["inputs"] if isinstance(i, dict) and "pat" in i]
    if params == ["v", "dx", "dy", "dz"] and f == {"v": "v", "dx": "dx", "dy": "dy", "dz": "dz"}:
        rule.ok("Grad::new(v, dx, dy, dz) stores its arguments under their own names")
    else:
        rule.bad("pack|grad-new", "Grad::new must store (v, dx, dy, dz) in that order", A.where(g))


def r3_exits(rule, root=None):
    solve = A.find_fn(SOL, "solve", root=root)
    loops = [l for l in A.find(solve["body"], "For") if txt(l["iter"]) == "0.."]
    if not loops:
        # the same unbounded iteration written as `loop` with its own counter
        loops = [l for l in A.find(solve["body"], "Loop") if any(c["method"] == "get_jacobian" for c in A.find(l["body"], "MethodCall")) and any(str(txt(s_)).startswith("solver.get_jacobian(") for s_ in l["body"]["stmts"])]
    if len(loops) != 1:
        rule.lost("the `for i in 0..` iteration loop in solve")
        return
    body = loops[0]["body"]["stmts"]
    seq = [txt(s) for s in body]

    def idx(pred):
        return next((i for i, s in enumerate(seq) if pred(s)), None)

    i_jac = idx(lambda s: s.startswith("solver.get_jacobian(&cur,&mutjacobian,&mutresult)"))
    i_exit = idx(lambda s: s.fmatch("ifresult.iter().all(|$V|(*$V==0.0)){break;}") is not None or s.fmatch("if!result.iter().any(|$V|(*$V!=0.0)){break;}") is not None)
    # the update: inline `cur[gi] -= step[gi]` or a same-file helper doing it (FragText follows helpers for bodies)
    upd_frags = ["($C[$G]-=step[$G])", "($C[$G]-=$S[$G])", "for($P,$D)incur.iter_mut().zip(step.iter()){let$Q=*$P;(*$P-=*$D);"]
    i_upd = idx(lambda s: any(A.ftxt({"k": "Block", "stmts": [body[seq.index(s)]], "ln": 0}).fmatch(f) is not None for f in upd_frags) or any(s.fmatch(f) is not None for f in upd_frags))
    if i_upd is None:
        # behind a helper call: find the statement whose callee's body does the update
        for i, st in enumerate(body):
            for c in list(A.find(st, "Call")) + list(A.find(st, "MethodCall")):
                name = (A.path_segs(c["func"]) or [None])[-1] if c.get("k") == "Call" else c["method"]
                callee = A._same_file_fn(solve, name) if name else None
                if callee is not None and any(txt(callee["body"]).fmatch(f) is not None for f in upd_frags):
                    i_upd = i
    if i_jac is not None and i_exit is not None and i_upd is not None and i_jac < i_exit < i_upd:
        rule.ok("an all-zero residual ends the iteration before anything is changed", file=SOL, line=body[i_exit]["ln"])
    else:
        rule.bad("exit|zero", "solve must evaluate the residuals, break when all are exactly zero, and only afterwards touch `cur`", A.where(solve, loops[0]))
    t = txt(solve["body"])
    # no free parameters: nothing to evaluate (zero-width gradient batch)
    i_loop = next(i for i, s in enumerate(solve["body"]["stmts"]) if A.strip(A.stmt_expr(s) or {}) is loops[0])
    pre = [txt(s) for s in solve["body"]["stmts"][:i_loop]]
    guard = [s for s in pre if s.startswith("ifcur.is_empty(){returnOk(HashMap::new());}") or s.startswith("ifsolver.grad_index.is_empty(){returnOk(HashMap::new());}")]
    if guard and str(guard[0]).startswith("ifcur.is_empty()"):
        # `cur` is empty exactly when nothing is free only if it has one entry per free parameter
        try:
            view = A.inline_helpers(solve)
        except Exception:  # noqa: BLE001
            view = solve["body"]
        macs = [m_ for m_ in A.find(view, "Macro") if m_.get("name") == "vec" and ";" in A.tokens_str(m_["tokens"])]
        lens = [A.tokens_str(m_["tokens"]).replace(" ", "").split(";")[-1] for m_ in macs]
        lens = [re.sub(r"^\(?&?(solver\.)?grad_index\)?\.len\(\)$", "solver.grad_index.len()", l_) for l_ in lens]
        if "solver.grad_index.len()" not in lens:
            guard = []
            rule.bad("exit|nofree|len", "`cur` has %s entries, so `cur.is_empty()` no longer means \"no free parameter\": with every parameter Fixed the zero-width gradient batch is read" % (lens[-1] if lens else "an unknown number of"), A.where(solve))
    new = A.find_fn(SOL, "new", self_ty="Solver", root=root)
    wide = ".div_ceil(3).max(1)" in txt(new["body"])
    if guard or wide:
        rule.ok("with no free parameter the zero-width gradient batch is never read")
    else:
        rule.bad("exit|nofree", "with every parameter Fixed the gradient batch has width 0 and get_jacobian reads out[0][0]: solve must return early (or the batch must be at least one wide)", A.where(solve))
    m = first(
        t,
        [
            "letmut$C=false;for$G in0..solver.grad_index.len(){let$P=cur[$G];(cur[$G]-=step[$G]);($C|=($P!=cur[$G]));}".replace(" ", ""),
            "letmut$C=false;for$G in0..cur.len(){let$P=cur[$G];(cur[$G]-=step[$G]);($C|=($P!=cur[$G]));}".replace(" ", ""),
            "letmut$C=false;for$G in0..solver.grad_index.len(){let$P=cur[$G];(cur[$G]-=step[$G]);if($P!=cur[$G]){$C=true;}}".replace(" ", ""),
            "letmut$C=false;for$G in0..cur.len(){let$P=cur[$G];(cur[$G]-=step[$G]);if($P!=cur[$G]){$C=true;}}".replace(" ", ""),
        ],
    )
    if m is None:
        # an assertion or a comment between the flag and the loop changes nothing: match the loop, then the flag
        for bound in ("solver.grad_index.len()", "cur.len()"):
            for upd in ("($C|=($P!=cur[$G]));", "if($P!=cur[$G]){$C=true;}", "($C=($C||($P!=cur[$G])));"):
                ml = t.fmatch(("for$G in0..%s{let$P=cur[$G];(cur[$G]-=step[$G]);%s}" % (bound, upd)).replace(" ", ""))
                if ml is not None and t.fmatch("letmut$C=false;", bind={"$C": ml["$C"]}) is not None:
                    m = ml
    if m is None:
        # the same update walking `cur` and `step` in lock step
        mz = t.fmatch("for($P,$D)incur.iter_mut().zip(step.iter()){let$Q=*$P;(*$P-=*$D);($C|=($Q!=*$P));}")
        if mz is not None and t.fmatch("letmut$C=false;", bind={"$C": mz["$C"]}) is not None:
            m = mz
    if m is not None:
        rule.ok("the step is applied to every free parameter and `changed` compares old with new")
    else:
        rule.bad("update", "every free parameter must be updated by its own step component and `changed` computed from old vs new", A.where(solve))
    if t.fmatch("let$E=solver.get_err(&cur,$D.as_slice());") is not None and t.fmatch("break($E,$D);") is not None:
        rule.ok("the accepted step is the one whose error was evaluated")
    else:
        rule.bad("step", "the step taken must be the delta whose error was accepted", A.where(solve))
    if "nalgebra::DMatrix::repeat(tapes.len(),cur.len(),0f32)" in t and "nalgebra::DVector::repeat(tapes.len(),0f32)" in t:
        rule.ok("Jacobian is (equations x free parameters); residual has one entry per equation")
    else:
        rule.bad("shapes", "the Jacobian must be equations x free parameters and the residual one per equation", A.where(solve))


def r4_lm_step(rule, root=None):
    """the Levenberg-Marquardt step: with Jacobian J and residual r the step solves (J^T J + damping D) delta = J^T r
    (D = diag(J^T J) or the identity) and is *subtracted*; damping grows when the trial error rose and shrinks when
    the step is accepted.  The lets of `solve` are interpreted on symbolic 2 x 2 matrices (fv/qef.py's nalgebra model)."""
    import sympy as sp

    from .. import qef as QF

    solve = A.find_fn(SOL, "solve", root=root)
    J = sp.Matrix(2, 2, lambda i, j: sp.Symbol("J%d%d" % (i, j), real=True))
    r = sp.Matrix([sp.Symbol("r0", real=True), sp.Symbol("r1", real=True)])
    lam = sp.Symbol("damping", positive=True)
    it = QF.MInterp({"jacobian": J, "result": r, "damping": lam, "#n": 2})
    solves = []
    for s in A.find(solve["body"], "Let"):
        if s.get("init") is None or A.binding_name(s["pat"]) in ("jacobian", "result", "damping"):
            continue  # the working arrays and the damping stay the symbols they were given
        try:
            it.solve_args = None
            it.svd_of = None
            v = it.ev(s["init"])
            if it.solve_args is not None:
                solves.append((it.svd_of, it.solve_args[0], s))
        except (QF.Stop, Exception):  # noqa: BLE001
            v = QF.Opaque("not modelled")
        try:
            it.bind(s["pat"], v)
        except Exception:  # noqa: BLE001
            pass
    if not solves:
        rule.skip("solve: the linear system of the step", "no `<matrix>.svd(..).solve(rhs, eps)` reached by the let interpreter", count=True)
    else:
        lhs, rhs, node = solves[0]
        JtJ, Jtr = J.T * J, J.T * r
        ok_l = isinstance(lhs, sp.MatrixBase) and (QF._zero(lhs - (JtJ + lam * sp.diag(JtJ[0, 0], JtJ[1, 1]))) or QF._zero(lhs - (JtJ + lam * sp.eye(2))))
        if ok_l:
            rule.ok("the step's matrix is J^T J + damping * D", file=SOL, line=node["ln"])
        else:
            rule.bad("lm|matrix", "the step solves with `%s`; Levenberg-Marquardt needs J^T J + damping * diag(J^T J)" % (sp.simplify(lhs) if isinstance(lhs, sp.MatrixBase) else lhs,), A.where(SOL, node))
        if isinstance(rhs, sp.MatrixBase) and QF._zero(rhs - Jtr):
            rule.ok("the step's right-hand side is J^T r (and the step is subtracted: C19.R3)", file=SOL, line=node["ln"])
        else:
            rule.bad("lm|rhs", "the step's right-hand side is `%s`; it must be J^T r, the gradient of the squared residual" % (sp.simplify(rhs).T if isinstance(rhs, sp.MatrixBase) else rhs,), A.where(SOL, node))
    # damping schedule
    ifs = []
    named = {A.binding_name(l0["pat"]): A.strip(l0["init"]) for l0 in A.find(solve["body"], "Let") if l0.get("init") is not None and A.binding_name(l0["pat"]) and not l0["pat"].get("mut")}
    for n in A.find(solve["body"], "If"):
        c = A.strip(n["cond"])
        inv = False
        for _k in range(3):
            if c.get("k") == "Unary" and c.get("op") == "!":
                inv = not inv
                c = A.strip(c["e"])
            elif c.get("k") == "Path" and A.ident(c) in named:
                c = named[A.ident(c)]  # a test that was given a name (`let worse = err > prev_err;`)
        if c.get("k") == "Binary" and c.get("op") in (">", "<", ">=", "<="):
            l_, r_ = txt(c["left"]), txt(c["right"])
            if {l_, r_} == {"err", "prev_err"}:
                ifs.append((n, c, l_, r_, inv))
    if not ifs:
        rule.skip("solve: damping schedule", "no comparison of the trial error with the previous error found", count=True)
        return
    n, c, l_, r_, inv = ifs[0]
    rose_then = ((c["op"] in (">", ">=") and l_ == "err") or (c["op"] in ("<", "<=") and l_ == "prev_err")) != inv
    rose, accepted = (n["then"], n.get("else")) if rose_then else (n.get("else"), n["then"])
    if (accepted is None or rose is None):
        # `if worse { ..; continue; }` followed by the accepted case (or the mirror image): the rest of the enclosing
        # block is the other branch
        present = rose if accepted is None else accepted
        if present is not None and (list(A.find(present, "Continue")) or list(A.find(present, "Break"))):
            for blk in A.find(solve["body"], "Block"):
                ss = blk.get("stmts") or []
                for i_, st in enumerate(ss):
                    e_ = A.strip(st.get("e", st)) if st.get("k") == "ExprStmt" else st
                    if e_ is n:
                        rest = {"k": "Block", "stmts": ss[i_ + 1:], "ln": n["ln"]}
                        if accepted is None:
                            accepted = rest
                        else:
                            rose = rest

    def factor(block):
        """net factor applied to `damping` in a block (None: not a pure scaling)"""
        if block is None:
            return None
        f = None
        for b in A.find(block, "Binary"):
            if b.get("op") in ("*=", "/=") and txt(b["left"]) == "damping":
                v = A.lit_value(A.strip(b["right"]))
                if v is None:
                    return None
                f = (f or 1.0) * (float(v) if b["op"] == "*=" else 1.0 / float(v))
        for a_ in A.find(block, "Assign"):
            if txt(a_["left"]) != "damping":
                continue
            r_ = A.strip(a_["right"])
            if r_.get("k") == "Binary" and r_["op"] in ("*", "/"):
                l2, r2 = A.strip(r_["left"]), A.strip(r_["right"])
                if txt(l2) == "damping" and A.lit_value(r2) is not None:
                    f = (f or 1.0) * (float(A.lit_value(r2)) if r_["op"] == "*" else 1.0 / float(A.lit_value(r2)))
                    continue
                if r_["op"] == "*" and txt(r2) == "damping" and A.lit_value(l2) is not None:
                    f = (f or 1.0) * float(A.lit_value(l2))
                    continue
            return None
        return f

    fr, fa = factor(rose), factor(accepted)
    if fr is None or fr <= 1.0:
        rule.bad("lm|damping|rose", "when the trial error rose the damping must grow (smaller, more gradient-like steps); here it is scaled by %s" % fr, A.where(SOL, n))
    else:
        rule.ok("a worse trial step raises the damping (x %.3g) and retries" % fr, file=SOL, line=n["ln"])
    brk = list(A.find(accepted, "Break")) if accepted is not None else []
    if fa is None or fa >= 1.0 or not brk:
        rule.bad("lm|damping|accepted", "an accepted step must lower the damping and leave the retry loop with that step; here damping is scaled by %s%s" % (fa, "" if brk else " and the loop is not left"), A.where(SOL, n))
    else:
        rule.ok("an accepted step lowers the damping (x %.3g) and is the one taken" % fa, file=SOL, line=n["ln"])
    if list(A.find(rose, "Break")) if rose is not None else False:
        rule.bad("lm|damping|leave", "the retry loop is left although the trial error rose", A.where(SOL, n))


def r5_every_equation(rule, root=None):
    """the Jacobian row and the residual of *every* equation are recomputed in every iteration, and the trial error sums
    over every equation: the loops over the tapes have no early exit"""
    for name, what in (("get_jacobian", "self.grad_tapes"), ("get_err", "self.point_tapes")):
        fn = A.find_fn(SOL, name, self_ty="Solver", root=root)
        loops = [f for f in A.find(fn["body"], "For") if what in txt(f["iter"])]
        if not loops:
            loops = [c for c in A.find(fn["body"], "MethodCall") if c["method"] in ("for_each", "map", "fold") and what in txt(c["recv"])]
        if not loops:
            rule.lost("the loop over %s in Solver::%s" % (what, name))
            continue
        lp = loops[0]
        body = lp.get("body") or lp
        # exits that belong to an inner loop are fine
        bad = []
        for b in list(A.find(body, "Break")) + list(A.find(body, "Return")):
            inner = [f for f in A.find(body, None, lambda q: q.get("k") in ("For", "While", "Loop")) if any(n is b for n in A.walk(f))]
            if b.get("k") == "Return" or not inner:
                bad.append(b)
        if bad:
            rule.bad("%s|exit" % name, "Solver::%s leaves its loop over the equations early (`%s` under `%s`): the equations after that one keep stale rows / residuals, so they no longer constrain the solution" % (name, A.unparse(bad[0])[:30], " && ".join(A.enclosing_conds(fn["body"], bad[0]) or [])[:80]), A.where(SOL, bad[0]))
        else:
            rule.ok("Solver::%s visits every equation" % name, file=SOL, line=lp.get("ln", fn["ln"]))


def r_rows_rewritten_per_equation(rule, root=None):
    """the scratch rows that feed the evaluators are shared by all equations, and each equation numbers its variables
    in its own way: before an equation is evaluated, the row of *every* parameter it uses is rewritten - free ones with
    their seeds, fixed ones with their value - with no "already seeded" shortcut carried over from the previous equation"""
    for name in ("get_jacobian", "get_err"):
        fn = A.find_fn(SOL, name, self_ty="Solver", root=root)
        ms = [m for m in A.find(fn["body"], "Match") if any("Parameter::Free" in A.unparse(a["pat"]) for a in m["arms"])]
        if not ms:
            rule.skip("Solver::%s" % name, "no match over Parameter::{Free, Fixed}", count=True)
            continue
        bad = None
        for arm in ms[0]["arms"]:
            for n in A.walk(arm["body"]):
                if isinstance(n, dict) and n.get("k") in ("Continue", "Return", "Break"):
                    bad = (arm, n)
        if bad:
            arm, n = bad
            rule.bad("%s|skip-row" % name, "Solver::%s can leave the `%s` arm without writing the parameter's row (`%s` under `%s`): the row then keeps what the previous equation - whose variable numbering differs - left there" % (name, A.unparse(arm["pat"])[:30], A.unparse(n)[:12], " && ".join(A.enclosing_conds(arm["body"], n) or [])[:70]), A.where(SOL, n))
        else:
            rule.ok("Solver::%s rewrites the row of every parameter an equation uses" % name, file=SOL, line=ms[0]["ln"])



def _float_lit(e):
    v = A.lit_value(A.strip(e))
    try:
        return float(v) if v is not None else None
    except (TypeError, ValueError):
        return None


def r6_damping_and_threshold(rule, root=None):
    """the damping factor is *relative* (it multiplies diag(J^T J)), so its schedule is scale-free: a constant start
    and constant grow / shrink factors - rescaling it by a property of the problem applies the problem's scale twice
    (a system multiplied by 1e4 then barely moves).  The convergence test on the error is absolute: a threshold
    scaled by run-time state (the starting error) stops early when the start is far away."""
    fn = A.find_fn(SOL, "solve", root=root)
    view = fn["body"]
    lets = [l for l in A.find(view, "Let") if A.binding_name(l["pat"]) == "damping" and l.get("init") is not None]
    if len(lets) != 1:
        rule.lost("`let mut damping = ..` in solve()")
        return
    v0 = _float_lit(lets[0]["init"])
    if v0 is not None and v0 > 0:
        rule.ok("damping starts at the constant %s" % v0, file=SOL, line=lets[0]["ln"])
    else:
        rule.bad("damping|init", "the damping factor must start at a positive constant; found `%s`" % str(A.ftxt(lets[0]["init"]))[:60], A.where(SOL, lets[0]))
    writes = []
    for b in A.find(view, "Binary"):
        if b["op"] in ("*=", "/=", "+=", "-=") and A.ident(A.strip(b["left"])) == "damping":
            writes.append(b)
    for a_ in A.find(view, "Assign"):
        if A.ident(A.strip(a_["left"])) == "damping":
            writes.append(a_)
    nconst = 0

    def scale_free(e):
        """an expression over `damping`, literals and f32 constants only"""
        for n_ in A.walk(e):
            if n_.get("k") == "Path":
                segs = n_["segs"]
                if segs == ["damping"] or segs[0] in ("f32", "f64", "std", "core"):
                    continue
                return False
            if n_.get("k") in ("Field", "Index", "Macro", "Closure"):
                return False
            if n_.get("k") == "MethodCall" and n_["method"] not in ("min", "max", "clamp", "powi", "sqrt", "recip"):
                return False
            if n_.get("k") == "Call":
                return False
        return True

    for w in writes:
        rhs = _float_lit(w["right"])
        if w.get("k") == "Binary" and w["op"] in ("*=", "/=") and rhs is not None and rhs > 0:
            nconst += 1
            continue
        if scale_free(w["right"]) and (w.get("k") != "Binary" or w["op"] in ("*=", "/=")):
            nconst += 1  # `damping = damping * 1.5`, a clamp to a constant ..
            continue
        rule.bad("damping|write", "the damping factor is rewritten by `%s`: its schedule must consist of constant factors only (it multiplies diag(J^T J), which already carries the scale of the problem)" % str(A.ftxt(w))[:80], A.where(SOL, w))
    if nconst >= 2:
        rule.ok("damping changes only by constant factors (%d writes)" % nconst, file=SOL, line=fn["ln"])
    elif not any(v_["key"].startswith("%s|damping|write" % rule.id) for v_ in rule.violations):
        rule.lost("the grow / shrink updates of damping")
    # the singular-value cutoff of the step's pseudo-inverse: an absolute threshold on the damped normal matrix, whose
    # entries scale with the square of the equations' coefficients - anything above machine epsilon zeroes the step of
    # a mildly scaled system (coefficients ~ 1e-3) and the solver returns its start
    cuts = [c for c in A.find(view, "MethodCall") if c["method"] == "solve" and len(c["args"]) == 2 and "svd" in str(A.ftxt(c["recv"]))]
    if len(cuts) != 1:
        rule.lost("`.svd(..).solve(&jt_r, eps)` in solve()")
    else:
        e_ = A.strip(cuts[0]["args"][1])
        val = _float_lit(e_)
        tx = str(A.ftxt(e_))
        if val is None and A.ident(e_):
            for it in A.load(SOL, root).get("items", []):
                if it.get("k") in ("Const", "Static") and it.get("name") == A.ident(e_) and it.get("e") is not None:
                    val = _float_lit(it["e"])
                    tx = str(A.ftxt(it["e"]))
            for l_ in A.find(view, "Let"):
                if A.binding_name(l_["pat"]) == A.ident(e_) and l_.get("init") is not None:
                    val = _float_lit(l_["init"])
                    tx = str(A.ftxt(l_["init"]))
        if tx in ("f32::EPSILON", "std::f32::EPSILON", "core::f32::EPSILON") or (val is not None and 0 <= val <= 1.1920929e-07 * 1.0001):
            rule.ok("the pseudo-inverse drops singular values only below machine epsilon (%s)" % tx, file=SOL, line=cuts[0]["ln"])
        else:
            rule.bad("lm|svd-cutoff", "the step's pseudo-inverse treats singular values below `%s` as zero; the cutoff is absolute, so it must not exceed f32::EPSILON - a larger one zeroes the whole step of a consistent system with small coefficients" % tx, A.where(SOL, cuts[0]))
    # thresholds on the error
    n = 0
    for b in A.find(view, "Binary"):
        if b["op"] not in ("==", "!=", "<=", "<", ">=", ">"):
            continue
        l_, r_ = A.strip(b["left"]), A.strip(b["right"])
        names = (A.ident(l_), A.ident(r_))
        if "err" not in names:
            continue
        other = r_ if names[0] == "err" else l_
        if A.ident(other) == "prev_err":
            continue  # the accept / reject test of a trial step
        val = _float_lit(other)
        # does this comparison decide an exit?
        breaking = [i_ for i_ in A.find(view, "If") if "break" in str(A.ftxt(i_["then"]))]
        conds_break = any(any(n_ is b for n_ in A.walk(i_["cond"])) for i_ in breaking)
        if not conds_break:
            # `let solved = err == 0.0; .. if stalled || solved || .. { break }`
            for l_ in A.find(view, "Let"):
                nm_ = A.binding_name(l_["pat"])
                if nm_ and l_.get("init") is not None and any(n_ is b for n_ in A.walk(l_["init"])):
                    conds_break = any(re.search(r"(?<![\w.])%s(?![\w(])" % re.escape(nm_), str(A.ftxt(i_["cond"]))) for i_ in breaking)
        if not conds_break:
            continue
        n += 1
        if val is not None and 0 <= val <= 1e-6:
            rule.ok("the loop ends on the error only against the constant %s" % val, file=SOL, line=b["ln"])
        else:
            rule.bad("exit|threshold", "the loop ends when `%s`: a convergence threshold on the error must be an absolute constant (zero); one scaled by run-time state stops early for a distant start" % str(A.ftxt(b))[:70], A.where(SOL, b))
    if n == 0:
        rule.lost("the exit test on `err` in solve()")

def run(ctx):
    r = ctx.rule("R1", "only free parameters get a gradient slot and a result; fixed ones are constants at their value", 7)
    ctx.guarded(r, r1_free_fixed)
    r = ctx.rule("R2", "three-per-sample packing: writer lanes, reader lanes and batch width agree", 7)
    ctx.guarded(r, r2_packing)
    r = ctx.rule("R3", "exits and updates: zero residual ends before any change; no free parameter never reads an empty batch", 5)
    ctx.guarded(r, r3_exits)
    r = ctx.rule("R4", "Levenberg-Marquardt step: (J^T J + damping D) delta = J^T r on symbolic matrices; damping grows on a worse trial and shrinks on an accepted one", 4)
    ctx.guarded(r, r4_lm_step)
    r = ctx.rule("R5", "every equation is evaluated in every iteration: the loops over the tapes have no early exit, and each equation rewrites the rows of all its parameters", 4)
    ctx.guarded(r, r5_every_equation)
    ctx.guarded(r, r_rows_rewritten_per_equation)
    r = ctx.rule("R6", "the damping schedule is scale-free (constant start, constant factors) and the convergence threshold on the error is an absolute constant; the pseudo-inverse cutoff is machine epsilon", 4)
    ctx.guarded(r, r6_damping_and_threshold)
    # this property quantifies over every shape and both backends, so it needs the evaluators it consults to be right
    ctx.include('C05', "the Jacobian is the gradient evaluators' output", skip=())
    ctx.include('C14', 'parameters are bound to the equations by identity', only=('R5',))
