"""C02 - JIT agrees with the interpreter (structural part)."""
from .. import ast as A
from .. import jit as J
from .. import asmchecks as AC
from .. import asmcopy as AK
from .. import jitdriver as JD

from .. import a64 as X64
from .. import a64checks as XC

def run(ctx):
    r = ctx.rule("R1", "RegOp -> assembler dispatch calls the namesake builder with operands in form order", 54 + 2)
    ctx.guarded(r, J.r1_dispatch)
    r = ctx.rule("R3", "extern callbacks compute their builder's namesake with arguments in order", 40)
    ctx.guarded(r, J.r3_callbacks)
    r = ctx.rule("R3b", "every assembler implements the full builder set", 8)
    ctx.guarded(r, J.builder_sets)
    r = ctx.rule("R2a", "x86_64 builders write only their output register, xmm0-3 and scratch GPRs", 4 * 26)
    for kind in AC.ALL:
        ctx.guarded(r, AC.check_write_discipline, kind)
    r = ctx.rule("R2b", "no path reads an input after the output (alias) or a may-be-immediate operand after xmm0 is clobbered", 4 * 27)
    for kind in AC.ALL:
        ctx.guarded(r, AC.check_hazards, kind)
    r = ctx.rule("R2g", "local labels are defined once, referenced in range and committed", 21)
    for kind in AC.ALL:
        ctx.guarded(r, AC.check_labels, kind)
    r = ctx.rule("R2e", "call helpers restore every live register and pointer, marshal operand lanes in and result lanes out", 8)
    for kind in AC.ALL:
        for n in ("call_fn_unary", "call_fn_binary"):
            ctx.guarded(r, AK.check_call_helper, kind, n)
    r = ctx.rule("R2f", "call area / rbp slots stay inside the reserved frame; spill offsets based at STACK_SIZE_LOWER", 4)
    for kind in AC.ALL:
        ctx.guarded(r, AK.check_frame, kind)
    r = ctx.rule("R2fd", "run-time displacements (spill slots, input / output elements) are added to their base register, never subtracted", 16)
    for kind in AC.ALL:
        ctx.guarded(r, AC.check_disp_sign, kind)
    r = ctx.rule("R2h", "integer compares appear only as the all-ones idiom (float data is compared as float)", 23)
    for kind in AC.ALL:
        ctx.guarded(r, AC.check_int_compare, kind)
    r = ctx.rule("R2i", "sibling assemblers agree on the magic constants of each opcode", 5)
    ctx.guarded(r, AC.check_magic_constants)
    r = ctx.rule("R4", "bulk driver: scratch iff n < SIMD, main call over the largest multiple, remainder re-evaluates the last full vector with equal input/output offsets, exactly n samples returned", 11)
    ctx.guarded(r, JD.r_bulk_driver)
    from . import C10 as C10_

    r = ctx.rule("R4b", "every evaluator entry point sizes its outputs from the tape on every path (an empty batch included)", 19)
    ctx.guarded(r, C10_.r1_buffers)
    r = ctx.rule("R2c", "stride, element-size, register-window and frame constants agree with the data types", 19)
    ctx.guarded(r, JD.r_strides)
    ctx.guarded(r, JD.r_narrow_displacements)
    r = ctx.rule("R2k", "load_imm loads its argument on every path (or every clobber of the immediate register invalidates its cache)", 4)
    for kind in AC.ALL:
        ctx.guarded(r, AC.check_load_imm, kind)
    r = ctx.rule("R2l", "native interval products / quotients skip NaN corners exactly like the interpreter's min / max folds", 2)
    ctx.guarded(r, AC.check_corner_reduction, "interval")
    r = ctx.rule("R2m", "a clause that calls out on a conditional path backs up the callee-saved registers before its first instruction", 5)
    for kind in AC.ALL:
        ctx.guarded(r, AC.check_callee_save_dominates, kind)
    r = ctx.rule("R2j", "single-instruction builders use their opcode's instruction family, operand order and data width", 41)
    for kind in AC.ALL:
        ctx.guarded(r, AC.check_simple_builders, kind)
    # the aarch64 assemblers: this host never compiles them, so a change there passes the suite by construction
    r = ctx.rule("R5a", "aarch64 builders write only their output register, scratch v0-2 / v4-7 and scratch GPRs; loads and stores only where their clause may", 103)
    for kind in X64.KINDS:
        ctx.guarded(r, XC.check_write_discipline, kind)
    r = ctx.rule("R5b", "aarch64: no path reads an input after the output (alias), a may-be-immediate operand after v3 is clobbered, or an unwritten lane of the output", 107)
    for kind in X64.KINDS:
        ctx.guarded(r, XC.check_hazards, kind)
    r = ctx.rule("R5c", "aarch64: relative branches land on an instruction of their own clause and leave nothing unreachable", 21)
    for kind in X64.KINDS:
        ctx.guarded(r, XC.check_branches, kind)
    r = ctx.rule("R5d", "aarch64 call helpers (symbolic lanes, every operand placement): results in lane order, tape registers and x0-x3 restored", 8)
    for kind in X64.KINDS:
        ctx.guarded(r, XC.check_call_helpers, kind)
    r = ctx.rule("R5e", "aarch64 frame: x19-x30, d8-d15 and sp hold their entry values at `ret` (prologue / helper / epilogue, both frame sizes)", 4)
    for kind in X64.KINDS:
        ctx.guarded(r, XC.check_frame, kind)
    r = ctx.rule("R5f", "aarch64 single-instruction builders use their opcode's instruction, operand order and data width", 42)
    for kind in X64.KINDS:
        ctx.guarded(r, XC.check_simple_builders, kind)
    r = ctx.rule("R5g", "aarch64 strides, register window and loop constants agree with the data types; hash constants agree with the x86_64 siblings", 27)
    ctx.guarded(r, XC.check_strides)
    ctx.guarded(r, XC.check_constants)
    r = ctx.rule("R5h", "aarch64 extern callbacks compute their builder's namesake with arguments in order", 43)
    ctx.guarded(r, lambda rule, root=None: J.r3_callbacks(rule, root=root, files=J.A64, abi="C"))
    from .. import a64sem as XS

    r = ctx.rule("R5i", "aarch64 branch-free arithmetic clauses leave op(lhs, rhs) in every lane of the output (symbolic lanes, output aliased to either operand)", 10 + 8 + 12 + 9)
    for kind in X64.KINDS:
        ctx.guarded(r, XS.check_lane_semantics, kind)
    r = ctx.rule("R5j", "aarch64: four-lane evaluators use 128-bit arrangements only; load_imm drops no bit of the constant on any path; fixed stack slots end below STACK_SIZE", 49 + 12 + 4)
    for kind in X64.KINDS:
        ctx.guarded(r, XC.check_full_width, kind)
        ctx.guarded(r, XC.check_load_imm, kind)
        ctx.guarded(r, XC.check_fixed_area, kind)
    r = ctx.rule("R5k", "aarch64 single-point / interval min and max branch only on conditions that are false for NaN and for equal operands (the value then comes from fmin / fmax, which propagate NaN like the interpreter)", 8)
    ctx.guarded(r, XC.check_strictness)
    from .. import x86sem as XS86

    r = ctx.rule("R2o", "x86_64 branch-free arithmetic clauses leave op(lhs, rhs) in every lane of the output (symbolic lanes and bit masks, output aliased to either operand)", 10 + 12 + 4 + 9)
    for kind in AC.ALL:
        ctx.guarded(r, XS86.check_lane_semantics, kind)
    r = ctx.rule("R5l", "aarch64 clauses compare tape values as floats (an integer cmeq tells -0.0 from 0.0, unlike the interpreter)", 9 + 16 + 7 + 7)
    for kind in X64.KINDS:
        ctx.guarded(r, XC.check_int_compare, kind)
    r = ctx.rule("R5m", "aarch64 compare / not / and / or: the compare masks and bitwise selects give the opcode's value in every lane (symbolic masks, all consistent truth assignments)", 12)
    for kind in X64.KINDS:
        ctx.guarded(r, XS.check_mask_logic, kind)
    r = ctx.rule("R2p", "x86_64 branch-free compare / not / and / or: compare masks and bitwise selects give the opcode's value in every lane (symbolic masks)", 8)
    for kind in AC.ALL:
        ctx.guarded(r, XS86.check_mask_logic, kind)
    from .. import x86pw as PW86

    r = ctx.rule("R2q", "x86_64 single-point min / max / and / or / compare: on every order type of the operands exactly one path is selected and leaves the interpreter's value (path summaries; output aliased, shared and immediate operands)", 5)
    ctx.guarded(r, PW86.check_piecewise, "point", choices=False)
    from .. import hashsem as HS

    r = ctx.rule("R2r", "rand / mix: every native single-point and float-slice implementation (x86_64 and aarch64) computes, as a term over its input bit patterns, the hash of fidget_core::rng", 8)
    for arch in ("x86_64", "aarch64"):
        for kind in ("point", "float_slice"):
            ctx.guarded(r, HS.check_hash_terms, arch, kind)
    # the native evaluators run 12-register tapes, the interpreter's default has 255: the allocator arms that spill
    # and reload are what a JIT tape exercises and an interpreter tape almost never does
    from .. import allocproto as AP_

    r = ctx.rule("R6", "register allocation under pressure: every allocator arm pushes its op with the operands in their own positions and follows the load / store / bind protocol (the spill arms are reached by the 12-register native tapes)", 21)
    ctx.guarded(r, AP_.r4_protocol)
    # the property compares the native evaluators *with the interpreter*: a slip in one interpreter loop (C02j-3: the
    # single-point Store arm copying in Load's direction, reached once a tape spills) breaks the agreement just as well
    ctx.include('C01', 'the interpreter is the reference the native evaluators must agree with', only=('R3',))
