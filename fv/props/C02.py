"""C02 - JIT agrees with the interpreter (structural part)."""
from .. import ast as A
from .. import jit as J
from .. import asmchecks as AC
from .. import asmcopy as AK
from .. import jitdriver as JD


def run(ctx):
    r = ctx.rule("R1", "RegOp -> assembler dispatch calls the namesake builder with operands in form order", 54 + 2)
    ctx.guarded(r, J.r1_dispatch)
    r = ctx.rule("R3", "extern callbacks compute their builder's namesake with arguments in order", 40)
    ctx.guarded(r, J.r3_callbacks)
    r = ctx.rule("R3b", "every assembler implements the full builder set", 8)
    ctx.guarded(r, J.builder_sets)
    r = ctx.rule("R2a", "x86_64 builders write only their output register, xmm0-3 and scratch GPRs", 4 * 26)
    for kind in AC.ALL:
        ctx.guarded(r, AC.check_write_discipline, kind)
    r = ctx.rule("R2b", "no path reads an input after the output (alias) or a may-be-immediate operand after xmm0 is clobbered", 4 * 27)
    for kind in AC.ALL:
        ctx.guarded(r, AC.check_hazards, kind)
    r = ctx.rule("R2g", "local labels are defined once, referenced in range and committed", 21)
    for kind in AC.ALL:
        ctx.guarded(r, AC.check_labels, kind)
    r = ctx.rule("R2e", "call helpers restore every live register and pointer, marshal operand lanes in and result lanes out", 8)
    for kind in AC.ALL:
        for n in ("call_fn_unary", "call_fn_binary"):
            ctx.guarded(r, AK.check_call_helper, kind, n)
    r = ctx.rule("R2f", "call area / rbp slots stay inside the reserved frame; spill offsets based at STACK_SIZE_LOWER", 4)
    for kind in AC.ALL:
        ctx.guarded(r, AK.check_frame, kind)
    r = ctx.rule("R2h", "integer compares appear only as the all-ones idiom (float data is compared as float)", 23)
    for kind in AC.ALL:
        ctx.guarded(r, AC.check_int_compare, kind)
    r = ctx.rule("R2i", "sibling assemblers agree on the magic constants of each opcode", 5)
    ctx.guarded(r, AC.check_magic_constants)
    r = ctx.rule("R4", "bulk driver: scratch iff n < SIMD, main call over the largest multiple, remainder re-evaluates the last full vector with equal input/output offsets, exactly n samples returned", 11)
    ctx.guarded(r, JD.r_bulk_driver)
    from . import C10 as C10_

    r = ctx.rule("R4b", "every evaluator entry point sizes its outputs from the tape on every path (an empty batch included)", 19)
    ctx.guarded(r, C10_.r1_buffers)
    r = ctx.rule("R2c", "stride, element-size, register-window and frame constants agree with the data types", 19)
    ctx.guarded(r, JD.r_strides)
    ctx.guarded(r, JD.r_narrow_displacements)
    r = ctx.rule("R2k", "load_imm loads its argument on every path (or every clobber of the immediate register invalidates its cache)", 4)
    for kind in AC.ALL:
        ctx.guarded(r, AC.check_load_imm, kind)
    r = ctx.rule("R2l", "native interval products / quotients skip NaN corners exactly like the interpreter's min / max folds", 2)
    ctx.guarded(r, AC.check_corner_reduction, "interval")
    r = ctx.rule("R2m", "a clause that calls out on a conditional path backs up the callee-saved registers before its first instruction", 5)
    for kind in AC.ALL:
        ctx.guarded(r, AC.check_callee_save_dominates, kind)
    r = ctx.rule("R2j", "single-instruction builders use their opcode's instruction family, operand order and data width", 41)
    for kind in AC.ALL:
        ctx.guarded(r, AC.check_simple_builders, kind)
