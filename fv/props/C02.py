"""C02 - JIT agrees with the interpreter (structural part)."""
from .. import ast as A
from .. import jit as J


def run(ctx):
    r = ctx.rule("R1", "RegOp -> assembler dispatch calls the namesake builder with operands in form order", 54 + 2)
    ctx.guarded(r, J.r1_dispatch)
    r = ctx.rule("R3", "extern callbacks compute their builder's namesake with arguments in order", 40)
    ctx.guarded(r, J.r3_callbacks)
    r = ctx.rule("R3b", "every assembler implements the full builder set", 8)
    ctx.guarded(r, J.builder_sets)
