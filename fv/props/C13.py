"""C13 - remapping a tree's axes is substitution (structural part)."""
import sympy as sp

from .. import ast as A
from .. import opcodes as O
from .. import sym as S

CTX = "fidget-core/src/context/mod.rs"
TREE = "fidget-core/src/context/tree.rs"


def r1_who_constructs(rule, root=None):
    """TreeOp::RemapAffine is built only by Tree::remap_affine (which flattens) and
    TreeOp::RemapAxes only by Tree::remap_xyz - that is what keeps nested affine
    frames out of the importer"""
    want = {"RemapAffine": ("remap_affine", TREE), "RemapAxes": ("remap_xyz", TREE)}
    found = {"RemapAffine": [], "RemapAxes": []}
    for ent in A.index(root):
        path = ent.get("file")
        if not path or not path.endswith(".rs") or "/tests/" in path or "/benches/" in path or path.startswith("demos/web-editor"):
            continue
        try:
            d = A.load(path, root)
        except A.AnchorLost:
            continue
        for fn in d["_fns"]:
            if fn["_test"] or fn.get("body") is None:
                continue
            for s in A.find(fn["body"], "Struct"):
                segs = A.path_segs(s["path"])
                if len(segs) >= 2 and segs[-2] == "TreeOp" and segs[-1] in found:
                    found[segs[-1]].append((path, fn["name"], s))
    for v, (fname, fpath) in want.items():
        sites = found[v]
        bad = [(p, f, s) for (p, f, s) in sites if (p, f) != (fpath, fname)]
        if not sites:
            rule.lost("construction of TreeOp::%s in Tree::%s" % (v, fname))
        for p, f, s in bad:
            rule.bad("%s|%s::%s" % (v, p, f), "TreeOp::%s is constructed in %s::%s; only Tree::%s may build it (it flattens / owns the frame discipline)" % (v, p, f, fname), "%s:%s" % (p, s["ln"]))
        if sites and not bad:
            rule.ok("TreeOp::%s is constructed only in Tree::%s (%d site(s))" % (v, fname, len(sites)), file=fpath, line=sites[0][2]["ln"])


def r2_flatten(rule, root=None):
    fn = A.find_fn(TREE, "remap_affine", self_ty="Tree", root=root)
    ms = list(A.find(fn["body"], "Match"))
    ok = False
    if len(ms) == 1:
        for arm in ms[0]["arms"]:
            pt = A.ftxt(arm["pat"])
            if pt.startswith("TreeOp::RemapAffine{"):
                names = {f["name"]: A.binding_name(f["pat"]) for f in arm["pat"]["fields"]}
                st = A.strip(arm["body"])
                if st.get("k") == "Struct":
                    f = {x["name"]: A.ftxt(x["e"]) for x in st["fields"]}
                    inner = names.get("mat")
                    param = [A.binding_name(i["pat"]) for i in fn["sig"]["inputs"] if "pat" in i][0]
                    if f.get("target") == "%s.clone()" % names.get("target") and f.get("mat") == "(%s*%s)" % (inner, param):
                        ok = True
                    else:
                        rule.bad("flatten", "remap_affine flattens to `mat: %s`, target `%s`; the existing (inner) matrix must be applied after the new one: `%s * %s` on the inner target" % (f.get("mat"), f.get("target"), inner, param), A.where(fn, arm))
                        return
    if ok:
        rule.ok("remap_affine flattens onto the inner target with `existing * new`", file=TREE, line=fn["ln"])
    else:
        rule.bad("flatten|shape", "remap_affine no longer has a flattening arm for an already-affine tree", A.where(fn))
    # the non-affine arm wraps self
    t = A.ftxt(fn["body"])
    if "_=>TreeOp::RemapAffine{target:self.0.clone(),mat:mat}" in t:
        rule.ok("a non-affine tree is wrapped with the given matrix")
    else:
        rule.bad("wrap", "remap_affine must wrap a non-affine tree as RemapAffine { target: self, mat }", A.where(fn))
    fn = A.find_fn(TREE, "remap_xyz", self_ty="Tree", root=root)
    st = [s for s in A.find(fn["body"], "Struct")]
    f = {x["name"]: A.ftxt(x["e"]) for x in st[0]["fields"]} if st else {}
    if f == {"target": "self.0.clone()", "x": "x.0", "y": "y.0", "z": "z.0"}:
        rule.ok("remap_xyz stores (x, y, z) under their own names", file=TREE, line=fn["ln"])
    else:
        rule.bad("remap_xyz", "remap_xyz builds RemapAxes %s" % f, A.where(fn))


def _import(root=None):
    return A.find_fn(CTX, "import", self_ty="Context", root=root)


def r3_frames(rule, root=None):
    fn = _import(root)
    # every axes.push is followed (same block) by todo.push(Action::Pop) and then Down(target)
    blocks = [b for b in A.find(fn["body"], "Block")]
    n_push = 0
    for b in blocks:
        seq = [A.ftxt(s) for s in b["stmts"]]
        for i, t in enumerate(seq):
            for vec, pop in (("axes", "Action::Pop"), ("affine", "Action::PopAffine")):
                if t.startswith("%s.push(" % vec):
                    n_push += 1
                    rest = seq[i + 1:]
                    want = "todo.push(%s);" % pop
                    if want not in rest:
                        rule.bad("frames|%s|unpaired" % vec, "`%s` is not paired with `%s` in the same block: the frame would leak into sibling subtrees" % (t[:30], want), A.where(fn, b["stmts"][i]))
                        continue
                    # Down(target) must be pushed after the Pop (so that it runs before it)
                    outer = seq if "todo.push(Action::Down(target));" in seq else None
                    j = rest.index(want)
                    downs = [k for k, x in enumerate(rest) if x == "todo.push(Action::Down(target));"]
                    if downs and downs[0] < j:
                        rule.bad("frames|%s|order" % vec, "Action::Down(target) is pushed before %s: the frame would be popped before the target is imported" % pop, A.where(fn, b["stmts"][i]))
                    else:
                        rule.ok("%s.push paired with %s pushed before Down(target)" % (vec, pop), file=CTX, line=b["stmts"][i]["ln"])
    if n_push < 3:
        rule.lost("the three frame pushes in Context::import (found %d)" % n_push)
    t = A.ftxt(fn["body"])
    # RemapAffine arm: Down(target) after the if/else
    for arm in A.find(fn["body"], "Arm"):
        pt = A.ftxt(arm["pat"])
        if pt.startswith("TreeOp::RemapAffine{target:target"):
            seq = [A.ftxt(s) for s in A.stmts_of(arm["body"])]
            if seq and seq[-1] == "todo.push(Action::Down(target));":
                rule.ok("RemapAffine: the target is imported inside the pushed frame")
            else:
                rule.bad("frames|affine-target", "the RemapAffine arm must push Down(target) last", A.where(fn, arm))
    # the matrix may be deferred onto the affine stack only when the target is itself an affine remap
    defer = [i for i in A.find(fn["body"], "If") if any("affine.push(" in A.ftxt(s) for s in i["then"]["stmts"])]
    if len(defer) != 1:
        rule.lost("the `if matches!(target, RemapAffine)` deferral in Context::import")
    else:
        c = A.strip(defer[0]["cond"])
        vs = set()
        if c.get("k") == "Macro" and c["name"] == "matches" and c.get("pat") is not None:
            for p in A.flatten_or(c["pat"]):
                segs, _ = A.pat_variant(p)
                vs.add(segs[-1] if segs else "?")
        scr = A.ftxt(c.get("expr")) if c.get("k") == "Macro" else ""
        if vs == {"RemapAffine"} and scr == "&**target" and not c.get("guard"):
            rule.ok("a pending matrix is deferred only onto a directly nested affine remap", file=CTX, line=defer[0]["ln"])
        else:
            rule.bad("frames|defer", "the pending affine matrix is deferred when the target matches %s; only a directly nested RemapAffine composes with it - any other node must see the matrix as a frame first" % sorted(vs), A.where(fn, defer[0]))
    if "Action::Pop=>{axes.pop().unwrap();}" in t and "Action::PopAffine=>{affine.pop().unwrap();}" in t:
        rule.ok("Pop / PopAffine pop their own stacks")
    else:
        rule.bad("frames|pop", "Action::Pop must pop `axes` and Action::PopAffine must pop `affine`", A.where(fn))
    if "letmutaxes=vec!((self.x(),self.y(),self.z()));" in t:
        rule.ok("the root frame is (x, y, z)")
    else:
        rule.bad("frames|root", "the importer's root frame must be (self.x(), self.y(), self.z())", A.where(fn))


def r4_cache_keys(rule, root=None):
    fn = _import(root)
    key = "(*axes.last().unwrap(),Arc::as_ptr(t))"
    n = 0
    for c in A.find(fn["body"], "MethodCall"):
        if A.ident(A.strip(c["recv"])) == "seen" and c["method"] in ("get", "insert", "entry", "contains_key"):
            k = A.ftxt(A.strip(c["args"][0])).lstrip("&")
            n += 1
            if k == key:
                rule.ok("seen.%s keyed by (current frame, node pointer)" % c["method"], file=CTX, line=c["ln"])
            else:
                rule.bad("cache|%s|%d" % (c["method"], n), "the import cache is accessed with key `%s`; a subtree's import depends on the frame it is under, so the key must be %s" % (k, key), A.where(fn, c))
    if n < 3:
        rule.lost("cache accesses in Context::import (found %d)" % n)
    # cached results are only reused for Unary / Binary nodes (whose value is a function of the frame)
    t = A.ftxt(fn["body"])
    if t.count("matches!(t.as_ref(),TreeOp::Unary(..) | TreeOp::Binary(..))") + t.count("matches!(t.as_ref(),TreeOp::Unary(..)|TreeOp::Binary(..))") >= 2:
        rule.ok("cache lookups and inserts are restricted to Unary / Binary nodes")
    else:
        rule.bad("cache|kinds", "cache lookup/insert must be restricted to Unary / Binary nodes", A.where(fn))


def r5_axis_roles(rule, root=None):
    fn = _import(root)
    ms = [m for m in A.find(fn["body"], "Match") if any(A.ftxt(a["pat"]) == "Var::X" for a in m["arms"])]
    if len(ms) != 1:
        rule.lost("match *s { Var::X => axes.0 .. } in Context::import")
    else:
        want = {"Var::X": "axes.0", "Var::Y": "axes.1", "Var::Z": "axes.2"}
        for arm in ms[0]["arms"]:
            pt = A.ftxt(arm["pat"])
            tt = A.ftxt(arm["body"])
            if pt in want:
                if tt == want[pt]:
                    rule.ok("import: %s reads %s of the current frame" % (pt, tt), file=CTX, line=arm["ln"])
                else:
                    rule.bad("axis|%s" % pt, "import maps %s to `%s`, expected %s" % (pt, tt, want[pt]), A.where(fn, arm))
            elif "Var::V" in pt:
                if tt == "self.var(v)":
                    rule.ok("import: free variables bypass the frame")
                else:
                    rule.bad("axis|V", "free variables must be imported as themselves (`self.var(v)`), found `%s`" % tt, A.where(fn, arm))
        scr = A.ftxt(ms[0]["e"])
    t = A.ftxt(fn["body"])
    if "letaxes=axes.last().unwrap();" in t:
        rule.ok("inputs read the innermost frame")
    else:
        rule.bad("axis|frame", "TreeOp::Input must read `axes.last()`", A.where(fn))
    # RemapAxes: pops x, y, z and pushes (x, y, z)
    if "letx=stack.pop().unwrap();lety=stack.pop().unwrap();letz=stack.pop().unwrap();axes.push((x,y,z));" in t:
        rule.ok("RemapAxes: the new frame is (x, y, z) in that order")
    else:
        rule.bad("axis|remapaxes", "the RemapAxes frame must be built as (x, y, z) from the three popped results", A.where(fn))
    # affine rows
    loops = [l for l in A.find(fn["body"], "For") if "mat[" in A.unparse(l["body"])]
    if len(loops) != 1 or A.ftxt(loops[0]["iter"]) != "0..3":
        rule.lost("`for i in 0..3` affine row loop in Context::import")
    else:
        ivar = A.binding_name(loops[0]["pat"])
        env = S.SymEnv()
        for ax in ("x", "y", "z"):
            env.vars[ax] = env.sym(ax)

        def conv(e):
            e = A.strip(e)
            k = e.get("k")
            if k == "Try":
                return conv(e["e"])
            if k == "MethodCall" and e["method"] == "unwrap":
                return conv(e["recv"])
            if k == "MethodCall" and A.ident(A.strip(e["recv"])) == "self" and e["method"] in ("mul", "add", "constant"):
                a = [conv(x) for x in e["args"]]
                return a[0] * a[1] if e["method"] == "mul" else (a[0] + a[1] if e["method"] == "add" else a[0])
            if k == "Index" and A.ident(A.strip(e["e"])) == "mat":
                tup = A.strip(e["index"])
                r, c = [A.strip(x) for x in tup["elems"]]
                if A.ident(r) != ivar:
                    raise S.Untranslatable("row index %s" % A.unparse(r))
                return env.sym("m%d" % A.lit_value(c))
            if k == "Path" and len(e["segs"]) == 1:
                n = e["segs"][0]
                if n in env.vars:
                    return env.vars[n]
            raise S.Untranslatable(A.unparse(e)[:40])

        try:
            out = None
            for s in loops[0]["body"]["stmts"]:
                if s.get("k") == "Let":
                    env.vars[A.binding_name(s["pat"])] = conv(s["init"])
                else:
                    e = A.strip(A.stmt_expr(s))
                    if e.get("k") == "Assign" and A.ftxt(e["left"]) == "out[%s]" % ivar:
                        r = A.strip(e["right"])
                        out = conv(r["args"][0]) if r.get("k") == "Call" and A.is_path(r["func"], "Some") else None
            want = env.sym("m0") * env.sym("x") + env.sym("m1") * env.sym("y") + env.sym("m2") * env.sym("z") + env.sym("m3")
            if out is not None and S.equal(out, want):
                rule.ok("affine frame row i = m[i,0] x + m[i,1] y + m[i,2] z + m[i,3]", file=CTX, line=loops[0]["ln"])
            else:
                rule.bad("affine|row", "the affine frame's row is `%s`, expected m[i,0]*x + m[i,1]*y + m[i,2]*z + m[i,3]" % out, A.where(fn, loops[0]))
        except (S.Untranslatable, KeyError, TypeError, IndexError) as e:
            rule.bad("affine|row|shape", "affine row construction not understood (%s)" % e, A.where(fn, loops[0]))
        if "let(x,y,z)=axes.last().unwrap();" in t and "let[x,y,z]=out.map(Option::unwrap);axes.push((x,y,z));" in t:
            rule.ok("the affine frame is built from, and pushed as, (x, y, z) of the current frame")
        else:
            rule.bad("affine|frame", "the affine frame must be computed from the current frame's (x, y, z) and pushed as (x, y, z)", A.where(fn))


from .. import factrules as FR


def run(ctx):
    r = ctx.rule("R1", "RemapAffine / RemapAxes nodes are constructed only by the flattening builder API", 2)
    ctx.guarded(r, r1_who_constructs)
    r = ctx.rule("R2", "consecutive affine remaps flatten as existing * new onto the inner target", 3)
    ctx.guarded(r, r2_flatten)
    r = ctx.rule("R3", "importer frames: every push is paired with its pop, pushed so that the target runs inside the frame", 7)
    ctx.guarded(r, r3_frames)
    r = ctx.rule("R4", "the import cache is keyed by (current frame, node pointer)", 4)
    ctx.guarded(r, r4_cache_keys)
    r = ctx.rule("R5", "axes read their own component of the innermost frame; affine rows combine columns with axes in order", 8)
    ctx.guarded(r, r5_axis_roles)
    r = ctx.rule("R1f", "[resolved program] RemapAffine / RemapAxes aggregates occur only in the builder API", 2)
    ctx.guarded(r, FR.remap_constructors, ctx)
