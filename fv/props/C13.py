"""C13 - remapping a tree's axes is substitution (structural part)."""
import sympy as sp

from .. import ast as A
from .. import opcodes as O
from .. import sym as S

CTX = "fidget-core/src/context/mod.rs"
TREE = "fidget-core/src/context/tree.rs"


def r1_who_constructs(rule, root=None):
    """TreeOp::RemapAffine is built only by Tree::remap_affine (which flattens) and
    TreeOp::RemapAxes only by Tree::remap_xyz - that is what keeps nested affine
    frames out of the importer"""
    want = {"RemapAffine": ("remap_affine", TREE), "RemapAxes": ("remap_xyz", TREE)}
    found = {"RemapAffine": [], "RemapAxes": []}
    for ent in A.index(root):
        path = ent.get("file")
        if not path or not path.endswith(".rs") or "/tests/" in path or "/benches/" in path or path.startswith("demos/web-editor"):
            continue
        try:
            d = A.load(path, root)
        except A.AnchorLost:
            continue
        for fn in d["_fns"]:
            if fn["_test"] or fn.get("body") is None:
                continue
            for s in A.find(fn["body"], "Struct"):
                segs = A.path_segs(s["path"])
                if len(segs) >= 2 and segs[-2] == "TreeOp" and segs[-1] in found:
                    found[segs[-1]].append((path, fn["name"], s))
    for v, (fname, fpath) in want.items():
        sites = found[v]
        bad = [(p, f, s) for (p, f, s) in sites if (p, f) != (fpath, fname)]
        if not sites:
            rule.lost("construction of TreeOp::%s in Tree::%s" % (v, fname))
        for p, f, s in bad:
            rule.bad("%s|%s::%s" % (v, p, f), "TreeOp::%s is constructed in %s::%s; only Tree::%s may build it (it flattens / owns the frame discipline)" % (v, p, f, fname), "%s:%s" % (p, s["ln"]))
        if sites and not bad:
            rule.ok("TreeOp::%s is constructed only in Tree::%s (%d site(s))" % (v, fname, len(sites)), file=fpath, line=sites[0][2]["ln"])


def r2_flatten(rule, root=None):
    """remap_affine builds exactly two RemapAffine values: for an already-affine tree (whatever construct
    takes it apart) { target: inner target, mat: existing * new }, otherwise { target: self, mat: new }"""
    fn = A.find_fn(TREE, "remap_affine", self_ty="Tree", root=root)
    param = [A.binding_name(i["pat"]) for i in fn["sig"]["inputs"] if isinstance(i, dict) and "pat" in i][0]
    lits = [s_ for s_ in A.find(fn["body"], "Struct") if (A.path_segs(s_["path"]) or [])[-2:] == ["TreeOp", "RemapAffine"]]
    flat = wrap = None
    for st in lits:
        f = {x["name"]: str(A.ftxt(x["e"])) for x in st["fields"]}
        ctx = [(p, scr) for (p, scr) in (A.enclosing_patterns(fn["body"], st) or []) if p.get("k") == "PStruct" and (A.path_segs(p["path"]) or [])[-2:] == ["TreeOp", "RemapAffine"]]
        if ctx:
            names = A.struct_pat_bindings(ctx[-1][0])
            scr = str(A.ftxt(ctx[-1][1]))
            flat = (f, names, scr, st)
        else:
            wrap = (f, st)
    if flat is None and len(lits) == 1:
        # the node is built once, from a (target, matrix) pair that a match over the tree selects
        st = lits[0]
        fl = {x["name"]: A.ident(A.strip(x["e"])) for x in st["fields"]}
        for let_ in A.find(fn["body"], "Let"):
            p_ = let_["pat"]["pat"] if let_["pat"].get("k") == "PType" else let_["pat"]
            init = A.strip(let_.get("init")) if let_.get("init") is not None else None
            if p_.get("k") != "PTuple" or init is None or init.get("k") != "Match":
                continue
            names_ = [A.binding_name(e_) for e_ in p_["elems"]]
            if sorted(names_) != sorted(v for v in fl.values() if v) or len(names_) != 2:
                continue
            order = {n_: i_ for i_, n_ in enumerate(names_)}
            for arm in init["arms"]:
                tup = A.strip(A.unblock(arm["body"]))
                if tup.get("k") != "Tuple" or len(tup["elems"]) != 2:
                    continue
                f = {fname: str(A.ftxt(tup["elems"][order[var]])) for fname, var in fl.items()}
                if arm["pat"].get("k") == "PStruct" and (A.path_segs(arm["pat"]["path"]) or [])[-2:] == ["TreeOp", "RemapAffine"]:
                    flat = (f, A.struct_pat_bindings(arm["pat"]), str(A.ftxt(init["e"])), st)
                elif arm["pat"].get("k") == "PWild":
                    wrap = (f, st)
    # the flattening applies to *every* already-affine tree: a guard on the arm (or a condition around the literal)
    # leaves directly nested RemapAffine nodes behind, which the importer composes in the other order
    if flat is not None:
        st_ = flat[3]
        guards = []
        for m_ in A.find(fn["body"], "Match"):
            for arm_ in m_["arms"]:
                if arm_.get("guard") is not None and any(n_ is st_ for n_ in A.walk(arm_["body"])):
                    guards.append(str(A.ftxt(arm_["guard"])))
        guards += [c_ for c_ in (A.enclosing_conds(fn["body"], st_) or []) if not c_.replace(" ", "").startswith(("match", "(let", "let"))]
        if guards:
            rule.bad("flatten|conditional", "remap_affine flattens an already-affine tree only under `%s`; consecutive affine remaps must always collapse into one (`existing * new` on the inner target) - a stacked RemapAffine pair is composed by the importer in the opposite order" % guards[0][:70], A.where(fn, st_))
    if flat is None:
        rule.bad("flatten|shape", "remap_affine no longer has a flattening arm for an already-affine tree", A.where(fn))
    else:
        f, names, scr, st = flat
        inner = names.get("mat")
        if scr in ("&*self.0", "self.0.as_ref()", "&**self", "&self.0") and f.get("target") == "%s.clone()" % names.get("target") and f.get("mat") == "(%s*%s)" % (inner, param):
            rule.ok("remap_affine flattens onto the inner target with `existing * new`", file=TREE, line=fn["ln"])
        else:
            rule.bad("flatten", "remap_affine flattens to `mat: %s`, target `%s`; the existing (inner) matrix must be applied after the new one: `%s * %s` on the inner target" % (f.get("mat"), f.get("target"), inner, param), A.where(fn, st))
    # ... and nothing else: any other TreeOp it constructs (pushing the matrix into an operator's arguments,
    # say) is a rewrite nobody vetted - a bare axis next to a remapped sibling would keep the old coordinate
    other = []
    for n_ in A.walk(fn["body"]):
        if isinstance(n_, dict) and n_.get("k") in ("Struct", "Call"):
            segs_ = (A.path_segs(n_["path"]) if n_.get("k") == "Struct" else A.path_segs(n_["func"])) or []
            if len(segs_) >= 2 and segs_[-2] == "TreeOp" and segs_[-1] != "RemapAffine":
                other.append((segs_[-1], n_))
    if other:
        rule.bad("flatten|unvetted", "remap_affine also builds TreeOp::%s: an affine remap is either folded into an existing RemapAffine or wrapped around the tree - distributing it over another node changes which coordinates its leaves read" % other[0][0], A.where(fn, other[0][1]))
    if wrap is not None and wrap[0] == {"target": "self.0.clone()", "mat": param}:
        rule.ok("a non-affine tree is wrapped with the given matrix")
    else:
        rule.bad("wrap", "remap_affine must wrap a non-affine tree as RemapAffine { target: self, mat }", A.where(fn))
    fn = A.find_fn(TREE, "remap_xyz", self_ty="Tree", root=root)
    # every way out of remap_xyz / remap_affine wraps the tree: a shortcut that returns `self` unchanged for
    # "identity-looking" arguments drops a remap
    for fname in ("remap_xyz", "remap_affine"):
        f_ = A.find_fn(TREE, fname, self_ty="Tree", root=root)
        early = list(A.find(f_["body"], "Return"))
        if early:
            rule.bad("%s|early" % fname, "Tree::%s returns `%s` early under `%s`: every result must be the remapped wrapper" % (fname, A.unparse(early[0].get("e") or {})[:40], " && ".join(A.enclosing_conds(f_["body"], early[0]) or [])[:90]), A.where(f_, early[0]))
        else:
            rule.ok("Tree::%s has a single exit, the wrapper it builds" % fname)
    from .. import effects as E

    st = [s for s in A.find(fn["body"], "Struct")]
    env = {}
    # a shadowing `let Tree(x) = x;` names x.0 of the *parameter*: resolve against the outer name only once
    for k_, v_ in E.let_env(fn["body"]["stmts"]).items():
        env[k_] = v_
    f = {}
    for x in (st[0]["fields"] if st else []):
        nm = A.ident(A.strip(x["e"]))
        if nm in env:
            f[x["name"]] = E.canon(env[nm][0], {})
        else:
            f[x["name"]] = E.canon(x["e"], {})
    if f == {"target": "self.0", "x": "x.0", "y": "y.0", "z": "z.0"}:
        rule.ok("remap_xyz stores (x, y, z) under their own names", file=TREE, line=fn["ln"])
    else:
        rule.bad("remap_xyz", "remap_xyz builds RemapAxes %s" % f, A.where(fn))


_IMP = {}


def _import(root=None):
    """Context::import, read with private same-file helpers expanded in place"""
    key = root or A.REPO
    if key not in _IMP:
        fn0 = A.find_fn(CTX, "import", self_ty="Context", root=root)
        fn = dict(fn0)
        fn["body"] = A.inline_helpers(fn0)
        _IMP[key] = fn
    return _IMP[key]


def frame_stacks(fn):
    """(name of the axis-frame stack, name of the pending-affine stack) in Context::import, taken from
    what the Pop / PopAffine actions pop (whatever the locals are called)"""
    t = A.ftxt(fn["body"])
    a = t.fmatch("Action::Pop=>{$A.pop().unwrap();}")
    b = t.fmatch("Action::PopAffine=>{$B.pop().unwrap();}")
    if a is None or b is None or a["$A"] == b["$B"]:
        raise A.AnchorLost("the `Action::Pop => axes.pop()` / `Action::PopAffine => affine.pop()` arms of Context::import")
    return a["$A"], b["$B"]


def _downs_in_order(arm):
    """names queued as Action::Down(..), in order - also when written as `for a in [x, y, z] { todo.push(Action::Down(a)) }`"""
    from . import C12 as C12_

    try:
        d, _p = C12_._pushes_pops(arm["body"])
        return [str(x) for x in d]
    except Exception:  # noqa: BLE001
        return None


def r3_frames(rule, root=None):
    fn = _import(root)
    axes_n, affine_n = frame_stacks(fn)
    rule.ok("Pop / PopAffine pop their own stacks (`%s`, `%s`)" % (axes_n, affine_n))
    # every frame push is paired, in the same block, with the queued action that pops it, and that action is
    # queued before Down(target) (the work list is a stack: queued earlier = runs later).  The relative order of
    # the frame push and the work-list pushes is irrelevant (different vectors).
    n_push = 0
    for b in A.find(fn["body"], "Block"):
        seq = [str(A.ftxt(s)) for s in b["stmts"]]
        for i, t in enumerate(seq):
            for vec, pop in ((axes_n, "Action::Pop"), (affine_n, "Action::PopAffine")):
                if t.startswith("%s.push(" % vec):
                    n_push += 1
                    want = "todo.push(%s);" % pop
                    if want not in seq:
                        rule.bad("frames|%s|unpaired" % ("axes" if vec == axes_n else "affine"), "`%s` is not paired with `%s` in the same block: the frame would leak into sibling subtrees" % (t[:30], want), A.where(fn, b["stmts"][i]))
                        continue
                    j = seq.index(want)
                    downs = [k for k, x in enumerate(seq) if x == "todo.push(Action::Down(target));"]
                    if downs and downs[0] < j:
                        rule.bad("frames|%s|order" % ("axes" if vec == axes_n else "affine"), "Action::Down(target) is pushed before %s: the frame would be popped before the target is imported" % pop, A.where(fn, b["stmts"][i]))
                    else:
                        rule.ok("%s.push paired with %s pushed before Down(target)" % (vec, pop), file=CTX, line=b["stmts"][i]["ln"])
    if n_push < 3:
        rule.lost("the three frame pushes in Context::import (found %d)" % n_push)
    t = A.ftxt(fn["body"])
    # RemapAffine arm: Down(target) after the if/else
    for arm in A.find(fn["body"], "Arm"):
        pt = A.ftxt(arm["pat"])
        if pt.startswith("TreeOp::RemapAffine{target:target"):
            seq = [A.ftxt(s) for s in A.stmts_of(arm["body"])]
            if seq and seq[-1] == "todo.push(Action::Down(target));":
                rule.ok("RemapAffine: the target is imported inside the pushed frame")
            else:
                rule.bad("frames|affine-target", "the RemapAffine arm must push Down(target) last", A.where(fn, arm))
    # the matrix may be deferred onto the affine stack only when the target is itself an affine remap
    # (the push may sit in the then-branch of `if matches!(..)` or in the else-branch of `if !matches!(..)`)
    defer = []
    for i in A.find(fn["body"], "If"):
        c_ = A.strip(i["cond"])
        neg_ = False
        while c_.get("k") == "Unary" and c_.get("op") == "!":
            neg_ = not neg_
            c_ = A.strip(c_["e"])
        branch = i.get("else") if neg_ else i["then"]
        if branch is not None and any(str(A.ftxt(s)).startswith("%s.push(" % affine_n) for s in A.stmts_of(branch)):
            defer.append((i, c_))
    if len(defer) != 1:
        rule.lost("the `if matches!(target, RemapAffine)` deferral in Context::import")
    else:
        c = defer[0][1]
        defer = [defer[0][0]]
        vs = set()
        if c.get("k") == "Macro" and c["name"] == "matches" and c.get("pat") is not None:
            for p in A.flatten_or(c["pat"]):
                segs, _ = A.pat_variant(p)
                vs.add(segs[-1] if segs else "?")
        scr = A.ftxt(c.get("expr")) if c.get("k") == "Macro" else ""
        if vs == {"RemapAffine"} and scr in ("&**target", "target.as_ref()") and not c.get("guard"):
            rule.ok("a pending matrix is deferred only onto a directly nested affine remap", file=CTX, line=defer[0]["ln"])
        else:
            rule.bad("frames|defer", "the pending affine matrix is deferred when the target matches %s; only a directly nested RemapAffine composes with it - any other node must see the matrix as a frame first" % sorted(vs), A.where(fn, defer[0]))
    # RemapAxes: the three new axes are imported in the *current* frame, deferred through the work list in the
    # order the Up step pops them (x pushed first = popped last); pushing some of them onto the value stack
    # right away puts them below the deferred ones and permutes the frame
    for arm in A.find(fn["body"], "Arm"):
        pt = str(A.ftxt(arm["pat"]))
        if not pt.startswith("TreeOp::RemapAxes{") or "Action::Up" in pt:
            continue
        pushes = [str(A.ftxt(c_["args"][0])) for c_ in A.find(arm["body"], "MethodCall") if c_["method"] == "push" and A.ident(A.strip(c_["recv"])) == "todo" and c_["args"]]
        direct = [c_ for c_ in A.find(arm["body"], "MethodCall") if c_["method"] in ("push", "extend", "insert") and A.ident(A.strip(c_["recv"])) == "stack"]
        names = A.struct_pat_bindings(arm["pat"]) if arm["pat"].get("k") == "PStruct" else {}
        xs, ys, zs = names.get("x"), names.get("y"), names.get("z")
        if direct:
            rule.bad("frames|remap-axes|direct", "the RemapAxes arm pushes a value straight onto the value stack (`%s`): the Up step pops z, y, x in that order, and a value pushed now lies below every deferred argument" % str(A.ftxt(direct[0]))[:60], A.where(fn, direct[0]))
        elif xs and pushes[:1] == ["Action::Up(t)"] and (pushes[-3:] == ["Action::Down(%s)" % xs, "Action::Down(%s)" % ys, "Action::Down(%s)" % zs] or _downs_in_order(arm) == [xs, ys, zs]):
            rule.ok("RemapAxes defers x, y, z through the work list in the order the Up step pops them", file=CTX, line=arm["ln"])
        elif xs and "Action::Up(t)" in pushes:
            rule.bad("frames|remap-axes|order", "the RemapAxes arm queues %s; it must queue Up(t) and then Down(x), Down(y), Down(z)" % pushes, A.where(fn, arm))
    if t.fmatch("letmut%s=vec!((self.x(),self.y(),self.z()));" % axes_n) is not None:
        rule.ok("the root frame is (x, y, z)")
    else:
        rule.bad("frames|root", "the importer's root frame must be (self.x(), self.y(), self.z())", A.where(fn))


def r4_cache_keys(rule, root=None):
    fn = _import(root)
    axes_n, _aff = frame_stacks(fn)
    key = "(*%s.last().unwrap(),Arc::as_ptr(t))" % axes_n
    n = 0
    for c in A.find(fn["body"], "MethodCall"):
        # any table looked up by node identity (whatever it is called): what a node imports to depends on the frame
        if c["method"] in ("get", "insert", "entry", "contains_key", "get_mut", "remove") and c["args"] and "Arc::as_ptr(" in A.unparse(c["args"][0]).replace(" ", ""):
            k = A.ftxt(A.strip(c["args"][0])).lstrip("&")
            n += 1
            if k == key:
                rule.ok("seen.%s keyed by (current frame, node pointer)" % c["method"], file=CTX, line=c["ln"])
            else:
                rule.bad("cache|%s|%d" % (c["method"], n), "the import cache is accessed with key `%s`; a subtree's import depends on the frame it is under, so the key must be %s" % (k, key), A.where(fn, c))
    if n < 2:
        rule.lost("cache accesses in Context::import (found %d)" % n)
    # the keys are addresses of tree nodes: valid only while the tree being imported is alive, i.e. for one call
    t = A.ftxt(fn["body"])
    maps = set()
    for c in A.find(fn["body"], "MethodCall"):
        if c["method"] in ("get", "insert") and c["args"] and "Arc::as_ptr(" in A.unparse(c["args"][0]).replace(" ", "") and A.ident(A.strip(c["recv"])):
            maps.add(A.ident(A.strip(c["recv"])))
    for mname in sorted(maps):
        lets = [s_ for s_ in A.find(fn["body"], "Let") if A.binding_name(s_["pat"]) == mname and s_.get("init") is not None]
        init = str(A.ftxt(lets[0]["init"])) if len(lets) == 1 else None
        import re as _re

        if init is not None and _re.fullmatch(r"(std::collections::)?(HashMap|BTreeMap)(::<.*>)?::(new\(\)|default\(\)|with_capacity\(.*\))|Default::default\(\)", init):
            rule.ok("the import cache `%s` starts empty in every call (its keys are addresses of the tree being imported)" % mname, file=CTX, line=lets[0]["ln"])
        else:
            rule.bad("cache|lifetime", "the import cache `%s` is initialised with `%s`: it is keyed by the addresses of tree nodes, which are only meaningful while that tree is alive - a cache that survives the call hands a freed tree's node to whatever is allocated at the same address" % (mname, init), A.where(fn, lets[0] if lets else None))
    if t.count("matches!(t.as_ref(),TreeOp::Unary(..) | TreeOp::Binary(..))") + t.count("matches!(t.as_ref(),TreeOp::Unary(..)|TreeOp::Binary(..))") >= 2:
        rule.ok("cache lookups and inserts are restricted to Unary / Binary nodes")
    else:
        rule.bad("cache|kinds", "cache lookup/insert must be restricted to Unary / Binary nodes", A.where(fn))


def remap_axes_pop_order(arm, axes_n="axes"):
    """for the Up arm of RemapAxes: which pop (1st, 2nd, 3rd in evaluation order) each component of the pushed
    frame comes from, e.g. [0, 1, 2] when the frame is (first popped, second, third); None if not understood"""
    pops = [c for c in A.find(arm["body"], "MethodCall") if c["method"] == "unwrap" and str(A.ftxt(c["recv"])) == "stack.pop()"]
    pops.sort(key=lambda c: (c.get("ln", 0), c.get("c", 0)))
    if len(pops) != 3:
        return None
    pushes = [c for c in A.find(arm["body"], "MethodCall") if c["method"] == "push" and A.ident(A.strip(c["recv"])) == axes_n and len(c["args"]) == 1]
    if len(pushes) != 1:
        return None

    def resolve(e, depth=0):
        e = A.strip(e)
        if depth > 4:
            return None
        if any(e is p_ for p_ in pops):
            return e
        n = A.ident(e)
        if n:
            for s_ in A.find(arm["body"], "Let"):
                p_ = s_["pat"]["pat"] if s_["pat"].get("k") == "PType" else s_["pat"]
                if s_.get("init") is None:
                    continue
                if A.binding_name(p_) == n:
                    return resolve(s_["init"], depth + 1)
                if p_.get("k") == "PTuple":
                    names_ = [A.binding_name(x) for x in p_["elems"]]
                    init = A.strip(s_["init"])
                    if n in names_ and init.get("k") == "Tuple" and len(init["elems"]) == len(names_):
                        return resolve(init["elems"][names_.index(n)], depth + 1)
        return e if e.get("k") == "Tuple" else None

    frame = resolve(pushes[0]["args"][0])
    if frame is None or frame.get("k") != "Tuple" or len(frame["elems"]) != 3:
        return None
    out = []
    for el in frame["elems"]:
        r = resolve(el)
        if r is None or not any(r is p_ for p_ in pops):
            return None
        out.append([i for i, p_ in enumerate(pops) if p_ is r][0])
    return out


def r5_axis_roles(rule, root=None):
    fn = _import(root)
    ms = [m for m in A.find(fn["body"], "Match") if any(A.ftxt(a["pat"]) == "Var::X" for a in m["arms"])]
    if len(ms) != 1:
        rule.lost("match *s { Var::X => axes.0 .. } in Context::import")
    else:
        from .. import effects as E

        axes_n, _aff = frame_stacks(fn)
        want = {"Var::X": "%s.last().unwrap().0" % axes_n, "Var::Y": "%s.last().unwrap().1" % axes_n, "Var::Z": "%s.last().unwrap().2" % axes_n}
        # the lets of the block the match sits in name the innermost frame (as a whole or by component)
        blk = None
        for b_ in A.find(fn["body"], "Block"):
            if any(n is ms[0] for n in A.walk(b_)) and (blk is None or b_["ln"] >= blk["ln"]):
                blk = b_
        env = E.let_env(blk["stmts"]) if blk is not None else {}
        for arm in ms[0]["arms"]:
            pt = A.ftxt(arm["pat"])
            tt = E.canon(arm["body"], env)
            if pt in want:
                if tt == want[pt]:
                    rule.ok("import: %s reads component %s of the innermost frame" % (pt, tt[-1]), file=CTX, line=arm["ln"])
                else:
                    rule.bad("axis|%s" % pt, "import maps %s to `%s`, expected %s" % (pt, tt, want[pt]), A.where(fn, arm))
            elif "Var::V" in pt:
                if str(A.ftxt(arm["body"])) == "self.var(v)":
                    rule.ok("import: free variables bypass the frame")
                else:
                    rule.bad("axis|V", "free variables must be imported as themselves (`self.var(v)`), found `%s`" % A.ftxt(arm["body"]), A.where(fn, arm))
        rule.ok("inputs read the innermost frame")
    # RemapAxes: pops x, y, z (in that order: the work list ran z, y, x last-to-first) and pushes (x, y, z)
    ok_axes = False
    for arm in A.find(fn["body"], "Arm"):
        if str(A.ftxt(arm["pat"])).startswith("TreeOp::RemapAxes{target") and "stack.pop()" in A.unparse(arm["body"]):
            pops = [A.binding_name(s_["pat"]) for s_ in A.stmts_of(arm["body"]) if s_.get("k") == "Let" and str(A.ftxt(s_.get("init") or {})) == "stack.pop().unwrap()"]
            pushes = [str(A.ftxt(s_)) for s_ in A.stmts_of(arm["body"]) if str(A.ftxt(s_)).startswith("%s.push(" % axes_n)]
            if len(pops) == 3 and None not in pops and pushes == ["%s.push((%s,%s,%s));" % (axes_n, pops[0], pops[1], pops[2])]:
                ok_axes = True
            elif remap_axes_pop_order(arm, axes_n) == [0, 1, 2]:
                ok_axes = True
    if ok_axes:
        rule.ok("RemapAxes: the new frame is (x, y, z) in that order")
    else:
        rule.bad("axis|remapaxes", "the RemapAxes frame must be built as (x, y, z) from the three popped results", A.where(fn))
    # affine rows: in the non-deferred branch, (X, Y, Z) = current frame; new axis i =
    # m[i,0] X + m[i,1] Y + m[i,2] Z + m[i,3] for i = 0, 1, 2; the new frame is those three in order
    loops = [l for l in A.find(fn["body"], "For") if str(A.ftxt(l["iter"])) == "0..3" and "out[" in A.unparse(l["body"])]
    slotvar = None
    if not loops:
        # the same loop over the three output slots themselves: `for (i, slot) in out.iter_mut().enumerate()`
        for l in A.find(fn["body"], "For"):
            if str(A.ftxt(l["iter"])) == "out.iter_mut().enumerate()" and l["pat"].get("k") == "PTuple" and len(l["pat"]["elems"]) == 2:
                loops.append(l)
    if len(loops) != 1:
        rule.lost("`for i in 0..3` affine row loop in Context::import")
        return
    loop = loops[0]
    if loop["pat"].get("k") == "PTuple":
        ivar = A.binding_name(loop["pat"]["elems"][0])
        slotvar = A.binding_name(loop["pat"]["elems"][1])
    else:
        ivar = A.binding_name(loop["pat"])
    # the blocks around the loop, innermost first (the loop may sit in an expanded helper body)
    around = sorted([b for b in A.find(fn["body"], "Block") if any(n is loop for n in A.walk(b))], key=lambda b: -b.get("ln", 0))
    bt = None
    m = None
    for b in around:
        bt_ = A.ftxt(b)
        m = bt_.fmatch("let($X,$Y,$Z)=%s.last().unwrap();" % axes_n) or bt_.fmatch("let($X,$Y,$Z)=*%s.last().unwrap();" % axes_n)
        if m is not None:
            bt = bt_
            outer_blk = b
            break
    if m is None:
        rule.bad("affine|frame", "the affine frame must be computed from the current frame's (x, y, z): `let (x, y, z) = %s.last().unwrap()`" % axes_n, A.where(fn, loop))
        return
    env = S.SymEnv()
    for ax, meta in (("x", "$X"), ("y", "$Y"), ("z", "$Z")):
        env.vars[m[meta]] = env.sym(ax)

    def conv(e, env, iv, matn, depth=0):
        e = A.strip(e)
        k = e.get("k")
        if k == "Try":
            return conv(e["e"], env, iv, matn, depth)
        if k == "MethodCall" and e["method"] == "unwrap":
            return conv(e["recv"], env, iv, matn, depth)
        if k == "MethodCall" and A.ident(A.strip(e["recv"])) == "self" and e["method"] in ("mul", "add", "constant"):
            a = [conv(x, env, iv, matn, depth) for x in e["args"]]
            return a[0] * a[1] if e["method"] == "mul" else (a[0] + a[1] if e["method"] == "add" else a[0])
        if k == "MethodCall" and A.ident(A.strip(e["recv"])) == "self" and depth < 2:
            # a private helper of Context: bind its parameters and read its body
            callee = A._same_file_fn(fn, e["method"])
            if callee is not None:
                ins = [i_ for i_ in callee["sig"]["inputs"] if isinstance(i_, dict) and "pat" in i_]
                if len(ins) == len(e["args"]):
                    sub = env.copy()
                    sub.vars = dict(env.vars)
                    iv2, mat2 = iv, matn
                    for i_, a in zip(ins, e["args"]):
                        p = i_["pat"]
                        a = A.strip(a)
                        if p.get("k") == "PTuple" and a.get("k") == "Tuple":
                            for pe, ae in zip(p["elems"], a["elems"]):
                                sub.vars[A.binding_name(pe)] = conv(ae, env, iv, matn, depth)
                        elif A.ident(a) == iv:
                            iv2 = A.binding_name(p)
                        elif A.ident(a) == matn:
                            mat2 = A.binding_name(p)
                        else:
                            sub.vars[A.binding_name(p)] = conv(a, env, iv, matn, depth)
                    tail = None
                    for s_ in callee["body"]["stmts"]:
                        if s_.get("k") == "Let":
                            sub.vars[A.binding_name(s_["pat"])] = conv(s_["init"], sub, iv2, mat2, depth + 1)
                        elif not s_.get("semi", True):
                            tail = A.stmt_expr(s_)
                    if tail is not None:
                        return conv(tail, sub, iv2, mat2, depth + 1)
            raise S.Untranslatable("method %s" % e["method"])
        if k == "Index" and A.ident(A.strip(e["e"])) == matn:
            tup = A.strip(e["index"])
            r, c = [A.strip(x) for x in tup["elems"]]
            if A.ident(r) != iv:
                raise S.Untranslatable("row index %s" % A.unparse(r))
            return env.sym("m%d" % A.lit_value(c))
        if k == "Path" and len(e["segs"]) == 1:
            n = e["segs"][0]
            if n in env.vars:
                return env.vars[n]
        raise S.Untranslatable(A.unparse(e)[:40])

    # every row is built in full: no iteration of the row loop may be skipped or cut short (an "identity row"
    # shortcut that looks only at the diagonal and the translation drops the off-diagonal terms of a shear)
    jumps = [n for n in A.walk(loop["body"]) if n.get("k") in ("Continue", "Break", "Return")]
    row_writes = [a for a in A.find(loop["body"], "Assign") if str(A.ftxt(a["left"])) in ("out[%s]" % ivar, "*%s" % slotvar)]
    if jumps or len(row_writes) != 1 or (A.path_conjuncts(loop["body"], row_writes[0]) or set()):
        rule.bad("affine|row|partial", "the affine row loop skips or special-cases some rows (%s): every new axis must be the full combination m[i,0]*x + m[i,1]*y + m[i,2]*z + m[i,3]" % ("a `%s` inside the loop" % jumps[0]["k"].lower() if jumps else "%d row assignments / a conditional one" % len(row_writes)), A.where(fn, jumps[0] if jumps else loop))
    try:
        out = None
        for s_ in loop["body"]["stmts"]:
            if s_.get("k") == "Let":
                env.vars[A.binding_name(s_["pat"])] = conv(s_["init"], env, ivar, "mat")
            else:
                e = A.strip(A.stmt_expr(s_))
                if e.get("k") == "Assign" and str(A.ftxt(e["left"])) in ("out[%s]" % ivar, "*%s" % slotvar):
                    r = A.strip(e["right"])
                    out = conv(r["args"][0], env, ivar, "mat") if r.get("k") == "Call" and A.is_path(r["func"], "Some") else None
        want = env.sym("m0") * env.sym("x") + env.sym("m1") * env.sym("y") + env.sym("m2") * env.sym("z") + env.sym("m3")
        if out is not None and S.equal(out, want):
            rule.ok("affine frame row i = m[i,0] x + m[i,1] y + m[i,2] z + m[i,3]", file=CTX, line=loop["ln"])
        else:
            rule.bad("affine|row", "the affine frame's row is `%s`, expected m[i,0]*x + m[i,1]*y + m[i,2]*z + m[i,3]" % out, A.where(fn, loop))
    except (S.Untranslatable, KeyError, TypeError, IndexError) as e:
        rule.bad("affine|row|shape", "affine row construction not understood (%s)" % e, A.where(fn, loop))
    m2 = bt.fmatch("let[$A,$B,$C]=out.map(Option::unwrap);")
    pushed_ok = False
    if m2 is not None:
        if bt.fmatch("%s.push(($A,$B,$C));" % axes_n, bind=m2) is not None:
            pushed_ok = True
        else:
            # pushed as the value of a block / helper result: `axes.push({ ..; (a, b, c) })`
            for c in A.find(outer_blk, "MethodCall"):
                if c["method"] == "push" and A.ident(A.strip(c["recv"])) == axes_n and len(c["args"]) == 1:
                    for leaf, _cs in A.value_cases(c["args"][0]):
                        if str(A.ftxt(leaf)) == "(%s,%s,%s)" % (m2["$A"], m2["$B"], m2["$C"]):
                            pushed_ok = True
    if pushed_ok:
        rule.ok("the affine frame is built from, and pushed as, (x, y, z) of the current frame")
    else:
        rule.bad("affine|frame", "the affine frame must be computed from the current frame's (x, y, z) and pushed as (x, y, z)", A.where(fn))


from .. import factrules as FR


def run(ctx):
    r = ctx.rule("R1", "RemapAffine / RemapAxes nodes are constructed only by the flattening builder API", 2)
    ctx.guarded(r, r1_who_constructs)
    r = ctx.rule("R2", "consecutive affine remaps flatten as existing * new onto the inner target", 5)
    ctx.guarded(r, r2_flatten)
    r = ctx.rule("R3", "importer frames: every push is paired with its pop, pushed so that the target runs inside the frame", 7)
    ctx.guarded(r, r3_frames)
    r = ctx.rule("R4", "the import cache is keyed by (current frame, node pointer)", 4)
    ctx.guarded(r, r4_cache_keys)
    r = ctx.rule("R5", "axes read their own component of the innermost frame; affine rows combine columns with axes in order", 8)
    ctx.guarded(r, r5_axis_roles)
    r = ctx.rule("R1f", "[resolved program] RemapAffine / RemapAxes aggregates occur only in the builder API", 2)
    ctx.guarded(r, FR.remap_constructors, ctx)
