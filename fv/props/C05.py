"""C05 - gradient evaluation returns the partial derivatives (structural part)."""
import itertools

import sympy as sp

from .. import ast as A
from .. import opcodes as O
from .. import sym as S
from .. import vmloops as V
from .. import shapecore as SC
from .. import asmchecks as AC
from .. import asmcopy as AK

GRAD = "fidget-core/src/types/grad.rs"
CTX = "fidget-core/src/context/mod.rs"

ZERO_DERIV = {"floor", "ceil", "round", "compare", "not", "rand", "mix"}
PIECEWISE = {
    # method: (condition text, result if true, result otherwise)
    "min": ("(self.v<rhs.v)", "self", "rhs"),
    "max": ("(self.v>rhs.v)", "self", "rhs"),
    "and": ("(self.v==0.0)", "*self", "rhs"),
    "or": ("(self.v!=0.0)", "*self", "rhs"),
}


def grad_methods(root=None):
    """inherent methods of Grad plus the std::ops impls, by name"""
    out = {}
    d = A.load(GRAD, root)
    for f in d["_fns"]:
        if f["_test"]:
            continue
        ow = f.get("_owner") or {}
        if ow.get("self_ty") != "Grad":
            continue
        tr = ow.get("trait")
        if tr is None:
            out[f["name"]] = f
        elif tr.startswith("std::ops::"):
            key = tr[len("std::ops::"):]
            out["op:" + key] = f
    return out


def _env_for(fn):
    env = S.SymEnv()
    names = []
    sig = fn["sig"]["inputs"]
    syms = [("f", "fx", "fy", "fz"), ("g", "gx", "gy", "gz")]
    k = 0
    for inp in sig:
        if "self" in inp:
            nm = "self"
        else:
            nm = A.binding_name(inp["pat"])
            if inp["ty"].replace(" ", "") not in ("Self", "Grad"):
                # scalar parameter (Mul<f32>)
                env.vars[nm] = env.sym("c")
                names.append((nm, None))
                continue
        v, dx, dy, dz = (env.sym(s) for s in syms[k])
        env.vars[nm] = {"v": v, "dx": dx, "dy": dy, "dz": dz, "__prefix__": nm}
        names.append((nm, syms[k]))
        k += 1
    return env, names


_MS = {}


def _leaves(e, env, conds, depth=0):
    """-> [(conds, kind, payload)] where kind in {'struct','operand','scalar'}"""
    e = A.strip(e)
    k = e.get("k")
    if k == "Block":
        env2 = env.copy()
        tail = None
        for s in e["stmts"]:
            if s.get("k") == "Let":
                nm = A.binding_name(s["pat"])
                init = A.strip(s["init"])
                if init.get("k") == "Path" and len(init["segs"]) == 1 and isinstance(env2.vars.get(init["segs"][0]), dict):
                    env2.vars[nm] = env2.vars[init["segs"][0]]
                else:
                    env2.vars[nm] = S.to_sym(init, env2)
            else:
                tail = A.stmt_expr(s)
        return _leaves(tail, env2, conds, depth)
    if k == "If":
        c = A.ftxt(A.strip(e["cond"]))
        return _leaves(e["then"], env, conds + [c], depth) + _leaves(e["else"], env, conds + ["!" + c], depth)
    if k == "Struct":
        f = {x["name"]: S.to_sym(x["e"], env) for x in e["fields"]}
        return [(conds, "struct", f)]
    if k == "Unary" and e["op"] == "*":
        return _leaves(e["e"], env, conds, depth)
    if k == "Path" and len(e["segs"]) == 1 and isinstance(env.vars.get(e["segs"][0]), dict):
        return [(conds, "operand", e["segs"][0])]
    if k == "MethodCall" and e["method"] == "into":
        return [(conds, "scalar", e["recv"])]
    # a Grad built from other Grad operations (`-self`, `self * rhs`, `self.recip()`): read through the
    # sibling implementation, with its parameters standing for these operands
    ms = _MS.get("ms")
    if ms and depth < 3:
        key = args = None
        if k == "Unary" and e["op"] == "-":
            key, args = "op:Neg", [e["e"]]
        elif k == "Binary" and e["op"] in ("+", "-", "*", "/"):
            key, args = "op:%s<Grad>" % {"+": "Add", "-": "Sub", "*": "Mul", "/": "Div"}[e["op"]], [e["left"], e["right"]]
        elif k == "MethodCall" and e["method"] in ms:
            key, args = e["method"], [e["recv"]] + list(e["args"])
        if key in ms:
            fn2 = ms[key]
            env2, names2 = _env_for(fn2)
            if len(names2) != len(args):
                raise S.Untranslatable("call `%s`" % A.unparse(e)[:40])
            for (nm, gsyms), a in zip(names2, args):
                if gsyms is None:
                    # a plain f32 parameter of the sibling (a private helper such as `div_partials(self, v, d)`)
                    env2.vars[nm] = S.to_sym(a, env)
                    continue
                lv = _leaves(a, env, [], depth + 1)
                if len(lv) != 1 or lv[0][1] == "scalar":
                    raise S.Untranslatable("operand `%s`" % A.unparse(a)[:40])
                val = env.vars[lv[0][2]] if lv[0][1] == "operand" else lv[0][2]
                env2.vars[nm] = dict({f_: val[f_] for f_ in ("v", "dx", "dy", "dz")}, __prefix__=nm)
            out = []
            for c2, kind2, pay in _leaves(fn2["body"], env2, [], depth + 1):
                if kind2 == "scalar":
                    raise S.Untranslatable("call `%s`" % A.unparse(e)[:40])
                f_ = env2.vars[pay] if kind2 == "operand" else pay
                out.append((conds + list(c2), "struct", {x: f_[x] for x in ("v", "dx", "dy", "dz")}))
            return out
    raise S.Untranslatable("result `%s`" % A.unparse(e)[:40])


def _deriv_leaves_ok(fn):
    """the leaf cases of Context::deriv, whatever the spelling of the choice: under `Op::Input(u)` the value
    cached for the node and pushed on the stack is constant(1.0) exactly when u is the variable of
    differentiation and the zero constant otherwise; under `Op::Const(..)` it is the zero constant"""
    params = [A.binding_name(i["pat"]) for i in fn["sig"]["inputs"] if "pat" in i]
    if len(params) != 2:
        return False
    var = params[1]
    view = A.value_view(fn["body"])
    zero_names = {A.binding_name(l["pat"]) for l in A.find(fn["body"], "Let") if l.get("init") is not None and str(A.ftxt(A.strip(l["init"]))) == "self.constant(0.0)"}

    def is_zero(t):
        return t in zero_names or t == "self.constant(0.0)"

    ok = {"Input": False, "Const": False}
    for m in A.find(view, "Match"):
        for arm in m["arms"]:
            if arm["pat"].get("k") == "POr":
                continue
            segs, subs = A.pat_variant(arm["pat"])
            if not segs or segs[-2:-1] != ["Op"] or segs[-1] not in ok:
                continue
            ins = [c for c in A.find(arm["body"], "MethodCall") if c["method"] == "insert" and A.ident(A.strip(c["recv"])) == "seen" and len(c["args"]) == 2]
            psh = [c for c in A.find(arm["body"], "MethodCall") if c["method"] == "push" and A.ident(A.strip(c["recv"])) == "stack" and len(c["args"]) == 1]
            if len(ins) != 1 or len(psh) != 1:
                continue
            if str(A.ftxt(ins[0]["args"][1])) != str(A.ftxt(psh[0]["args"][0])):
                return False
            val = A.strip(ins[0]["args"][1])
            for l in A.find(arm["body"], "Let"):
                if A.ident(val) and A.binding_name(l["pat"]) == A.ident(val) and l.get("init") is not None:
                    val = l["init"]
                    break
            cases = A.value_cases(val)
            if segs[-1] == "Const":
                ok["Const"] = all(is_zero(str(A.ftxt(leaf))) and True for leaf, _c in cases)
                continue
            u = A.binding_name(subs[0]) if subs else None
            good = bool(u) and len(cases) == 2
            for leaf, conds in cases:
                if len(conds) != 1:
                    good = False
                    break
                c = A.norm_cond(conds[0])
                neg = c.startswith("!")
                c = c.lstrip("!")
                if c in ("%s==%s" % (var, u), "%s==%s" % (u, var)):
                    same = not neg
                elif c in ("%s!=%s" % (var, u), "%s!=%s" % (u, var)):
                    same = neg
                else:
                    good = False
                    break
                t = str(A.ftxt(leaf))
                if not ((same and t == "self.constant(1.0)") or (not same and is_zero(t))):
                    good = False
            ok["Input"] = good
    return ok["Input"] and ok["Const"]


def r1_chain_rule(rule, root=None):
    ms = grad_methods(root)
    _MS["ms"] = ms
    E = sp.Symbol("E", real=True)
    S.BINARY_METHODS["rem_euclid"] = lambda a, b: a - b * E
    S.BINARY_METHODS["div_euclid"] = lambda a, b: E
    smooth = ["sqrt", "sin", "cos", "tan", "asin", "acos", "atan", "exp", "ln", "recip", "atan2", "rem_euclid",
              "op:Add<Grad>", "op:Sub<Grad>", "op:Mul<Grad>", "op:Mul<f32>", "op:Div<Grad>", "op:Neg", "abs"]
    try:
        for name in smooth:
            fn = ms.get(name)
            if fn is None:
                rule.lost("Grad::%s" % name)
                continue
            env, names = _env_for(fn)
            try:
                leaves = _leaves(fn["body"], env, [])
            except (S.Untranslatable, KeyError, TypeError) as e:
                rule.bad("%s|shape" % name, "Grad::%s is no longer closed-form (%s)" % (name, e), A.where(fn))
                continue
            ops = [n for n in names if n[1] is not None]
            for conds, kind, f in leaves:
                if kind == "operand":
                    continue  # returning an operand whole is trivially its own derivative
                if kind == "scalar":
                    rule.bad("%s|scalar" % name, "Grad::%s returns a bare scalar on a smooth branch" % name, A.where(fn))
                    continue
                # conditions may only look at values
                v = f.get("v")
                ok = True
                for lane in ("dx", "dy", "dz"):
                    want = 0
                    for (nm, (sv, sx, sy, sz)) in ops:
                        d = {"dx": sx, "dy": sy, "dz": sz}[lane]
                        want = want + sp.diff(v, env.sym(sv)) * env.sym(d)
                    got = f.get(lane)
                    if got is None or sp.simplify(got - want) != 0:
                        ok = False
                        rule.bad("%s|%s" % (name, lane), "Grad::%s: %s is `%s`, but the chain rule for v = %s gives `%s`" % (name, lane, got, v, sp.simplify(want)), A.where(fn))
                if ok:
                    rule.ok("Grad::%s: dx, dy, dz follow the chain rule of v = %s%s" % (name, v, (" under " + " && ".join(conds)) if conds else ""), file=GRAD, line=fn["ln"])
    finally:
        S.BINARY_METHODS["rem_euclid"] = lambda a, b: sp.Mod(a, b)
        S.BINARY_METHODS.pop("div_euclid", None)
    # value expressions are the namesake op on .v
    val_expect = {
        "sqrt": "sqrt(f)", "sin": "sin(f)", "cos": "cos(f)", "tan": "tan(f)", "asin": "asin(f)", "acos": "acos(f)", "atan": "atan(f)",
        "exp": "exp(f)", "ln": "log(f)", "recip": "1/f", "atan2": "atan2(f, g)", "op:Add<Grad>": "f+g", "op:Sub<Grad>": "f-g",
        "op:Mul<Grad>": "f*g", "op:Div<Grad>": "f/g", "op:Neg": "-f", "op:Mul<f32>": "f*c",
    }
    for name, want in val_expect.items():
        fn = ms.get(name)
        if fn is None:
            continue
        env, names = _env_for(fn)
        try:
            leaves = _leaves(fn["body"], env, [])
            v = [f["v"] for c, k, f in leaves if k == "struct"][0]
            loc = {n: env.sym(n) for n in ("f", "g", "c")}
            w = sp.sympify(want, locals=loc)
            if sp.simplify(v - w) == 0:
                rule.ok("Grad::%s: v = %s" % (name, want))
            else:
                rule.bad("%s|v" % name, "Grad::%s computes v = %s, expected %s" % (name, v, want), A.where(fn))
        except Exception as e:
            rule.bad("%s|v|shape" % name, "Grad::%s value not understood (%s)" % (name, e), A.where(fn))


def r3_piecewise(rule, root=None):
    ms = grad_methods(root)
    for name, (cond, a, b) in PIECEWISE.items():
        fn = ms.get(name)
        if fn is None:
            rule.lost("Grad::%s" % name)
            continue
        ifs = list(A.find(fn["body"], "If"))
        hit = None
        for i in ifs:
            if A.ftxt(A.strip(i["cond"])) == cond:
                hit = i
        if hit is None:
            rule.bad("%s|cond" % name, "Grad::%s must select by `%s` (a condition on values only)" % (name, cond), A.where(fn))
            continue
        th = A.ftxt(hit["then"]).strip("{}")
        el = A.ftxt(hit["else"]).strip("{}")
        if th == a and el == b:
            rule.ok("Grad::%s returns %s whole under %s, else %s" % (name, a, cond, b), file=GRAD, line=fn["ln"])
        else:
            rule.bad("%s|branches" % name, "Grad::%s returns `%s` under %s and `%s` otherwise; expected %s / %s (value and derivatives of the selected operand together)" % (name, th, cond, el, a, b), A.where(fn, hit))
    fn = ms.get("abs")
    if fn is not None:
        ifs = list(A.find(fn["body"], "If"))
        if ifs and A.ftxt(A.strip(ifs[0]["cond"])) == "(self.v<0.0)" and A.ftxt(ifs[0]["else"]) == "{self}":
            rule.ok("Grad::abs negates everything when v < 0 and is the identity otherwise")
        else:
            rule.bad("abs|branches", "Grad::abs must negate all four lanes exactly when v < 0", A.where(fn))
    for name in ("floor", "ceil", "round"):
        fn = ms.get(name)
        st = list(A.find(fn["body"], "Struct")) if fn else []
        f = {x["name"]: A.ftxt(x["e"]) for x in st[0]["fields"]} if st else {}
        # `self.v.floor().into()` is the same constant through From<f32> (checked below to have zero derivatives)
        tail = A.unblock(fn["body"]) if fn else {}
        via_from = (not st and tail.get("k") == "MethodCall" and tail["method"] == "into" and not tail["args"]
                    and str(A.ftxt(A.strip(tail["recv"]))) == "self.v.%s()" % name)
        if via_from or f == {"v": "self.v.%s()" % name, "dx": "0.0", "dy": "0.0", "dz": "0.0"}:
            rule.ok("Grad::%s has zero derivative" % name)
        else:
            rule.bad("%s|zero" % name, "Grad::%s must be { v: self.v.%s(), dx: 0, dy: 0, dz: 0 }, found %s" % (name, name, f), A.where(fn) if fn else "")
    for name in ("compare", "not", "rand", "mix"):
        fn = ms.get(name)
        t = A.ftxt(fn["body"]) if fn else ""
        if t.endswith(".into()}") and "dx" not in t:
            rule.ok("Grad::%s is a bare value (zero derivative)" % name)
        else:
            rule.bad("%s|zero" % name, "Grad::%s must convert a plain f32 (zero derivative)" % name, A.where(fn) if fn else "")
    # From<f32>: zero derivative; new/d: lane order
    d = A.load(GRAD, root)
    for f in d["_fns"]:
        ow = f.get("_owner") or {}
        if ow.get("self_ty") == "Grad" and (ow.get("trait") or "") == "From<f32>" and f["name"] == "from":
            st = list(A.find(f["body"], "Struct"))
            fl = {x["name"]: A.ftxt(x["e"]) for x in st[0]["fields"]} if st else {}
            if fl == {"v": "v", "dx": "0.0", "dy": "0.0", "dz": "0.0"}:
                rule.ok("Grad::from(f32) is a constant (zero derivative)")
            else:
                rule.bad("from|zero", "Grad::from(f32) must have zero derivatives, found %s" % fl, A.where(f))
    fn = ms.get("d")
    ms_ = list(A.find(fn["body"], "Match")) if fn else []
    got = {A.unparse(a["pat"]): A.ftxt(a["body"]) for a in ms_[0]["arms"]} if ms_ else {}
    if got.get("0") == "self.dx" and got.get("1") == "self.dy" and got.get("2") == "self.dz":
        rule.ok("Grad::d(0|1|2) = dx|dy|dz")
    else:
        rule.bad("d|lanes", "Grad::d must map 0, 1, 2 to dx, dy, dz; found %s" % got, A.where(fn) if fn else "")


# ---------------------------------------------------------------------------
# Context::deriv


class DerivSym:
    def __init__(self, env):
        self.env = dict(env)

    def ev(self, e):
        e = A.strip(e)
        k = e.get("k")
        if k == "MethodCall" and e["method"] == "unwrap" and not e["args"]:
            return self.ev(e["recv"])
        if k == "Try":
            return self.ev(e["e"])
        if k == "Lit":
            return sp.nsimplify(e["v"], rational=True)
        if k == "Path" and len(e["segs"]) == 1:
            return self.env[e["segs"][0]]
        if k == "Call" and A.is_path(e["func"], "Ok"):
            return self.ev(e["args"][0])
        if k == "MethodCall" and A.ident(A.strip(e["recv"])) == "self":
            a = [self.ev(x) for x in e["args"]]
            m = e["method"]
            table = {
                "neg": lambda: -a[0], "square": lambda: a[0] ** 2, "sqrt": lambda: sp.sqrt(a[0]), "sin": lambda: sp.sin(a[0]),
                "cos": lambda: sp.cos(a[0]), "add": lambda: a[0] + a[1], "sub": lambda: a[0] - a[1], "mul": lambda: a[0] * a[1],
                "div": lambda: a[0] / a[1], "exp": lambda: sp.exp(a[0]), "constant": lambda: a[0], "recip": lambda: 1 / a[0],
                "ln": lambda: sp.log(a[0]), "tan": lambda: sp.tan(a[0]),
            }
            if m in table:
                return table[m]()
            raise ValueError("method %s" % m)
        if k == "Block":
            sub = DerivSym(self.env)
            tail = None
            for s in e["stmts"]:
                if s.get("k") == "Let":
                    sub.env[A.binding_name(s["pat"])] = sub.ev(s["init"])
                else:
                    tail = A.stmt_expr(s)
            return sub.ev(tail)
        raise ValueError("expr %s" % A.unparse(e)[:40])


SMOOTH_UNARY = {
    "Neg": lambda f: -f, "Recip": lambda f: 1 / f, "Sqrt": sp.sqrt, "Square": lambda f: f ** 2, "Sin": sp.sin, "Cos": sp.cos,
    "Tan": sp.tan, "Asin": sp.asin, "Acos": sp.acos, "Atan": sp.atan, "Exp": sp.exp, "Ln": sp.log,
}
SMOOTH_BINARY = {
    "Add": lambda f, g: f + g, "Sub": lambda f, g: f - g, "Mul": lambda f, g: f * g, "Div": lambda f, g: f / g,
    "Atan": lambda f, g: sp.atan2(f, g),
}
ZERO_UNARY = {"Floor", "Ceil", "Rand", "Round", "Not"}
ZERO_BINARY = {"Compare", "Mix"}


def r4_symbolic_deriv(rule, root=None):
    from .C12 import FloatCtx, Val

    fn = A.find_fn(CTX, "deriv", self_ty="Context", root=root)
    f, g, df, dg = (sp.Symbol(n, real=True) for n in ("f", "g", "df", "dg"))
    for enum, smooth, zero in (("UnaryOpcode", SMOOTH_UNARY, ZERO_UNARY), ("BinaryOpcode", SMOOTH_BINARY, ZERO_BINARY)):
        ms = O.match_on(fn, enum, min_arms=6)
        if len(ms) != 1:
            rule.lost("match op { %s::.. } in Context::deriv" % enum)
            continue
        seen = set()
        for variant, _s, arm in O.arms_by_variant(ms[0], enum):
            if variant is None:
                rule.bad("%s|wildcard" % enum, "catch-all arm in deriv", A.where(fn, arm))
                continue
            seen.add(variant)
            key = "%s|%s" % (enum, variant)
            if variant in zero:
                if A.ftxt(A.unblock(arm["body"])) == "Ok(zero)":
                    rule.ok("deriv(%s) = 0" % variant, file=CTX, line=arm["ln"])
                else:
                    rule.bad(key, "d/dv of %s must be zero (no Dirac deltas)" % variant, A.where(fn, arm))
                continue
            if variant in smooth:
                if enum == "UnaryOpcode":
                    val = smooth[variant](f)
                    env = {"v_arg": f, "d_arg": df, "n": val, "zero": sp.Integer(0)}
                    want = sp.diff(val, f) * df
                else:
                    val = smooth[variant](f, g)
                    env = {"v_lhs": f, "v_rhs": g, "d_lhs": df, "d_rhs": dg, "n": val, "zero": sp.Integer(0)}
                    want = sp.diff(val, f) * df + sp.diff(val, g) * dg
                try:
                    got = DerivSym(env).ev(arm["body"])
                    if sp.simplify(got - want) == 0:
                        rule.ok("deriv(%s) = %s" % (variant, sp.simplify(want)), file=CTX, line=arm["ln"])
                    else:
                        rule.bad(key, "the symbolic derivative of %s is built as `%s`; the chain rule gives `%s`" % (variant, sp.simplify(got), sp.simplify(want)), A.where(fn, arm))
                except (ValueError, KeyError) as e:
                    rule.bad(key + "|shape", "deriv arm for %s not understood (%s)" % (variant, e), A.where(fn, arm))
                continue
            if variant == "Mod":
                # rem_euclid(f, g) = f - g * div_euclid(f, g); away from the jumps d = df - dg * div_euclid(f, g).
                # The arm builds div_euclid from floor/ceil/compare nodes: piecewise in the signs of the
                # operands, so enumerate sign x magnitude classes with non-integer quotients.
                import math

                bad = None
                n_cases = 0
                try:
                    for a, b in itertools.product((-7.25, -1.5, 1.5, 7.25), (-2.0, -1.0, 1.0, 2.0)):
                        got = _float_arm(arm, {"v_lhs": a, "v_rhs": b, "d_lhs": 5.0, "d_rhs": 7.0}, root)
                        q = math.floor(a / b) if b > 0 else math.ceil(a / b)
                        want = 5.0 - 7.0 * q
                        n_cases += 1
                        if got != want and bad is None:
                            bad = ((a, b), got, want, q)
                    if bad:
                        rule.bad(key, "deriv(Mod): for (lhs, rhs) = %s the built derivative is d_lhs - d_rhs * %g, but div_euclid(lhs, rhs) = %g (what Grad::rem_euclid uses)" % (bad[0], (5.0 - bad[1]) / 7.0, bad[3]), A.where(fn, arm))
                    else:
                        rule.ok("deriv(Mod) = d_lhs - d_rhs * div_euclid(lhs, rhs) on %d sign/magnitude classes" % n_cases, file=CTX, line=arm["ln"])
                except (ValueError, KeyError, AttributeError, TypeError) as e:
                    rule.bad(key + "|model", "deriv arm for Mod does not fit the float model (%s)" % e, A.where(fn, arm))
                continue
            # piecewise: enumerate the orderings with the float model of the builder DSL
            cases = []
            vals = [-2.0, 0.0, 3.0]
            bad = None
            try:
                if variant == "Abs":
                    for a in (-2.0, 3.0):
                        got = _float_arm(arm, {"v_arg": a, "d_arg": 5.0}, root)
                        want = -5.0 if a < 0 else 5.0
                        cases.append((a,))
                        if got != want:
                            bad = ((a,), got, want)
                else:
                    for a, b in itertools.product(vals, repeat=2):
                        if variant in ("Min", "Max") and a == b:
                            continue  # ties are non-differentiable loci
                        got = _float_arm(arm, {"v_lhs": a, "v_rhs": b, "d_lhs": 5.0, "d_rhs": 7.0}, root)
                        want = {
                            "Min": 5.0 if a < b else 7.0, "Max": 5.0 if a > b else 7.0,
                            "And": 5.0 if a == 0 else 7.0, "Or": 5.0 if a != 0 else 7.0,
                        }[variant]
                        cases.append((a, b))
                        if got != want:
                            bad = ((a, b), got, want)
                if bad:
                    rule.bad(key, "deriv(%s): for operand values %s the built derivative selects %s, the op selects the operand whose derivative is %s" % (variant, bad[0], bad[1], bad[2]), A.where(fn, arm))
                else:
                    rule.ok("deriv(%s) selects the derivative of the operand the op selects (%d orderings)" % (variant, len(cases)), file=CTX, line=arm["ln"])
            except (ValueError, KeyError, AttributeError) as e:
                rule.bad(key + "|model", "deriv arm for %s does not fit the float model (%s)" % (variant, e), A.where(fn, arm))
        unary, binary = O.ctx_opcodes(root)
        for v in (unary if enum == "UnaryOpcode" else binary):
            if v not in seen:
                rule.bad("%s|%s|missing" % (enum, v), "deriv has no arm for %s::%s" % (enum, v), A.where(fn, ms[0]))
    # memoisation: the derivative of node n is cached under n and looked up under n
    ms_a = [m for m in A.find(fn["body"], "Match") if any((A.pat_variant(a["pat"])[0] or [None])[0] == "Action" for a in m["arms"])]
    n_ins = 0
    memo_bad = False
    for m in ms_a[:1]:
        for a in m["arms"]:
            segs, subs = A.pat_variant(a["pat"])
            if not segs or segs[0] != "Action" or not subs:
                continue
            node_name = A.binding_name(subs[0])
            for c in A.find(a["body"], "MethodCall"):
                if A.ident(A.strip(c["recv"])) != "seen" or c["method"] not in ("insert", "get", "contains_key", "entry"):
                    continue
                k = A.ident(A.strip(c["args"][0])) if c["args"] else None
                n_ins += 1
                if k != node_name:
                    memo_bad = True
                    rule.bad("memo|%s" % segs[-1], "deriv caches / looks up a derivative under `%s` while processing node `%s`: a shared sub-expression would get another node's derivative" % (k, node_name), A.where(fn, c))
    if not ms_a or n_ins < 3:
        rule.bad("memo|shape", "the `seen` cache of Context::deriv (insert / get keyed by the node being differentiated) was not found", A.where(fn))
    elif not memo_bad:
        rule.ok("deriv's cache is keyed by the node being differentiated (%d uses)" % n_ins)
    t = A.ftxt(fn["body"])
    if _deriv_leaves_ok(fn):
        rule.ok("deriv of the variable itself is 1, of other inputs and constants 0")
    else:
        rule.bad("leaves", "d/dv must be 1 for the variable v, 0 for other inputs and constants", A.where(fn))
    if "letd_lhs=stack.pop().unwrap();letd_rhs=stack.pop().unwrap();" in t and "todo.push(Action::Down(lhs));todo.push(Action::Down(rhs));" in t:
        rule.ok("deriv pops operand derivatives in the order their operands were pushed")
    else:
        rule.bad("stack", "deriv must push Down(lhs), Down(rhs) and pop d_lhs, d_rhs in that order", A.where(fn))


def _float_arm(arm, env, root):
    from .C12 import FloatCtx, Val

    fc = FloatCtx(root)
    e = {k: Val(v, False) for k, v in env.items()}
    e["zero"] = Val(0.0, True)
    body = A.strip(arm["body"])
    if body.get("k") != "Block":
        body = {"k": "Block", "stmts": [{"k": "ExprStmt", "e": body, "semi": False}]}
    # `.unwrap()` is transparent in the model
    r = _FloatUnwrap(fc).block(body, e)
    if isinstance(r, tuple):
        r = r[1]
    return r.v


class _FloatUnwrap:
    def __init__(self, fc):
        self.fc = fc
        orig = fc.ev

        def ev(e, env):
            e2 = A.strip(e)
            if e2.get("k") == "MethodCall" and e2["method"] == "unwrap" and not e2["args"]:
                return ev(e2["recv"], env)
            return orig(e, env)

        fc.ev = ev

    def block(self, b, env):
        return self.fc.block(b, env)


def run(ctx):
    r = ctx.rule("R1", "every smooth Grad op: v is the op on values and dx, dy, dz follow the chain rule with symbolic seeds", 36)
    ctx.guarded(r, r1_chain_rule)
    r = ctx.rule("R3", "piecewise Grad ops return one operand whole under a condition on values; discontinuous ops have zero derivative", 14)
    ctx.guarded(r, r3_piecewise)
    r = ctx.rule("R4", "Context::deriv arms equal the chain rule (smooth), zero (discontinuous) or the selected operand's derivative (piecewise)", 30)
    ctx.guarded(r, r4_symbolic_deriv)
    r = ctx.rule("R5", "the gradient interpreter loop computes each opcode; Transformable for Grad is the homogeneous transform", 57)
    ctx.guarded(r, lambda rule: V.check_loop(rule, "grad_slice"))
    ctx.guarded(r, lambda rule: SC.r_transformable(rule, ("Grad",)))
    r = ctx.rule("R6", "x86_64 gradient assembler: write discipline, hazards, call helpers restore all four lanes", 26 + 27 + 2)
    ctx.guarded(r, AC.check_write_discipline, "grad_slice")
    ctx.guarded(r, AC.check_hazards, "grad_slice")
    ctx.guarded(r, AC.check_load_imm, "grad_slice")
    for n in ("call_fn_unary", "call_fn_binary"):
        ctx.guarded(r, AK.check_call_helper, "grad_slice", n)
    r = ctx.rule("R6b", "x86_64 gradient assembler: single-instruction builders and moves act on all four lanes of their operands", 9)
    ctx.guarded(r, AC.check_simple_builders, "grad_slice")
    from .. import a64checks as XC

    r = ctx.rule("R6c", "aarch64 gradient assembler: write discipline, hazards (all four lanes written), branch targets, call helpers restore and marshal all four lanes, single-instruction builders", 23 + 24 + 5 + 2 + 8)
    ctx.guarded(r, XC.check_write_discipline, "grad_slice")
    ctx.guarded(r, XC.check_hazards, "grad_slice")
    ctx.guarded(r, XC.check_branches, "grad_slice")
    ctx.guarded(r, XC.check_call_helpers, "grad_slice")
    ctx.guarded(r, XC.check_simple_builders, "grad_slice")
    from .. import a64sem as XS

    r = ctx.rule("R6d", "aarch64 gradient add / sub / neg / mul / div / sqrt / square / recip: value lane and the three derivative lanes follow the chain rule (symbolic lanes)", 9)
    ctx.guarded(r, XS.check_lane_semantics, "grad_slice")
    r = ctx.rule("R6e", "aarch64 gradient assembler: 128-bit arrangements only; load_imm drops no bit of the constant", 23 + 3)
    ctx.guarded(r, XC.check_full_width, "grad_slice")
    ctx.guarded(r, XC.check_load_imm, "grad_slice")
    from .. import x86sem as XS86

    r = ctx.rule("R6f", "x86_64 gradient add / sub / neg / mul / div / sqrt / square / recip: value lane and the three derivative lanes follow the chain rule (symbolic lanes)", 9)
    ctx.guarded(r, XS86.check_lane_semantics, "grad_slice")
    r = ctx.rule("R6g", "aarch64 gradient compare / not / and / or select whole gradients by the value lane (symbolic masks)", 4)
    ctx.guarded(r, XS.check_mask_logic, "grad_slice")
    r = ctx.rule("R6g2", "x86_64 gradient compare / not / and / or select whole gradients by the value lane: the mask built from lane 0 reaches all four lanes (symbolic masks; a select keyed on a derivative lane's sign bit is reported)", 3)
    ctx.guarded(r, XS86.check_mask_logic, "grad_slice")
    r = ctx.rule("R6h", "aarch64 gradient abs / min / max return the selected operand whole, selected by the interpreter's comparison of the value lanes", 3)
    ctx.guarded(r, XS.check_grad_piecewise)
    from .. import x86pw as PW86

    r = ctx.rule("R6i", "x86_64 gradient abs / min / max / compare: on every order type of the value lanes exactly one path is selected and returns the selected operand's value and partial derivatives whole (ties of min / max and the zero of abs: value lane only)", 4)
    ctx.guarded(r, PW86.check_piecewise, "grad_slice")
    from .. import hashsem as HS

    r = ctx.rule("R6j", "gradient rand / mix: the value lane of the native clauses (x86_64 and aarch64) is the hash term of fidget_core::rng", 4)
    for arch in ("x86_64", "aarch64"):
        ctx.guarded(r, HS.check_hash_terms, arch, "grad_slice")
    r = ctx.rule("R6k", "the gradient assembler's magic constants (rounding bias, sign masks, hash constants) agree by value with its sibling assemblers'", 5)
    ctx.guarded(r, AC.check_magic_constants, focus="grad_slice")
