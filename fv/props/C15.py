"""C15 - serialized bytecode (structural part)."""
import re
from .. import ast as A
from .. import opcodes as O
from .. import terms as T

BC = "fidget-bytecode/src/lib.rs"
IRREGULAR = {"Load": "Mem", "Store": "Mem", "CopyImm": "Copy", "CopyReg": "Copy", "Input": "Input", "Output": "Output"}


def bytecode_name(variant):
    if variant in IRREGULAR:
        return IRREGULAR[variant]
    base, form = T.split_variant(variant)
    if base == "Atan" and form != "Reg":
        return "Atan2"  # the only opcode whose unary and binary forms share a base name
    return base


def r1_opcode_map(rule, root=None):
    impls = A.find_impls(BC, self_ty="BytecodeOp", trait="From<RegOp>", root=root)
    if len(impls) != 1:
        raise A.AnchorLost("impl From<RegOp> for BytecodeOp")
    fn = [f for f in impls[0]["items"] if f.get("k") == "Fn" and f["name"] == "from"][0]
    fn["_file"] = BC
    ms = O.match_on(fn, "RegOp", min_arms=20)
    if len(ms) != 1:
        raise A.AnchorLost("match in From<RegOp> for BytecodeOp")
    ops = O.enum_variants(BC, "BytecodeOp", root)
    seen = set()
    for variant, _s, arm in O.arms_by_variant(ms[0], "RegOp"):
        if variant is None:
            rule.bad("wildcard", "catch-all arm in From<RegOp> for BytecodeOp", A.where(BC, arm))
            continue
        segs = A.path_segs(A.strip(arm["body"]))
        want = bytecode_name(variant)
        if variant in seen:
            continue  # duplicate (unreachable) arm
        seen.add(variant)
        if not segs or segs[-2:-1] != ["BytecodeOp"] or segs[-1] != want:
            rule.bad(variant, "RegOp::%s is encoded as %s, expected BytecodeOp::%s" % (variant, A.unparse(arm["body"]), want), A.where(BC, arm))
        elif want not in ops:
            rule.bad(variant, "BytecodeOp::%s does not exist" % want, A.where(BC, arm))
        else:
            rule.ok("RegOp::%s -> BytecodeOp::%s" % (variant, want), file=BC, line=arm["ln"])
    for v, _p in O.reg_variants(root):
        if v not in seen:
            rule.bad("%s|missing" % v, "no opcode for RegOp::%s" % v, A.where(BC, ms[0]))


_ROOT = [None]


def _byte(t):
    """`0xFF` / `255` / `u8::MAX` / a named constant with one of those values -> 'u8::MAX'; anything else as is"""
    t = str(t)
    for c in A.find_items(BC, "Const", root=_ROOT[0]):
        if c.get("name") == t and c.get("e") is not None:
            t = str(A.ftxt(c["e"]))
    if re.fullmatch(r"(0[xX][fF][fF]|255)(u8)?|u8::MAX", t):
        return "u8::MAX"
    return t


def _word(t):
    """a named 32-bit constant -> its literal"""
    t = str(t)
    for c in A.find_items(BC, "Const", root=_ROOT[0]):
        if c.get("name") == t and c.get("e") is not None:
            return str(A.ftxt(c["e"]))
    return t


def new_fn(root=None, inline=False):
    _ROOT[0] = root
    """Bytecode::new; with `inline`, its small local helpers (other than the register-byte writer) are read
    in place"""
    fn0 = A.find_fn(BC, "new", self_ty="Bytecode", root=root)
    if not inline:
        return fn0
    try:
        keep = (store_closure(fn0)[0],)
    except A.AnchorLost:
        keep = ()
    fn = dict(fn0)
    fn["body"] = A.inline_helpers(fn0, keep=keep)
    return fn


def store_closure(fn):
    """(name, closure, let) of the register-byte writer `let mut store_reg = |i, r| { .. word[i] = r .. }`"""
    out = []
    for s_ in A.find(fn["body"], "Let"):
        init = A.strip(s_.get("init") or {})
        if init.get("k") == "Closure" and len(init.get("inputs", [])) == 2 and A.binding_name(s_["pat"]):
            if any(A.strip(a["left"]).get("k") == "Index" and A.ident(A.strip(A.strip(a["left"])["e"])) == "word" for a in A.find(init["body"], "Assign")):
                out.append((A.binding_name(s_["pat"]), init, s_))
    if len(out) != 1:
        raise A.AnchorLost("the closure that writes register bytes into `word` (`let mut store_reg = |i, r| ..`) in Bytecode::new")
    return out[0]


def _arm_facts(arm, names, store="store_reg"):
    """store_reg(i, x) calls, word[j] = u8::MAX marks, imm = Some(..), mem_count updates"""
    facts = {"stores": [], "marks": [], "imm": [], "mem": [], "other": []}
    stmts = []
    for s in A.stmts_of(arm["body"]):
        pre, s2 = A.hoist_inlined(s)
        stmts += pre + [s2]
    for s in stmts:
        e = A.strip(A.stmt_expr(s) or {})
        if e.get("k") == "Try":
            e = A.strip(e["e"])
        if e.get("k") == "Call" and A.ident(A.strip(e["func"])) == store and len(e["args"]) == 2:
            facts["stores"].append((A.lit_value(e["args"][0]), A.ident(A.strip(e["args"][1]))))
        elif e.get("k") == "Assign":
            l = A.strip(e["left"])
            r = A.strip(e["right"])
            if l.get("k") == "Index" and A.ident(A.strip(l["e"])) == "word":
                facts["marks"].append((A.lit_value(l["index"]), _byte(A.ftxt(r))))
            elif A.ident(l) == "imm":
                # the second word's value, whether the variable is an Option (None = filler) or the word itself
                if r.get("k") == "Call" and A.path_segs(r["func"]) == ["Some"] and len(r["args"]) == 1:
                    facts["wrapped"] = facts.get("wrapped", 0) + 1
                    r = A.strip(r["args"][0])
                else:
                    facts["plain"] = facts.get("plain", 0) + 1
                facts["imm"].append(A.ftxt(r))
            elif A.ident(l) == "mem_count":
                facts["mem"].append(A.ftxt(r))
            else:
                facts["other"].append(A.unparse(e))
        else:
            facts["other"].append(A.unparse(s)[:60])
    return facts


def _appended(fn):
    """texts of the words appended to `data` per op, in order (push / extend of an array)"""
    loops = [l for l in A.find(fn["body"], "For") if str(A.ftxt(l["iter"])) == "t.iter_asm()"]
    appended = []
    if len(loops) == 1:
        for s_ in loops[0]["body"]["stmts"]:
            e = A.strip(A.stmt_expr(s_) or {})
            if e.get("k") == "MethodCall" and A.ident(A.strip(e["recv"])) == "data":
                if e["method"] == "push" and len(e["args"]) == 1:
                    appended.append(str(A.ftxt(e["args"][0])))
                elif e["method"] in ("extend", "extend_from_slice") and len(e["args"]) == 1:
                    arr = A.strip(e["args"][0])
                    arr = A.strip(arr["e"]) if arr.get("k") == "Ref" else arr
                    if arr.get("k") == "Array":
                        appended += [str(A.ftxt(x)) for x in arr["elems"]]
                    else:
                        appended.append("?" + str(A.ftxt(arr)))
    return appended


def r2_packing(rule, root=None):
    fn = new_fn(root, inline=True)
    ms = O.match_on(fn, "RegOp", min_arms=20)
    if len(ms) != 1:
        raise A.AnchorLost("match over RegOp in Bytecode::new")
    payloads = dict(O.reg_variants(root))
    seen = set()
    MAX = "u8::MAX"
    store_n = store_closure(fn)[0]
    forms = set()
    for variant, subs, arm in O.arms_by_variant(ms[0], "RegOp"):
        if variant is None:
            rule.bad("wildcard", "catch-all arm in Bytecode::new", A.where(fn, arm))
            continue
        seen.add(variant)
        names = [A.binding_name(s) for s in (subs or [])]
        payload = payloads[variant]
        if None in names or len(names) != len(payload):
            rule.bad("%s|pattern" % variant, "arm must bind every payload field", A.where(fn, arm))
            continue
        f = _arm_facts(arm, names, store_n)
        kind = O.variant_kind(variant)
        base, form = T.split_variant(variant)
        bits = lambda n: "%s.to_bits()" % n
        if kind in ("unary", "CopyReg"):
            want = dict(stores=[(1, names[0]), (2, names[1])], marks=[], imm=[], mem=[])
        elif kind == "binary" and form == "RegReg":
            want = dict(stores=[(1, names[0]), (2, names[1]), (3, names[2])], marks=[], imm=[], mem=[])
        elif kind == "binary" and form == "RegImm":
            want = dict(stores=[(1, names[0]), (2, names[1])], marks=[(3, MAX)], imm=[bits(names[2])], mem=[])
        elif kind == "binary" and form == "ImmReg":
            want = dict(stores=[(1, names[0]), (3, names[1])], marks=[(2, MAX)], imm=[bits(names[2])], mem=[])
        elif kind == "CopyImm":
            want = dict(stores=[(1, names[0])], marks=[(2, MAX)], imm=[bits(names[1])], mem=[])
        elif kind in ("Input", "Output"):
            want = dict(stores=[(1, names[0])], marks=[], imm=["%s" % names[1]], mem=[])
        elif kind == "Load":
            want = dict(stores=[(1, names[0])], marks=[(2, MAX)], imm=["(%s-mem_offset)" % names[1]],
                        mem=["mem_count.max(((%s+1)-mem_offset))" % names[1]])
        elif kind == "Store":
            want = dict(stores=[(2, names[0])], marks=[(1, MAX)], imm=["(%s-mem_offset)" % names[1]],
                        mem=["mem_count.max(((%s+1)-mem_offset))" % names[1]])
        else:
            rule.bad(variant, "no packing expectation for %s" % variant, A.where(fn, arm))
            continue
        probs = []
        for k in ("stores", "marks", "imm", "mem"):
            got = sorted(f[k], key=str)
            w = sorted(want[k], key=str)
            if got != w:
                probs.append("%s are %s, the documented layout of a %s op needs %s" % (k, got, form or kind, w))
        if f["other"]:
            probs.append("unrecognised statements %s" % f["other"][:2])
        if f.get("wrapped"):
            forms.add("Some")
        if f.get("plain"):
            forms.add("plain")
        if probs:
            for p in probs:
                rule.bad("%s|%s" % (variant, p[:30]), "RegOp::%s: %s" % (variant, p), A.where(fn, arm))
        else:
            rule.ok("RegOp::%s packs %s" % (variant, want["stores"]), file=BC, line=arm["ln"])
    for v in payloads:
        if v not in seen:
            rule.bad("%s|missing" % v, "Bytecode::new has no arm for RegOp::%s" % v, A.where(fn, ms[0]))
    # the immediate variable is used one way throughout: Option (unset = filler at the push) or the word itself
    # (initialised to the filler)
    init = None
    for s_ in A.find(fn["body"], "Let"):
        if A.binding_name(s_["pat"]) == "imm" and s_.get("init") is not None:
            init = A.strip(s_["init"])
    push_imm = [p for p in _appended(fn) if p.startswith("imm")]
    filler = None
    if forms == {"Some"} and init is not None and A.ident(init) == "None" and len(push_imm) == 1:
        m_ = re.fullmatch(r"imm\.unwrap_or\((\w+)\)", push_imm[0])
        filler = _word(m_.group(1)) if m_ else None
    elif forms == {"plain"} and init is not None and init.get("k") == "Lit" and push_imm == ["imm"]:
        filler = init.get("s")
    elif forms == {"plain"} and init is not None and A.ident(init) and push_imm == ["imm"]:
        filler = _word(A.ident(init))
    fv = None
    try:
        fv = int(re.sub(r"(u32|_)", "", filler or ""), 0)
    except ValueError:
        pass
    if fv == 0xFF000000:
        rule.ok("the second word is the arm's immediate, else the filler 0xFF000000", file=BC, line=fn["ln"])
    else:
        rule.bad("imm|filler", "an op without an immediate must carry the filler word 0xFF000000, and `imm` must be used one way throughout (assignments %s, initialiser `%s`, pushed as %s)" % (sorted(forms), A.unparse(init) if init else None, push_imm), A.where(fn))


def _reserved_rejected(cl, r, pi):
    """the closure yields Err(ReservedRegister) exactly when the repacked register is 0xFF and writes the
    byte only otherwise (if / else or early return)"""
    errs = [(v, c) for v, c in A.result_cases(cl["body"]) if str(A.ftxt(v)) == "Err(ReservedRegister)"]
    def nb(c_):
        m_ = re.fullmatch(r"(!?)\(?(\w+(?:::\w+)?)(==|!=)(\w+(?:::\w+)?)\)?", c_)
        return "%s(%s%s%s)" % (m_.group(1), *sorted([_byte(m_.group(2)), _byte(m_.group(4))])[:1], m_.group(3), sorted([_byte(m_.group(2)), _byte(m_.group(4))])[1]) if m_ else c_

    if len(errs) != 1 or [nb(A.norm_cond(x)) for x in errs[0][1]] != [nb("%s==u8::MAX" % r)]:
        return False
    writes = [a for a in A.find(cl["body"], "Assign") if str(A.ftxt(a["left"])) == "word[%s]" % pi]
    if len(writes) != 1:
        return False
    conj = A.path_conjuncts(cl["body"], writes[0]) or set()
    return nb("(%s!=u8::MAX)" % r) in {nb(c) for c in conj}


def r3_store_reg(rule, root=None):
    fn = new_fn(root)
    name, cl, let = store_closure(fn)
    pi, pr = [A.binding_name(p) for p in cl["inputs"]]
    t = A.ftxt(cl["body"])
    mapn = A.ftxt(fn["body"]).fmatch("let$M=t.asm().repack_map();")
    mapn = mapn["$M"] if mapn else "map"
    m = t.fmatch("let$R=%s[&%s];" % (mapn, pr))
    need = {
        "repacked through the frequency map": m is not None,
        "reserved register rejected": m is not None and _reserved_rejected(cl, m["$R"], pi),
        "reg_count covers the register": m is not None and t.fmatch("reg_count=reg_count.max(($R+1))", bind=m) is not None,
        "byte written at the requested index": m is not None and t.fmatch("word[%s]=$R" % pi, bind=m) is not None,
    }
    for what, okf in need.items():
        if okf:
            rule.ok("store_reg: %s" % what, file=BC, line=let["ln"])
        else:
            rule.bad("store_reg|%s" % what, "the register-byte writer `%s` no longer does: %s" % (name, what), A.where(fn, let))
    # register bytes are written only through the closure: any other word[..] = x must be the 0xFF mark or the
    # opcode; byte 0 is the opcode tag whether it is assigned or given in the initialiser
    byte0 = None
    for s_ in A.find(fn["body"], "Let"):
        if A.binding_name(s_["pat"]) == "word" and s_.get("init") is not None:
            init = A.strip(s_["init"])
            if init.get("k") == "Array" and len(init.get("elems", [])) == 4:
                byte0 = str(A.ftxt(A.strip(init["elems"][0])))
    for a in A.find(fn["body"], "Assign"):
        l = A.strip(a["left"])
        if l.get("k") == "Index" and A.ident(A.strip(l["e"])) == "word":
            if any(n is a for n in A.walk(cl)):
                continue
            r = A.ftxt(A.strip(a["right"]))
            i = A.lit_value(l["index"])
            if _byte(r) == "u8::MAX" and i in (1, 2, 3):
                continue
            if i == 0:
                byte0 = str(r)
                continue
            rule.bad("word|direct|%s" % i, "word[%s] is written directly with `%s` (register bytes must go through %s; byte 0 must be BytecodeOp::from(op) as u8)" % (i, r, name), A.where(fn, a))
    if byte0 == "(BytecodeOp::from(op)asu8)":
        rule.ok("word[0] is the opcode tag of this op", file=BC, line=fn["ln"])
    else:
        rule.bad("word|direct|0", "byte 0 of every instruction word must be `BytecodeOp::from(op) as u8`, found `%s`" % byte0, A.where(fn))
    # the map comes from the tape's own repack_map
    t = A.ftxt(fn["body"])
    if "letmap=t.asm().repack_map();" in t:
        rule.ok("register map is t.asm().repack_map()")
    else:
        rule.bad("map", "the register map must be `t.asm().repack_map()`", A.where(fn))
    if "letmem_offset=N.try_into().unwrap();" in t:
        rule.ok("memory slots are rebased by the register budget N")
    else:
        rule.bad("mem_offset", "mem_offset must be the register budget N", A.where(fn))


def _w32(t):
    t = _word(str(t))
    if re.fullmatch(r"0(u32)?|0x0+(u32)?", t):
        return "0"
    if re.fullmatch(r"u32::MAX|0[xX][fF]{8}(u32)?|0[xX][fF]{4}_[fF]{4}(u32)?|4294967295(u32)?|!0(u32)?", t):
        return "u32::MAX"
    return t


def _marker_words(fn):
    """words appended to `data` before and after the per-op loop at the top level of Bytecode::new, plus
    whether anything else touches `data` after the loop"""
    stmts = fn["body"]["stmts"]
    loop_i = [i for i, s_ in enumerate(stmts) if A.strip(A.stmt_expr(s_) or {}).get("k") == "For" and str(A.ftxt(A.strip(A.stmt_expr(s_))["iter"])) == "t.iter_asm()"]
    if len(loop_i) != 1:
        return None, None, True
    li = loop_i[0]

    def words_of(arr):
        arr = A.strip(arr)
        arr = A.strip(arr["e"]) if arr.get("k") == "Ref" else arr
        if arr.get("k") == "Array":
            return [_w32(A.ftxt(x)) for x in arr["elems"]]
        if arr.get("k") == "Macro" and arr.get("name") == "vec":
            txt_ = A.tokens_str(arr["tokens"]).replace(" ", "")
            return [_w32(x) for x in txt_.split(",") if x] if ";" not in txt_ else ["?" + txt_]
        return ["?" + str(A.ftxt(arr))]

    pre, post, stray = [], [], False
    for i, s_ in enumerate(stmts):
        if i == li:
            continue
        tgt = pre if i < li else post
        if s_.get("k") == "Let" and A.binding_name(s_["pat"]) == "data" and s_.get("init") is not None:
            init = A.strip(s_["init"])
            it = str(A.ftxt(init))
            if init.get("k") == "Macro" and init.get("name") == "vec":
                tgt += words_of(init)
            elif re.fullmatch(r"(Vec|Vec::<u32>)::(new\(\)|with_capacity\(.*\))|vec!\(\)", it):
                pass
            else:
                tgt.append("?" + it)
            continue
        e = A.strip(A.stmt_expr(s_) or {})
        if e.get("k") == "MethodCall" and A.ident(A.strip(e["recv"])) == "data":
            if e["method"] == "push" and len(e["args"]) == 1:
                tgt.append(_w32(A.ftxt(e["args"][0])))
                continue
            if e["method"] in ("extend", "extend_from_slice") and len(e["args"]) == 1:
                tgt += words_of(e["args"][0])
                continue
            if e["method"] in ("reserve", "len", "capacity", "shrink_to_fit"):
                continue
            if i > li:
                stray = True
            continue
        if i > li and s_.get("k") != "Macro" and re.search(r"(?<![\w.])data\.(?!len\(\))\w+\(", str(A.ftxt(s_))) and "data," not in A.unparse(s_) and not str(A.ftxt(s_)).startswith(("debug_assert", "assert")):
            stray = True
    return pre, post, stray


def r4_framing(rule, root=None):
    fn = new_fn(root)
    t = A.ftxt(fn["body"])
    if "foropint.iter_asm()" in t:
        rule.ok("framing: tape walked in evaluation order", file=BC, line=fn["ln"])
    else:
        rule.bad("framing|tape walked in evaluation order", "Bytecode::new no longer contains `for op in t.iter_asm()` (tape walked in evaluation order)", A.where(fn))
    pre, post, stray = _marker_words(fn)
    if pre == ["u32::MAX", "0"]:
        rule.ok("framing: start marker", file=BC, line=fn["ln"])
    else:
        rule.bad("framing|start marker", "Bytecode::new must start the stream with the words [u32::MAX, 0] (found %s)" % pre, A.where(fn))
    if post == ["u32::MAX", "u32::MAX"]:
        rule.ok("framing: end marker", file=BC, line=fn["ln"])
    else:
        rule.bad("framing|end marker", "Bytecode::new must end the stream with the words [u32::MAX, u32::MAX] (found %s)" % post, A.where(fn))
    # per op: register bytes default to 0xFF; exactly two words are appended, the little-endian instruction
    # word and then the immediate (however they are appended)
    loops = [l for l in A.find(fn["body"], "For") if str(A.ftxt(l["iter"])) == "t.iter_asm()"]
    defaults = None
    appended = []
    if len(loops) == 1:
        for s_ in loops[0]["body"]["stmts"]:
            if s_.get("k") == "Let" and A.binding_name(s_["pat"]) == "word" and s_.get("init") is not None:
                init = A.strip(s_["init"])
                if init.get("k") == "Repeat":
                    defaults = [str(A.ftxt(init["e"]))] * 3 if str(A.ftxt(init.get("len") or {})) in ("4", "") or True else None
                elif init.get("k") == "Array" and len(init["elems"]) == 4:
                    defaults = [str(A.ftxt(x)) for x in init["elems"][1:]]
            e = A.strip(A.stmt_expr(s_) or {})
            if e.get("k") == "MethodCall" and A.ident(A.strip(e["recv"])) == "data":
                if e["method"] == "push" and len(e["args"]) == 1:
                    appended.append(str(A.ftxt(e["args"][0])))
                elif e["method"] in ("extend", "extend_from_slice") and len(e["args"]) == 1:
                    arr = A.strip(e["args"][0])
                    arr = A.strip(arr["e"]) if arr.get("k") == "Ref" else arr
                    if arr.get("k") == "Array":
                        appended += [str(A.ftxt(x)) for x in arr["elems"]]
                    else:
                        appended.append("?" + str(A.ftxt(arr)))
    if defaults is not None and all(_byte(d) == "u8::MAX" for d in defaults):
        rule.ok("framing: all bytes default to 0xFF", file=BC, line=fn["ln"])
    else:
        rule.bad("framing|all bytes default to 0xFF", "the register bytes of an instruction word must default to 0xFF (found %s)" % defaults, A.where(fn))
    if len(appended) == 2 and appended[0] == "u32::from_le_bytes(word)":
        rule.ok("framing: first word little-endian", file=BC, line=fn["ln"])
    else:
        rule.bad("framing|first word little-endian", "each op must append `u32::from_le_bytes(word)` first (appends: %s)" % appended, A.where(fn))
    if len(appended) == 2 and (appended[1].startswith("imm.unwrap_or(") or appended[1] == "imm"):
        rule.ok("framing: second word is the immediate", file=BC, line=fn["ln"])
    else:
        rule.bad("framing|second word is the immediate", "each op must append the immediate (or its filler) second (appends: %s)" % appended, A.where(fn))
    # the end marker is the last mutation of data
    if post and not stray:
        rule.ok("end marker follows the loop and nothing mutates data afterwards")
    else:
        rule.bad("framing|order", "the end marker must be appended after the loop, as the last mutation of data", A.where(fn))
    # opcode numbering: repr(u8), no explicit discriminants, iter_ops numbers by position
    e = A.find_item(BC, "EnumDef", "BytecodeOp", root)
    if not any(a.replace(" ", "") == "repr(u8)" for a in e.get("attrs", [])):
        rule.bad("enum|repr", "BytecodeOp must be #[repr(u8)]", A.where(BC, e))
    else:
        rule.ok("BytecodeOp is repr(u8)")
    disc = [v["name"] for v in e["variants"] if "disc" in v]
    io = A.find_fn(BC, "iter_ops", root=root)
    it = A.ftxt(io["body"])
    by_position = ".enumerate()" in it and "(iasu8)" in it
    by_value = "asu8" in it and not by_position
    if disc and by_position:
        rule.bad("enum|disc", "BytecodeOp::%s has an explicit discriminant but iter_ops numbers opcodes by position: the advertised table and the emitted byte disagree" % disc[0], A.where(BC, e))
    elif not (by_position or by_value):
        rule.bad("iter_ops", "iter_ops must pair each name with its numeric tag", A.where(io))
    else:
        rule.ok("iter_ops numbering equals the emitted opcode byte (no explicit discriminants)", file=BC, line=io["ln"])
    if len(e["variants"]) > 255:
        rule.bad("enum|count", "more than 255 opcodes: 0xFF is reserved", A.where(BC, e))


def _repack_all(rt):
    """`V.visit_regs_mut(|r| *r = map[r])` for every V of `self.tape` (a for loop over `&mut self.tape` /
    `self.tape.iter_mut()`, or `.iter_mut().for_each(|V| ..)`), with nothing that skips elements"""
    calls = [c for c in A.find(rt["body"], "MethodCall") if c["method"] == "visit_regs_mut" and len(c["args"]) == 1]
    if len(calls) != 1:
        return False
    c = calls[0]
    cl = A.strip(c["args"][0])
    if cl.get("k") != "Closure" or len(cl.get("inputs") or []) != 1:
        return False
    r = A.binding_name(cl["inputs"][0])
    if str(A.ftxt(A.strip(cl["body"]))).strip("{};") not in ("*%s=map[%s]" % (r, r), "(*%s=map[%s])" % (r, r), "*%s=map[&*%s]" % (r, r)):
        return False
    v = A.ident(A.strip(c["recv"]))
    if not v:
        return False
    for l in A.find(rt["body"], "For"):
        if A.binding_name(l["pat"]) == v and str(A.ftxt(l["iter"])) in ("&mutself.tape", "self.tape.iter_mut()", "(&mutself.tape)") and any(n is c for n in A.walk(l["body"])):
            bad = [n for n in A.walk(l["body"]) if isinstance(n, dict) and n.get("k") in ("Break", "Continue", "Return", "If", "Match")]
            return not bad
    for fe in A.find(rt["body"], "MethodCall"):
        if fe["method"] == "for_each" and len(fe["args"]) == 1 and str(A.ftxt(fe["recv"])) == "self.tape.iter_mut()":
            f = A.strip(fe["args"][0])
            if f.get("k") == "Closure" and len(f.get("inputs") or []) == 1 and A.binding_name(f["inputs"][0]) == v and any(n is c for n in A.walk(f["body"])):
                bad = [n for n in A.walk(f["body"]) if isinstance(n, dict) and n.get("k") in ("Return", "If", "Match")]
                return not bad
    return False


def r5_visit_regs(rule, root=None):
    """RegTape::repack relies on visit_regs / visit_regs_mut touching every register
    field (and only register fields) of every variant"""
    payloads = dict(O.reg_variants(root))
    for fname in ("visit_regs_mut", "visit_regs"):
        fn = A.find_fn(O.OP_RS, fname, self_ty="RegOp", root=root)
        ms = O.match_on(fn, "RegOp", min_arms=20)
        if len(ms) != 1:
            rule.lost("match in RegOp::%s" % fname)
            continue
        cb = [A.binding_name(i["pat"]) for i in fn["sig"]["inputs"] if "pat" in i][-1]
        seen = set()
        for variant, subs, arm in O.arms_by_variant(ms[0], "RegOp"):
            if variant is None:
                rule.bad("%s|wildcard" % fname, "catch-all arm in RegOp::%s" % fname, A.where(fn, arm))
                continue
            seen.add(variant)
            names = [A.binding_name(s) for s in (subs or [])]
            payload = payloads[variant]
            want = sorted(n for n, p in zip(names, payload) if p in ("$t", "u8"))
            if None in names or len(names) != len(payload):
                rule.bad("%s|%s|pattern" % (fname, variant), "arm must bind every field", A.where(fn, arm))
                continue
            got = []
            for c in A.find(arm["body"], "Call"):
                if A.ident(A.strip(c["func"])) == cb and len(c["args"]) == 1:
                    got.append(A.ident(A.strip(c["args"][0])))
            if sorted(got, key=str) != want:
                rule.bad("%s|%s" % (fname, variant), "RegOp::%s: %s visits %s, the register fields are %s" % (variant, fname, got, want), A.where(fn, arm))
            else:
                rule.ok("%s RegOp::%s visits %s" % (fname, variant, want))
        for v in payloads:
            if v not in seen:
                rule.bad("%s|%s|missing" % (fname, v), "RegOp::%s has no arm for %s" % (fname, v), A.where(fn, ms[0]))
    rt = A.find_fn("fidget-core/src/compiler/reg_tape.rs", "repack", self_ty="RegTape", root=root)
    t = A.ftxt(rt["body"])
    if _repack_all(rt):
        rule.ok("repack rewrites every register of every op through the map")
    else:
        rule.bad("repack", "RegTape::repack must map every register of every op", A.where(rt))


def run(ctx):
    r = ctx.rule("R1", "each RegOp is encoded with its namesake BytecodeOp", 54)
    ctx.guarded(r, r1_opcode_map)
    r = ctx.rule("R2", "byte layout per operand form: registers via store_reg, 0xFF marks, immediates, mem rebasing", 54)
    ctx.guarded(r, r2_packing)
    r = ctx.rule("R3", "register bytes only through store_reg (reserved register, reg_count, repack map)", 7)
    ctx.guarded(r, r3_store_reg)
    r = ctx.rule("R4", "framing markers, word order and opcode numbering", 9)
    ctx.guarded(r, r4_framing)
    r = ctx.rule("R5", "visit_regs/visit_regs_mut cover exactly the register fields (repacking)", 109)
    ctx.guarded(r, r5_visit_regs)
    from .. import wgslrules as WR

    r = ctx.rule("R6", "the shader that consumes the bytecode decodes it the way it is encoded (bytes, immediate flag, dispatch, framing)", 41)
    ctx.guarded(r, WR.r_decoder)
