"""C18 - view manipulation (structural part)."""
import re

from .. import ast as A
from .. import effects as E

GUI = "fidget-gui/src/lib.rs"


def vfn(ty, name, root=None):
    return A.find_fn(GUI, name, self_ty=ty, root=root)


def txt(n):
    return A.ftxt(n)


def field_writes(fn):
    """self.<field> assignment targets (plain and compound) in a method body"""
    out = []
    for n in A.walk(fn["body"]):
        tgt = None
        if n.get("k") == "Assign":
            tgt = n["left"]
        elif n.get("k") == "Binary" and n["op"] in ("+=", "-=", "*=", "/=", "%="):
            tgt = n["left"]
        if n.get("k") == "Call" and (A.path_segs(n["func"]) or [])[-2:] in (["mem", "replace"], ["mem", "swap"], ["mem", "take"]) and n["args"]:
            # writes through `&mut self.field`
            a0 = n["args"][0]
            if a0.get("k") == "Ref" and a0.get("mut"):
                tgt = a0["e"]
        if n.get("k") == "Ref" and n.get("mut") and tgt is None:
            # any other `&mut self.field` handed out: counted as a possible write
            r0 = A.strip(n["e"])
            if r0.get("k") == "Field" and A.ident(A.strip(r0["e"])) == "self":
                tgt = n["e"]
        if tgt is not None:
            t = A.strip(tgt)
            while t.get("k") in ("Field", "Index") and not (t.get("k") == "Field" and A.ident(A.strip(t["e"])) == "self"):
                t = A.strip(t["e"])
            if t.get("k") == "Field" and A.ident(A.strip(t["e"])) == "self":
                out.append(t["member"])
    return sorted(set(out), key=out.index)


def _factors(e):
    e = A.unblock(e)
    if e.get("k") == "Binary" and e["op"] == "*":
        return _factors(e["left"]) + _factors(e["right"])
    return [str(A.ftxt(A.unblock(e)))]


def r1_matrix(rule, root=None):
    """world_to_model is the product translation x (rotation x) scale of the view's own components, read with
    private helpers expanded (whether or not scale / translation have their own helper functions)"""
    for ty, dim in (("View2", "3"), ("View3", "4")):
        fn0 = vfn(ty, "world_to_model", root)
        body = A.inline_helpers(fn0, keep=("rot_mat",))
        fs = _factors(body)
        want = ["Matrix%s::new_translation(&self.center)" % dim] + (["self.rot_mat()"] if ty == "View3" else []) + ["Matrix%s::new_scaling(self.scale)" % dim]
        if fs == want:
            rule.ok("%s::world_to_model = translate x %sscale" % (ty, "rotate x " if ty == "View3" else ""), file=GUI, line=fn0["ln"])
            rule.ok("%s: scale factor is built from self.scale" % ty)
            rule.ok("%s: translation is built from self.center" % ty)
        else:
            rule.bad("%s|world_to_model" % ty, "%s::world_to_model is the product %s; it must be translation(center) x %sscaling(scale)" % (ty, fs, "rotation x " if ty == "View3" else ""), A.where(fn0))
        f = vfn(ty, "transform_point", root)
        if txt(f["body"]) == "{self.world_to_model().transform_point(p)}":
            rule.ok("%s::transform_point applies world_to_model" % ty)
        else:
            rule.bad("%s|transform_point" % ty, "%s::transform_point must apply world_to_model" % ty, A.where(f))
    f = vfn("View3", "rot_mat", root)
    t = txt(A.inline_lets_deep(f["body"]))
    m = re.fullmatch(r"\{\(Matrix4::from_axis_angle\(&nalgebra::Unit::new_normalize\(Vector3::new\(0\.0,0\.0,1\.0\)\),self\.yaw\)\*Matrix4::from_axis_angle\(&nalgebra::Unit::new_normalize\(Vector3::new\(1\.0,0\.0,0\.0\)\),self\.pitch\)\)\}", t)
    if not m:
        from .. import effects as E

        st_ = f["body"]["stmts"]
        tl_ = A.stmt_expr(st_[-1]) if st_ and not st_[-1].get("semi") else None
        cn = E.canon(tl_, E.let_env(st_[:-1])) if tl_ is not None else ""
        m = re.sub(r"(?<=\d)\.0\b", ".0", cn) == "(Matrix4::from_axis_angle(nalgebra::Unit::new_normalize(Vector3::new(0.0,0.0,1.0)),self.yaw)*Matrix4::from_axis_angle(nalgebra::Unit::new_normalize(Vector3::new(1.0,0.0,0.0)),self.pitch))"
    if m:
        rule.ok("View3::rot_mat = yaw about Z x pitch about X")
    else:
        rule.bad("View3|rot_mat", "View3::rot_mat must be yaw about +Z times pitch about +X", A.where(f))


def r2_write_sets(rule, root=None):
    want = {
        ("View2", "translate"): {"center"}, ("View2", "zoom"): {"scale", "center"},
        ("View3", "translate"): {"center"}, ("View3", "zoom"): {"scale", "center"}, ("View3", "rotate"): {"yaw", "pitch"},
    }
    for (ty, name), w in want.items():
        fn = vfn(ty, name, root)
        got = set(field_writes(fn))
        if got == w:
            rule.ok("%s::%s writes only %s" % (ty, name, sorted(w)), file=GUI, line=fn["ln"])
        else:
            rule.bad("%s|%s|writes" % (ty, name), "%s::%s writes %s; it may only change %s" % (ty, name, sorted(got), sorted(w)), A.where(fn))
    # read-only methods
    for ty in ("View2", "View3"):
        for name in ("world_to_model", "transform_point", "begin_translate", "components"):
            fn = vfn(ty, name, root)
            if field_writes(fn) or "mut" in (fn["sig"]["inputs"][0].get("self") or ""):
                rule.bad("%s|%s|readonly" % (ty, name), "%s::%s must not modify the view" % (ty, name), A.where(fn))
            else:
                rule.ok("%s::%s is read-only" % (ty, name))


def r3_changed_flags(rule, root=None):
    for ty in ("View2", "View3"):
        fn = vfn(ty, "translate", root)
        t = txt(fn["body"])
        sm = E.summary(fn)
        wr = [(x[2], x[3]) for x in sm if x[0] == "write" and not x[1]]
        rt = [x[2] for x in sm if x[0] == "return" and not x[1]]
        if wr == [("self.center", "h.center(pos)")] and rt == ["(h.center(pos)!=self.center)"] and len(sm) == 2:
            rule.ok("%s::translate reports changed iff the new centre differs from the old one (compared before the assignment)" % ty, file=GUI, line=fn["ln"])
        else:
            rule.bad("%s|translate|changed" % ty, "%s::translate must compute `changed` from the old centre before assigning the value it compares" % ty, A.where(fn))
        fn = vfn(ty, "zoom", root)
        tail = txt(fn["body"]["stmts"][-1])
        if tail == "(amount!=1.0)":
            rule.ok("%s::zoom reports changed iff the factor is not 1" % ty)
        else:
            rule.bad("%s|zoom|changed" % ty, "%s::zoom must report `amount != 1.0`" % ty, A.where(fn))
    fn = vfn("View3", "rotate", root)
    why = _rotate_problem(fn)
    if why is not None:
        # the same facts on the effect summary: both fields written from their own handle method, and the
        # result is (new yaw != old yaw) || (new pitch != old pitch) - in any equivalent boolean spelling
        sm = E.summary(fn)
        wr = sorted((x[2], x[3]) for x in sm if x[0] == "write" and not x[1])
        rt = [x[2] for x in sm if x[0] == "return" and not x[1]]
        if wr == [("self.pitch", "h.pitch(pos.y)"), ("self.yaw", "h.yaw(pos.x)")] and rt == ["((h.pitch(pos.y)!=self.pitch)||(h.yaw(pos.x)!=self.yaw))"] and len(sm) == 3:
            why = None
    if why is None:
        rule.ok("View3::rotate: yaw from x, pitch from y, changed computed before the assignments", file=GUI, line=fn["ln"])
    else:
        rule.bad("View3|rotate", "View3::rotate must take yaw from pos.x and pitch from pos.y, compare both with the old values and only then assign them (%s)" % why, A.where(fn))


def _rotate_problem(fn):
    """None when: Y = h.yaw(pos.x), P = h.pitch(pos.y), changed = (Y != self.yaw) || (P != self.pitch)
    evaluated before `self.yaw = Y` and `self.pitch = P`, and `changed` is returned (statement order
    among independent statements is free)"""
    stmts = fn["body"]["stmts"]
    lets = {}
    assigns = {}
    for idx, s in enumerate(stmts):
        if s.get("k") == "Let" and A.binding_name(s["pat"]) and s.get("init") is not None:
            lets[A.binding_name(s["pat"])] = (idx, s["init"])
        else:
            e = A.strip(A.stmt_expr(s) or {})
            if e.get("k") == "Assign":
                assigns[str(txt(e["left"]))] = (idx, e["right"])
    def resolve(e):
        e = A.strip(e)
        n = A.ident(e)
        return str(txt(lets[n][1])) if n in lets else str(txt(e))
    if set(assigns) != {"self.yaw", "self.pitch"}:
        return "assigns %s" % sorted(assigns)
    if resolve(assigns["self.yaw"][1]) != "h.yaw(pos.x)":
        return "yaw is %s" % resolve(assigns["self.yaw"][1])
    if resolve(assigns["self.pitch"][1]) != "h.pitch(pos.y)":
        return "pitch is %s" % resolve(assigns["self.pitch"][1])
    tail = stmts[-1]
    tn = A.ident(A.strip(A.stmt_expr(tail) or {})) if not tail.get("semi", True) else None
    if tn not in lets:
        return "the result is not a local computed before the assignments"
    cidx, cinit = lets[tn]
    if cidx > min(assigns["self.yaw"][0], assigns["self.pitch"][0]):
        return "`%s` is computed after an assignment" % tn
    c = A.strip(cinit)
    if c.get("k") != "Binary" or c["op"] != "||":
        return "changed is `%s`" % txt(cinit)
    parts = set()
    for side in (c["left"], c["right"]):
        b = A.strip(side)
        if b.get("k") != "Binary" or b["op"] != "!=":
            return "changed is `%s`" % txt(cinit)
        parts.add(frozenset((resolve(b["left"]), resolve(b["right"]))))
    if parts != {frozenset(("h.yaw(pos.x)", "self.yaw")), frozenset(("h.pitch(pos.y)", "self.pitch"))}:
        return "changed compares %s" % sorted(sorted(p) for p in parts)
    return None


def _norm_dim(s):
    return re.sub(r"Point[23]|Vector[23]|TranslateHandle<[23]>|Matrix[34]", "T", s)


def r4_siblings(rule, root=None):
    for name in ("zoom", "translate", "begin_translate", "transform_point", "rebase_translate"):
        a, b = vfn("View2", name, root), vfn("View3", name, root)
        if _norm_dim(txt(a["body"])) == _norm_dim(txt(b["body"])):
            rule.ok("View2::%s and View3::%s are the same modulo dimension" % (name, name), file=GUI, line=a["ln"])
        else:
            rule.bad("sibling|%s" % name, "View2::%s and View3::%s differ beyond their dimension; one of them is wrong" % (name, name), A.where(b))
    want = "{matchpos{Some(before)=>{letpos_before=self.transform_point(&before);(self.scale*=amount);letpos_after=self.transform_point(&before);(self.center+=(pos_before-pos_after));},None=>{(self.scale*=amount);},}(amount!=1.0)}"
    for ty in ("View2", "View3"):
        fn = vfn(ty, "zoom", root)
        t = txt(fn["body"])
        alt_b = t.fmatch("{let$A=pos.map(|$P|($P,self.transform_point(&$P)));(self.scale*=amount);ifletSome(($Q,$B))=$A{let$C=self.transform_point(&$Q);(self.center+=($B-$C));}(amount!=1.0)}") is not None
        if alt_b or t.replace("}None", "},None").replace(",}(", ",}(") == want or t == want or t.replace("}None", "},None") == want.replace(",}(amount", "}(amount") or _zoom_ok(fn):
            rule.ok("%s::zoom re-centres by (model point under the cursor before) - (after), through the full matrix" % ty)
        else:
            rule.bad("%s|zoom|recenter" % ty, "%s::zoom must transform the cursor point through the full world_to_model before and after scaling and add the difference to the centre" % ty, A.where(fn))
    for n in (2, 3):
        fn = A.find_fn(GUI, "center", self_ty="TranslateHandle<%d>" % n, root=root) if False else None
    d = A.load(GUI, root)
    cs = [f for f in d["_fns"] if f["name"] == "center" and not f["_test"]]
    if len(cs) == 2 and all(txt(f["body"]) == "{letpos_model=self.initial_mat.transform_point(&pos);(self.initial_center-(pos_model-self.start))}" for f in cs):
        rule.ok("TranslateHandle::center = initial centre - (cursor in the initial frame - grab point)")
    else:
        rule.bad("handle|center", "TranslateHandle::center must be initial_center - (initial_mat * pos - start)", "%s:%s" % (GUI, cs[0]["ln"] if cs else "?"))
    for ty in ("View2", "View3"):
        fn = vfn(ty, "begin_translate", root)
        st = list(A.find(fn["body"], "Struct"))
        f = {x["name"]: txt(x["e"]) for x in st[0]["fields"]} if st else {}
        if f == {"start": "initial_mat.transform_point(&start)", "initial_mat": "initial_mat", "initial_center": "self.center"} and "letinitial_mat=self.world_to_model();" in txt(fn["body"]):
            rule.ok("%s::begin_translate grabs the model point under the cursor in the current frame" % ty)
        else:
            rule.bad("%s|begin_translate" % ty, "%s::begin_translate must record the current matrix, the grabbed model point and the current centre" % ty, A.where(fn))


def _zoom_ok(fn):
    """structural version of the zoom shape check"""
    ms = list(A.find(fn["body"], "Match"))
    if len(ms) != 1:
        return False
    some = [a for a in ms[0]["arms"] if txt(a["pat"]).startswith("Some(")]
    none = [a for a in ms[0]["arms"] if txt(a["pat"]) == "None"]
    if len(some) != 1 or len(none) != 1:
        return False
    v = A.binding_name(some[0]["pat"]["elems"][0])
    want = "{letpos_before=self.transform_point(&%s);(self.scale*=amount);letpos_after=self.transform_point(&%s);(self.center+=(pos_before-pos_after));}" % (v, v)
    nseq = [txt(s) for s in A.stmts_of(none[0]["body"])]
    return txt(some[0]["body"]) == want and nseq == ["(self.scale*=amount);"]


def r5_handles(rule, root=None):
    fn = A.find_fn(GUI, "yaw", self_ty="RotateHandle", root=root)
    t = txt(fn["body"])
    def value_of(f_):
        """what the function returns, with naming lets read through and std constants by their own name"""
        st_ = [s_ for s_ in f_["body"]["stmts"] if s_.get("k") != "Use"]
        tail_ = A.stmt_expr(st_[-1]) if st_ and not st_[-1].get("semi", True) else None
        return E.canon(tail_, E.let_env(st_[:-1])) if tail_ is not None else ""

    if value_of(fn) == "((self.initial_yaw+((self.start.x-x)*ROTATE_SPEED))%TAU)":
        rule.ok("yaw = (initial + drag) mod one turn (the whole sum is wrapped)", file=GUI, line=fn["ln"])
    else:
        rule.bad("yaw", "RotateHandle::yaw must wrap the whole sum, i.e. (initial_yaw + delta) modulo TAU; found `%s`" % t, A.where(fn))
    fn = A.find_fn(GUI, "pitch", self_ty="RotateHandle", root=root)
    t = txt(fn["body"])
    if value_of(fn) == "(self.initial_pitch+((y-self.start.y)*ROTATE_SPEED)).clamp(0.0,PI)":
        rule.ok("pitch = clamp(initial + drag, 0, pi) (the whole sum is clamped)", file=GUI, line=fn["ln"])
    else:
        rule.bad("pitch", "RotateHandle::pitch must clamp the whole sum to [0, PI]; found `%s`" % t, A.where(fn))
    fn = vfn("View3", "begin_rotate", root)
    st = list(A.find(fn["body"], "Struct"))
    f = {x["name"]: txt(x["e"]) for x in st[0]["fields"]} if st else {}
    if f == {"start": "start", "initial_yaw": "self.yaw", "initial_pitch": "self.pitch"}:
        rule.ok("begin_rotate records the current yaw and pitch under their own names")
    else:
        rule.bad("begin_rotate", "begin_rotate must record start, self.yaw as initial_yaw and self.pitch as initial_pitch; found %s" % f, A.where(fn))


def _interact_paths_ok(fn):
    """Canvas::interact, whatever the shape of its case analysis over the cursor state: on every path either
    a drag is (idempotently) begun and continued with its flag OR-ed into the result, or the drag is ended;
    the zoom flag is OR-ed in afterwards on every path and the accumulated flag is returned"""
    body = fn["body"]
    ms = [m for m in A.find(body, "Match") if A.ident(A.strip(m["e"])) == "cursor_state"]
    if len(ms) != 1:
        return False

    def paths(n):
        n = A.strip(n) if isinstance(n, dict) else n
        k = n.get("k")
        if k == "Match":
            out = []
            for arm in n["arms"]:
                out += paths(arm["body"])
            return out
        if k == "If":
            out = paths(n["then"])
            out += paths(n["else"]) if n.get("else") is not None else [""]
            return out
        if k == "Block":
            acc = [""]
            for s_ in n["stmts"]:
                e_ = A.strip(A.stmt_expr(s_) or {}) if s_.get("k") != "Let" else A.strip(s_.get("init") or {})
                sub = paths(e_) if e_.get("k") in ("If", "Match", "Block") else [str(txt(s_))]
                acc = [a_ + b_ for a_ in acc for b_ in sub]
            return acc
        return [str(txt(n))]

    flag = None
    for p in paths(ms[0]):
        drag = re.search(r"\((\w+)\|=self\.drag\((\w+(?:\.\w+)?)\)\)", p)
        end = "self.end_drag()" in p
        if bool(drag) == end:
            return False
        if drag:
            bd = re.search(r"self\.begin_drag\((\w+(?:\.\w+)?)", p)
            if not bd or bd.start() > drag.start() or bd.group(1) != drag.group(2) or not drag.group(2).endswith("screen_pos"):
                return False
            if flag not in (None, drag.group(1)):
                return False
            flag = drag.group(1)
    if flag is None:
        return False
    t_ = str(txt(A.value_view(body)))
    zoom_after = re.search(r"\(%s\|=self\.zoom\(scroll,(.+?)\)\);%s\}$" % (flag, flag), t_)
    if not zoom_after:
        return False
    pos = zoom_after.group(1)
    return pos in ("pos_screen", "cursor_state.map(|cs|cs.screen_pos)") or bool(re.fullmatch(r"cursor_state\.map\(\|(\w+)\|\1\.screen_pos\)", pos))


def _drag_dispatch_ok(fn):
    """a Pan handle goes to view.translate, a Rotate handle to view.rotate (each with the cursor's world
    position), and with no drag stored the answer is false - however the Option / enum are taken apart"""
    want = {"translate": "Pan", "rotate": "Rotate"}
    seen = set()
    for c in A.find(fn["body"], "MethodCall"):
        if c["method"] in want and str(txt(c["recv"])) == "self.view" and len(c["args"]) == 2:
            h = A.ident(A.strip(c["args"][0]))
            if str(txt(c["args"][1])) != "pos_world" or not h:
                return False
            ok = False
            for pat, _scr in A.enclosing_patterns(fn["body"], c) or []:
                for p_ in A.walk(pat):
                    if isinstance(p_, dict) and p_.get("k") == "PTupleStruct":
                        segs, subs = A.pat_variant(p_)
                        if segs and segs[-2:] == ["Drag3", want[c["method"]]] and subs and A.binding_name(subs[0]) == h:
                            ok = True
            if not ok:
                return False
            seen.add(c["method"])
    t = str(txt(fn["body"]))
    none_false = "None=>false" in t or "else{returnfalse;}" in t or "else{false}" in t
    return seen == set(want) and none_false


def r6_canvases(rule, root=None):
    for ty in ("Canvas2", "Canvas3"):
        fn = vfn(ty, "interact", root)
        calls = A.linear_calls(fn)
        sets = [n for n in A.walk(fn["body"]) if n.get("k") == "Assign" and txt(n["left"]) == "self.image_size"]
        uses = [c for c in calls if c["method"] in ("begin_drag", "drag", "zoom")]
        if len(sets) == 1 and txt(sets[0]["right"]) == "image_size" and uses and all(sets[0]["ln"] < u["node"]["ln"] for u in uses) and not any(c["method"] == "resize" for c in calls):
            rule.ok("%s::interact adopts the new image size before any cursor position is converted" % ty, file=GUI, line=fn["ln"])
        else:
            rule.bad("%s|interact|size" % ty, "%s::interact must store the new image size before drag / zoom convert cursor positions with it" % ty, A.where(fn))
        t = txt(fn["body"])
        from .. import guiflow as GF

        try:
            followed = GF.follow(fn, ty)
        except GF.Stop:
            followed = None
        if followed is not None:
            wrong = [(w_, p_) for w_, p_ in followed if p_]
            if not wrong:
                rule.ok("%s::interact, followed in its three cursor worlds: begin_drag + drag or end_drag, then one zoom; the answer is drag's flag OR zoom's" % ty)
            else:
                rule.bad("%s|interact|flags" % ty, "%s::interact must OR the flags of drag and zoom and end the drag on both no-drag paths: with %s, %s" % (ty, wrong[0][0], wrong[0][1]), A.where(fn))
        elif ("(changed|=self.drag(cs.screen_pos));" in t and "(changed|=self.zoom(scroll,pos_screen));changed}" in t and t.count("self.end_drag();") == 2) or _interact_paths_ok(fn):
            rule.ok("%s::interact ORs the drag and zoom flags and ends the drag when the button is up or the cursor is gone" % ty)
        else:
            rule.bad("%s|interact|flags" % ty, "%s::interact must OR the flags of drag and zoom and end the drag on both no-drag paths" % ty, A.where(fn))
        fn = vfn(ty, "begin_drag", root)
        ws = A.guarded_writes(fn["body"], "self.drag_start")
        okg = bool(ws)
        for left, _val, conds, node in ws:
            pc = A.path_conjuncts(fn["body"], node) or set()
            allc = {A.norm_cond(c_) for c_ in conds} | {A.norm_cond(c_) for c_ in pc}
            if not ({"self.drag_start.is_none()", "!self.drag_start.is_some()"} & allc):
                okg = False
        if okg:
            rule.ok("%s::begin_drag is idempotent while a drag is active" % ty)
        else:
            rule.bad("%s|begin_drag" % ty, "%s::begin_drag must not re-grab while a drag is active (the handle may only be stored when none is)" % ty, A.where(fn))
        # the flag reports changes of the view and nothing else: it starts false and only collects the flags
        # of the view-changing steps
        fi = vfn(ty, "interact", root)
        flag_lets = [s_ for s_ in A.find(fi["body"], "Let") if s_.get("mut") or (s_["pat"].get("mut") if isinstance(s_.get("pat"), dict) else False)]
        tl = A.strip(A.stmt_expr(fi["body"]["stmts"][-1]) or {}) if fi["body"]["stmts"] else {}
        fname = A.ident(tl)
        inits = [s_ for s_ in A.find(fi["body"], "Let") if A.binding_name(s_["pat"]) == fname and s_.get("init") is not None] if fname else []
        srcs = []
        for a_ in A.walk(fi["body"]):
            if isinstance(a_, dict) and a_.get("k") in ("Assign", "AssignOp", "Binary") and fname and str(txt(a_.get("left") or {})) == fname and a_.get("op", "=") in ("=", "|=", "||=", "|"):
                if a_.get("k") == "Binary" and a_.get("op") != "|=":
                    continue
                srcs.append((a_.get("op", "="), A.strip(a_["right"])))
        if followed is not None and not any(p_ for _w, p_ in followed):
            rule.ok("%s::interact: the answer is made of drag / zoom results only" % ty, file=GUI, line=fi["ln"])
        elif fname and len(inits) == 1:
            bad_src = [str(txt(r_)) for op_, r_ in srcs if not (op_ == "|=" and r_.get("k") == "MethodCall" and r_["method"] in ("drag", "zoom") and A.ident(A.strip(r_["recv"])) == "self")]
            if str(txt(inits[0]["init"])) != "false":
                rule.bad("%s|interact|flag-init" % ty, "%s::interact starts its `changed` flag from `%s`; it must start false and collect only the flags of drag and zoom (a new image size alone leaves the view bit-identical)" % (ty, txt(inits[0]["init"])), A.where(fi, inits[0]))
            elif bad_src:
                rule.bad("%s|interact|flag-src" % ty, "%s::interact folds `%s` into its `changed` flag; only the results of self.drag(..) and self.zoom(..) say whether the view changed" % (ty, bad_src[0]), A.where(fi))
            else:
                rule.ok("%s::interact: the flag starts false and collects only drag / zoom results" % ty, file=GUI, line=fi["ln"])
        fn = vfn(ty, "zoom", root)
        # ... and the canvas's zoom reports exactly what the view's zoom reported
        zc = [c_ for c_ in A.find(fn["body"], "MethodCall") if c_["method"] == "zoom" and str(txt(c_["recv"])) == "self.view"]
        rets = [A.strip(r_["e"]) for r_ in A.find(fn["body"], "Return") if r_.get("e") is not None]
        tl = A.strip(A.stmt_expr(fn["body"]["stmts"][-1]) or {}) if fn["body"]["stmts"] and not fn["body"]["stmts"][-1].get("semi") else None
        outs = rets + ([tl] if tl is not None else [])

        def is_view_flag(e_):
            if e_.get("k") == "MethodCall" and e_ in zc:
                return True
            n_ = A.ident(e_)
            if n_:
                ls = [s_ for s_ in A.find(fn["body"], "Let") if A.binding_name(s_["pat"]) == n_ and s_.get("init") is not None]
                return len(ls) == 1 and A.strip(ls[0]["init"]) in zc
            return False

        if len(zc) == 1 and outs and all(is_view_flag(e_) for e_ in outs):
            rule.ok("%s::zoom returns the view's own changed flag" % ty, file=GUI, line=fn["ln"])
        else:
            rule.bad("%s|zoom|flag" % ty, "%s::zoom must return what self.view.zoom(..) returned on every path (found %s): the view compares the factor with 1, the scroll amount does not say whether anything changed" % (ty, [str(txt(e_)) for e_ in outs]), A.where(fn))
        zin = A.inline_helpers(fn)
        zcalls = [c_ for c_ in A.find(zin, "MethodCall") if c_["method"] == "zoom" and str(txt(c_["recv"])) == "self.view" and len(c_["args"]) == 2]
        zarg = re.sub(r"[(){}]", "", str(txt(A.inline_lets_deep({"k": "Block", "stmts": [{"k": "ExprStmt", "e": zcalls[0]["args"][0], "semi": False}], "ln": 0})))) if len(zcalls) == 1 else ""
        if "self.view.zoom(((amount/100.0)).exp2(),pos_world)" in txt(fn["body"]) or "self.view.zoom((amount/100.0).exp2(),pos_world)" in txt(fn["body"]) or (zarg == "amount/100.0.exp2" and str(txt(zcalls[0]["args"][1])) == "pos_world"):
            rule.ok("%s::zoom: zero scroll is factor 1" % ty)
        else:
            rule.bad("%s|zoom" % ty, "%s::zoom must map scroll s to the factor 2^(s/100)" % ty, A.where(fn))
    fn = vfn("Canvas3", "drag", root)
    t = txt(fn["body"])
    if ("Some(Drag3::Pan(prev))=>self.view.translate(prev,pos_world)" in t and "Some(Drag3::Rotate(prev))=>self.view.rotate(prev,pos_world)" in t and "None=>false" in t) or _drag_dispatch_ok(fn):
        rule.ok("Canvas3::drag dispatches pan / rotate handles to their own operation; no drag, no change")
    else:
        rule.bad("Canvas3|drag", "Canvas3::drag must route Pan to translate and Rotate to rotate", A.where(fn))
    fn = vfn("Canvas3", "begin_drag", root)
    t = txt(fn["body"])
    arms_ = {}
    for m_ in A.find(fn["body"], "Match"):
        for a_ in m_["arms"]:
            arms_[str(txt(a_["pat"]))] = str(txt(A.unblock(a_["body"])))
    if arms_.get("DragMode::Pan") == "Drag3::Pan(self.view.begin_translate(pos_world))" and arms_.get("DragMode::Rotate") == "Drag3::Rotate(self.view.begin_rotate(pos_world))":
        rule.ok("Canvas3::begin_drag creates the handle matching the requested mode")
    else:
        rule.bad("Canvas3|begin_drag|mode", "Canvas3::begin_drag must create a pan handle for Pan and a rotate handle for Rotate", A.where(fn))


def r7_stale_handle(rule, root=None):
    """a pan handle caches the view matrix of the moment it was created; a canvas operation that changes the
    scale while a drag is stored must refresh (or drop) the handle, or the next drag step re-centres with the old scale"""
    st = A.find_item(GUI, "StructDef", "TranslateHandle", root)
    cached = [f["name"] for f in st["fields"] if f["name"] in ("initial_mat",)]
    # re-anchoring refreshes everything the handle cached from the view (matrix *and* centre): with only one of
    # them the next drag step mixes the new matrix with the old centre
    for ty in ("View2", "View3"):
        try:
            fn = vfn(ty, "rebase_translate", root)
        except A.AnchorLost:
            continue
        hp = [A.binding_name(i_["pat"]) for i_ in fn["sig"]["inputs"] if isinstance(i_, dict) and "pat" in i_]
        hn = hp[0] if hp else "h"
        ws = {(str(txt(a["left"])), str(txt(a["right"]))) for a in A.find(fn["body"], "Assign")}
        want = {("%s.initial_mat" % hn, "self.world_to_model()"), ("%s.initial_center" % hn, "self.center")}
        if want <= ws:
            rule.ok("%s::rebase_translate refreshes the handle's matrix and centre" % ty, file=GUI, line=fn["ln"])
        else:
            rule.bad("%s|rebase" % ty, "%s::rebase_translate must refresh both cached values of the handle (initial_mat = world_to_model(), initial_center = center); it writes %s" % (ty, sorted(ws)), A.where(fn))
    for ty in ("Canvas2", "Canvas3"):
        fn = vfn(ty, "zoom", root)
        t = txt(fn["body"])
        if not cached:
            rule.ok("%s::zoom: translate handles hold no cached matrix" % ty)
        elif "self.drag_start" in t:
            # ... the *stored* handle: the rebase must reach self.drag_start through a mutable borrow; the
            # handle types are Copy, so a by-value binding rebases a temporary and compiles without a warning
            calls = [c for c in A.find(fn["body"], "MethodCall") if c["method"] == "rebase_translate" and c["args"]]
            in_place = False
            for c in calls:
                h = A.strip(c["args"][0])
                while h.get("k") in ("Ref", "Paren"):
                    h = A.strip(h["e"])
                hname = A.ident(h)
                for pat, scr in A.enclosing_patterns(fn["body"], c) or []:
                    names = {n_["name"]: n_ for n_ in A.walk(pat) if n_.get("k") == "PIdent"}
                    if hname in names:
                        st_ = A.unparse(scr).replace(" ", "")
                        by_ref = st_.startswith("&mutself.drag_start") or st_ in ("self.drag_start.as_mut()",) or bool(names[hname].get("ref") and names[hname].get("mut"))
                        in_place = in_place or by_ref
            zooms = [c for c in A.find(fn["body"], "MethodCall") if c["method"] == "zoom" and str(txt(c["recv"])) == "self.view"]
            before = calls and zooms and min((c.get("ln", 0), c.get("c", 0)) for c in calls) < min((z.get("ln", 0), z.get("c", 0)) for z in zooms)
            if calls and in_place and before:
                rule.bad("%s|zoom|rebase-before-zoom" % ty, "%s::zoom refreshes the pan handle *before* `self.view.zoom(..)` changes the scale: the handle is re-anchored to the pre-zoom matrix (a no-op) and the next drag step uses the stale scale" % ty, A.where(fn, calls[0]))
            elif calls and in_place:
                rule.ok("%s::zoom refreshes the stored pan handle after changing the scale" % ty, file=GUI, line=fn["ln"])
            elif calls:
                rule.bad("%s|zoom|rebases-a-copy" % ty, "%s::zoom rebases a handle bound by value from `self.drag_start`: the handle is Copy, so the stored one keeps the pre-zoom matrix and the grabbed point slides away on the next drag step" % ty, A.where(fn, calls[0]))
            elif any(c["method"] in ("begin_translate", "begin_drag") for c in A.find(fn["body"], "MethodCall")):
                rule.bad("%s|zoom|re-grabs" % ty, "%s::zoom replaces the stored pan handle by a new grab (`begin_translate`): the drag must keep the model point grabbed when it began (rebase_translate keeps it); a new grab takes whatever lies under the zoom position - or nothing for a zoom without a position" % (ty, ty), A.where(fn))
            else:
                rule.ok("%s::zoom refreshes the stored pan handle after changing the scale" % ty, file=GUI, line=fn["ln"])
        else:
            rule.bad("%s|zoom|stale-handle" % ty, "%s::zoom changes the view's scale but leaves a stored pan handle untouched; the handle caches the pre-zoom matrix (TranslateHandle.%s), so the next drag step no longer keeps the grabbed point under the cursor" % (ty, cached[0]), A.where(fn))


def r_components_roundtrip(rule, root=None):
    """`components()` and `from_components(..)` are inverse: the tuple lists the fields in the order the constructor
    takes them (yaw before pitch), so a view rebuilt from its own components is the same view and its matrix is
    translate x rotate x scale of what `components()` reports"""
    d = A.load(GUI, root)
    n = 0
    for ty in ("View2", "View3", "Canvas2", "Canvas3"):
        comp = [f for f in d["_fns"] if f["name"] == "components" and (f.get("_owner") or {}).get("self_ty") == ty and not f["_test"]]
        frm = [f for f in d["_fns"] if f["name"] == "from_components" and (f.get("_owner") or {}).get("self_ty") == ty and not f["_test"]]
        if not comp or not frm:
            continue
        params = [A.binding_name(i_["pat"]) for i_ in frm[0]["sig"]["inputs"] if isinstance(i_, dict) and "pat" in i_]
        tl = A.strip(A.stmt_expr(A.stmts_of(comp[0]["body"])[-1]) or {})
        if tl.get("k") != "Tuple":
            rule.skip("%s::components" % ty, "its value is not a tuple literal", count=True)
            continue
        got = [str(A.ftxt(A.strip(e_))).replace("self.", "").replace(".clone()", "") for e_ in tl["elems"]]
        n += 1
        if got == params:
            rule.ok("%s::components lists (%s), the order from_components takes them" % (ty, ", ".join(params)), file=GUI, line=comp[0]["ln"])
        else:
            rule.bad("%s|components" % ty, "%s::components returns (%s) but from_components takes (%s): a view rebuilt from its own components differs, and the matrix is no longer translate x rotate x scale of the reported components" % (ty, ", ".join(got), ", ".join(params)), A.where(GUI, comp[0]))
    if n == 0:
        rule.lost("components() / from_components() pairs in fidget-gui")


CANVAS_STATE = {
    "Canvas2": {"view": "the view being manipulated", "image_size": "adopted at the top of every interaction", "drag_start": "the handle of the drag in progress (refreshed by a zoom)"},
    "Canvas3": {"view": "the view being manipulated", "image_size": "adopted at the top of every interaction", "drag_start": "the handle of the drag in progress (refreshed by a zoom)"},
}


def r_canvas_state(rule, root=None):
    """what a canvas remembers between events is exactly the vetted fields: a further cache (the last cursor position,
    a "nothing moved" shortcut) has to be invalidated by every other way the view can change - zoom, resize, a new
    drag - and is stale in the sequences where one of them was forgotten"""
    d = A.load(GUI, root)
    for it in A.find(d, "StructDef"):
        if it.get("name") not in CANVAS_STATE or not isinstance(it.get("fields"), list):
            continue
        have = [f.get("name") for f in it["fields"]]
        extra = [f for f in have if f not in CANVAS_STATE[it["name"]]]
        if extra:
            rule.bad("%s|state|%s" % (it["name"], extra[0]), "%s carries the new state `%s` between events; every path that changes the view (zoom, resize, begin / end of a drag) must keep it valid, and it is not in the vetted list %s" % (it["name"], extra[0], sorted(CANVAS_STATE[it["name"]])), A.where(GUI, it))
        else:
            rule.ok("%s holds only %s" % (it["name"], ", ".join(have)), file=GUI, line=it.get("ln", 1))
    REG = "fidget-core/src/render/region.rs"
    dr = A.load(REG, root)
    n = 0
    for f in dr["_fns"]:
        if f["name"] != "transform_point" or f["_test"] or f.get("body") is None:
            continue
        n += 1
        t = str(A.ftxt(f["body"])).strip("{}")
        if not re.fullmatch(r"self\.screen_to_world\(\)\.transform_point\(&\w+\.cast(?:::<f32>)?\(\)\)", t):
            # through naming lets: `let mat = self.screen_to_world(); let q = p.cast::<f32>(); mat.transform_point(&q)`
            lets_ = {A.binding_name(l_["pat"]): str(A.ftxt(l_["init"])) for l_ in A.find(f["body"], "Let") if l_.get("init") is not None and A.binding_name(l_["pat"]) and not l_["pat"].get("mut")}
            tail_ = None
            for leaf_, _cs in A.result_cases(f["body"]):
                tail_ = str(A.ftxt(leaf_))
            if tail_ is not None:
                for _ in range(3):
                    for n_, v_ in lets_.items():
                        tail_ = re.sub(r"(?<![\w.])%s(?![\w(])" % re.escape(n_), lambda _m: v_, tail_)
                t = tail_
        if re.fullmatch(r"self\.screen_to_world\(\)\.transform_point\(&\(?\w+\.cast(?:::<f32>)?\(\)\)?\)", t):
            rule.ok("%s::transform_point is screen_to_world() applied to the point" % ((f.get("_owner") or {}).get("self_ty")), file=REG, line=f["ln"])
        else:
            rule.bad("region|transform_point|%s" % ((f.get("_owner") or {}).get("self_ty") or "?"), "transform_point must apply `self.screen_to_world()`: the renderers sample through that matrix, and a second formula for the same map (integer halving of an odd size, say) puts the cursor half a pixel from what is drawn under it", A.where(REG, f))
    if n == 0:
        rule.lost("transform_point in fidget-core/src/render/region.rs")



def r10_cursor_to_world(rule, root=None):
    """the canvases turn a cursor pixel into a world position in one way only: `self.image_size.transform_point`
    applied to the cursor's own coordinates (for the 3D canvas on the image plane z = 0) - the same map the renderer
    draws through.  A second formula (another region type, a clamped or shifted cursor) puts the zoom centre or the
    grabbed point somewhere else than the pixel under the cursor."""
    n = 0
    for f in A.fns(GUI, root):
        ow = (f.get("_owner") or {}).get("self_ty") or ""
        if not ow.startswith("Canvas") or f.get("body") is None or f["_test"]:
            continue
        params = {A.binding_name(p_["pat"]) for p_ in f["sig"]["inputs"] if "pat" in p_}
        for c in A.find(f["body"], "MethodCall"):
            if c["method"] == "screen_to_world" and str(A.ftxt(c["recv"])) == "self" and len(c["args"]) == 1:
                # the canvas's own helper: it must be handed the cursor itself
                cur_ = set(params)
                for b_name, b_src, _node in (A.enclosing_binders(f["body"], c) or []):
                    mm_ = re.match(r"\(?&?(\w+)", b_src)
                    if mm_ and mm_.group(1) in params:
                        cur_.add(b_name)
                n += 1
                if A.ident(A.strip(c["args"][0])) in cur_:
                    rule.ok("%s::%s hands the cursor itself to screen_to_world" % (ow, f["name"]), file=GUI, line=c["ln"])
                else:
                    rule.bad("%s|%s|cursor-map|argument" % (ow, f["name"]), "%s::%s converts `%s` instead of the cursor position it was given" % (ow, f["name"], str(A.ftxt(c["args"][0]))[:70]), A.where(GUI, c))
                continue
            if c["method"] != "transform_point" or len(c["args"]) != 1:
                continue
            n += 1
            recv = str(A.ftxt(c["recv"]))
            # names that stand for the cursor: parameters, and closure parameters of `.map` on a parameter
            cursor = set(params)
            for b_name, b_src, _node in (A.enclosing_binders(f["body"], c) or []):
                if re.match(r"\(?&?(\w+)", b_src) and re.match(r"\(?&?(\w+)", b_src).group(1) in params:
                    cursor.add(b_name)
            a = A.strip(c["args"][0])
            okarg = A.ident(a) in cursor
            if not okarg and a.get("k") == "Call" and (A.path_segs(a["func"]) or [])[-2:] == ["Point3", "new"] and len(a["args"]) == 3:
                t3 = [str(A.ftxt(x)) for x in a["args"]]
                okarg = any(t3 == ["%s.x" % p_, "%s.y" % p_, "0"] for p_ in cursor)
            if recv != "self.image_size" and not okarg:
                n -= 1  # some other map applied to something that is not the cursor (world -> model, say): not this rule's business
                continue
            if recv != "self.image_size":
                rule.bad("%s|%s|cursor-map|receiver" % (ow, f["name"]), "%s::%s converts a position through `%s`; the canvas's own region `self.image_size` is the map the image is drawn through" % (ow, f["name"], recv[:50]), A.where(GUI, c))
            elif not okarg:
                rule.bad("%s|%s|cursor-map|argument" % (ow, f["name"]), "%s::%s converts `%s` instead of the cursor position it was given: the point under the cursor is the cursor's own pixel (on z = 0 for the 3D canvas)" % (ow, f["name"], str(A.ftxt(a))[:70]), A.where(GUI, c))
            else:
                rule.ok("%s::%s maps the cursor's own pixel through self.image_size" % (ow, f["name"]), file=GUI, line=c["ln"])
    if n == 0:
        rule.lost("cursor conversions (`self.image_size.transform_point(..)`) in the canvases")


def r11_drag_ends_with_the_button(rule, root=None):
    """in immediate mode a drag ends only because the cursor state says so (no button held, no cursor): a handle
    stores its grab in model space, so nothing else - a new image size in particular - invalidates it, and ending it
    lets the idempotent begin_drag of the same event grab a different model point"""
    n = 0
    for f in A.fns(GUI, root):
        ow = (f.get("_owner") or {}).get("self_ty") or ""
        if not ow.startswith("Canvas") or f["name"] != "interact" or f.get("body") is None:
            continue
        ps = [A.binding_name(p_["pat"]) for p_ in f["sig"]["inputs"] if "pat" in p_]
        cur = [p_ for p_ in ps if "cursor" in (p_ or "")] or ps[1:2]
        for c in A.find(f["body"], "MethodCall"):
            if c["method"] != "end_drag":
                continue
            n += 1
            ctx_ = [x.replace(" ", "") for x in (A.enclosing_conds(f["body"], c) or [])]
            pats = ["%s<-%s" % (str(A.ftxt(p_)), str(A.ftxt(s_))) for p_, s_ in (A.enclosing_patterns(f["body"], c) or [])]
            allctx = ctx_ + pats
            about_cursor = any(any(k_ in x for k_ in ([".drag"] + list(cur))) for x in allctx)
            other = [x for x in ctx_ if "image_size" in x or "size" in x.lower()]
            if about_cursor and not other:
                rule.ok("%s::interact ends the drag where the cursor state has no button held" % ow, file=GUI, line=c["ln"])
            else:
                rule.bad("%s|interact|end_drag" % ow, "%s::interact ends the drag under `%s`: in immediate mode a drag ends only when the cursor state carries no drag (the handle holds its grab in model space; ending it on a resize makes the same event's begin_drag grab another point)" % (ow, (other or ctx_ or ["no condition"])[0][:70]), A.where(GUI, c))
    if n == 0:
        rule.lost("end_drag() calls in Canvas2 / Canvas3 ::interact")

def run(ctx):
    r = ctx.rule("R1", "world_to_model = translate x rotate x scale of the view's own components", 9)
    ctx.guarded(r, r1_matrix)
    r = ctx.rule("R2", "rotate writes only yaw/pitch, translate only centre, zoom only scale and centre; queries write nothing", 13)
    ctx.guarded(r, r2_write_sets)
    r = ctx.rule("R3", "changed flags compare the old field with the value being assigned, before assigning", 5)
    ctx.guarded(r, r3_changed_flags)
    r = ctx.rule("R4", "View2 and View3 siblings agree; zoom re-centres through the full matrix; translate handles", 9)
    ctx.guarded(r, r4_siblings)
    r = ctx.rule("R5", "yaw wraps and pitch clamps the whole sum", 3)
    ctx.guarded(r, r5_handles)
    r = ctx.rule("R6", "canvases adopt the image size first, OR their flags, keep drags idempotent", 14)
    ctx.guarded(r, r6_canvases)
    r = ctx.rule("R7", "zooming during a pan refreshes the handle's cached matrix", 4)
    ctx.guarded(r, r7_stale_handle)
    r = ctx.rule("R8", "components() lists the fields in the order from_components() takes them (the two are inverse)", 4)
    ctx.guarded(r, r_components_roundtrip)
    r = ctx.rule("R9", "a canvas remembers only its vetted state; cursor positions go from screen to world through screen_to_world() itself", 4)
    ctx.guarded(r, r_canvas_state)
    r = ctx.rule("R10", "a cursor pixel reaches world space only through self.image_size.transform_point of the cursor's own coordinates", 7)
    ctx.guarded(r, r10_cursor_to_world)
    r = ctx.rule("R11", "in immediate mode a drag ends only with the cursor state (never because the image size changed)", 2)
    ctx.guarded(r, r11_drag_ends_with_the_button)
