"""C10 - reuse of evaluators, storage and workspaces (structural part):
no named piece of state survives a reuse boundary."""
import re
from .. import ast as A
from .. import renderhandle as RH

VM = "fidget-core/src/vm/mod.rs"
JIT = "fidget-jit/src/lib.rs"
ALLOC = "fidget-core/src/compiler/alloc.rs"
DATA = "fidget-core/src/vm/data.rs"
MMAP = "fidget-jit/src/mmap.rs"

SHAPE = "fidget-core/src/shape/mod.rs"


def find_call(calls, recv_suffix, method, arg0=None, arg0_contains=None):
    out = []
    for c in calls:
        if c["kind"] != "m" or c["method"] != method:
            continue
        if not c["recv"].endswith(recv_suffix):
            continue
        if arg0 is not None and (not c["args"] or c["args"][0] != arg0):
            continue
        if arg0_contains is not None and (not c["args"] or arg0_contains not in c["args"][0]):
            continue
        out.append(c)
    return out


def row_resizes(calls, container):
    """`row.resize(..)` calls made once per row of `container` (for row in container.iter_mut() / &mut container /
    container.iter_mut().for_each(|row| ..)), however the loop is written and whatever the row variable is called"""
    out = []
    for c in calls:
        if c["method"] != "resize" or c["loops"] != 1 or not c["iters"]:
            continue
        var, it = c["iters"][-1]
        src = it
        for suf in (".iter_mut()", ".iter()"):
            if src.endswith(suf):
                src = src[: -len(suf)]
        src = src.lstrip("&").replace("mut", "", 1) if src.startswith("&mut") else src.lstrip("&")
        if c["recv"] == var and src == container:
            out.append(c)
    return out


def need(rule, fn, calls, what, recv_suffix, method, arg0=None, arg0_contains=None, before=None, unconditional=True, key=None):
    """one required call: present, unconditional (not under if/match), and before `before`"""
    cs = find_call(calls, recv_suffix, method, arg0, arg0_contains)
    key = key or "%s|%s.%s" % (fn["name"], recv_suffix, method)
    lab = "%s: %s" % (A.fn_label(fn), what)
    if not cs:
        rule.bad(key, "%s - no `%s.%s(%s)` found" % (lab, recv_suffix, method, arg0 or arg0_contains or ""), A.where(fn))
        return None
    c = cs[0]
    if unconditional and c["conds"]:
        rule.bad(key + "|cond", "%s - `%s.%s(..)` only happens under `%s`; state from an earlier use survives otherwise" % (lab, recv_suffix, method, c["conds"][-1]), A.where(fn, c["node"]))
        return c
    if before is not None and c["i"] > before["i"]:
        rule.bad(key + "|order", "%s - happens after the evaluation it must precede" % lab, A.where(fn, c["node"]))
        return c
    rule.ok(lab, file=fn["_file"], line=c["node"]["ln"])
    return c


def r1_buffers(rule, root=None):
    # interpreter, tracing
    fn = A.find_fn(VM, "resize_slots", self_ty="TracingVmEval", root=root)
    calls = A.linear_calls(fn)
    need(rule, fn, calls, "slots sized to the tape's slot count", "slots", "resize", "tape.slot_count()")
    need(rule, fn, calls, "choices sized to the tape's choice count", "choices", "resize", "tape.choice_count()")
    need(rule, fn, calls, "choices refilled with Unknown (evaluators OR into them)", "choices", "fill", "Choice::Unknown")
    need(rule, fn, calls, "outputs sized to the tape's output count", "out", "resize", "tape.output_count()")
    fn = A.find_fn(VM, "resize_slots", self_ty="BulkVmEval", root=root)
    calls = A.linear_calls(fn)
    need(rule, fn, calls, "slot rows sized to the tape's slot count", "slots", "resize_with", "tape.slot_count()")
    need(rule, fn, calls, "output rows sized to the tape's output count", "out", "resize_with", "tape.output_count()")
    for cont, what in (("self.slots", "slot"), ("self.out", "output")):
        cs = [c for c in row_resizes(calls, cont) if c["args"] and c["args"][0] == "size" and not c["conds"]]
        if cs:
            rule.ok("BulkVmEval::resize_slots: every %s row resized to the batch size" % what)
        else:
            rule.bad("bulk-resize|%s" % what[0], "BulkVmEval::resize_slots must resize every %s row to `size`" % what, A.where(fn))
    # each interpreter eval resizes before its loop and after the argument check
    for ty, tr, kind in (("VmIntervalEval", "TracingEvaluator", "t"), ("VmPointEval", "TracingEvaluator", "t"), ("VmFloatSliceEval", "BulkEvaluator", "b"), ("VmGradSliceEval", "BulkEvaluator", "b")):
        fn = A.find_fn(VM, "eval", self_ty=ty, trait=tr, root=root)
        calls = A.linear_calls(fn)
        loops = [c for c in calls if c["method"] == "iter_asm"]
        if not loops:
            rule.lost("%s::eval tape loop" % ty)
            continue
        c = need(rule, fn, calls, "%s resizes its buffers for this tape before evaluating" % ty, "self.0", "resize_slots", "tape", before=loops[0], key="%s|resize_slots" % ty)
        if kind == "b" and c is not None:
            if len(c["args"]) != 2 or c["args"][1] != "size":
                rule.bad("%s|resize-size" % ty, "%s must resize to the batch `size`" % ty, A.where(fn, c["node"]))
    # JIT tracing
    fn = A.find_fn(JIT, "eval", self_ty="JitTracingEval", root=root)
    calls = A.linear_calls(fn)
    native = [c for c in calls if c["unsafe"] and "fn_trace" in c["method"]]
    if len(native) != 1:
        rule.lost("the native call in JitTracingEval::eval")
    else:
        nc = native[0]
        need(rule, fn, calls, "choices sized to the tape's choice count", "self.choices", "resize", "tape.choice_count", before=nc)
        need(rule, fn, calls, "choices refilled with Unknown (native code ORs into them)", "self.choices", "fill", "Choice::Unknown", before=nc)
        need(rule, fn, calls, "outputs sized to the tape's output count", "self.out", "resize", "tape.output_count", before=nc)
        want = ["vars.as_ptr()", "(self.choices.as_mut_ptr()as*mutu8)", "&mutsimplify", "self.out.as_mut_ptr()"]
        if nc["args"] == want:
            rule.ok("native tracing call receives (vars, choices, &mut simplify, out)")
        else:
            rule.bad("jit-tracing|args", "native call arguments are %s, expected %s" % (nc["args"], want), A.where(fn, nc["node"]))
        lets = [s for s in A.find(fn["body"], "Let") if A.binding_name(s["pat"]) == "simplify"]
        if len(lets) == 1 and A.lit_value(lets[0]["init"]) == 0:
            rule.ok("the simplify flag starts at 0 on every call")
        else:
            rule.bad("jit-tracing|flag", "`let mut simplify = 0` must start every evaluation", A.where(fn))
    # JIT bulk
    fn = A.find_fn(JIT, "eval", self_ty="JitBulkEval", root=root)
    calls = A.linear_calls(fn)
    native = [c for c in calls if c["unsafe"] and "fn_bulk" in c["method"]]
    if len(native) != 3:
        rule.lost("the three native calls in JitBulkEval::eval (found %d)" % len(native))
        return
    need(rule, fn, calls, "output list sized to the tape's output count on every call", "self.out", "resize_with", "tape.output_count()", before=native[0])
    cs = [c for c in row_resizes(calls, "self.out") if c["args"] and "n.max(T::SIMD_SIZE)" in c["args"][0] and not c["conds"]]
    if cs and cs[0]["i"] < native[0]["i"]:
        rule.ok("every output row resized to max(n, SIMD_SIZE) before its pointer is taken")
    else:
        rule.bad("jit-bulk|row-resize", "every output row must be resized to `n.max(T::SIMD_SIZE)` before evaluation", A.where(fn))


def _vec_reinit(t, field, length, sentinel):
    """after these statements every element of `field` is `sentinel` and its length is `length`: fill + resize
    (either order), clear + resize, or a fresh vec![sentinel; length]"""
    t = str(t)
    fill = "%s.fill(%s)" % (field, sentinel)
    rs = "%s.resize(%s,%s)" % (field, length, sentinel)
    cl = "%s.clear()" % field
    if fill in t and rs in t:
        return True
    if cl in t and rs in t and t.index(cl) < t.index(rs):
        return True
    if "%s=vec!(%s;%s)" % (field, sentinel, length) in t or "(%s=vec!(%s;%s))" % (field, sentinel, length) in t:
        return True
    return False


def r2_resets(rule, root=None):
    # RegisterAllocator::reset touches all six fields
    fn = A.find_fn(ALLOC, "reset", self_ty="RegisterAllocator", root=root)
    st = A.find_item(ALLOC, "StructDef", "RegisterAllocator", root)
    t = A.ftxt(fn["body"])
    want = {
        "allocations": ["self.allocations.fill(UNASSIGNED)", "self.allocations.resize(size,UNASSIGNED)"],
        "registers": ["self.registers.fill(UNASSIGNED)"],
        "register_lru": ["self.register_lru=Lru::new()"],
        "spare_registers": ["self.spare_registers.clear()", "self.spare_registers.extend((0..(Nasu8)).rev())", "self.spare_registers.extend((0..(Nasu8)).rev())"],
        "spare_memory": ["self.spare_memory.clear()"],
        "out": ["self.out=tape", "self.out.reset()"],
    }
    fields = [f["name"] for f in st["fields"]]
    for f in fields:
        if f not in want:
            rule.bad("alloc-reset|%s|unknown" % f, "RegisterAllocator has a field `%s` that reset() is not known to re-initialise" % f, A.where(ALLOC, st))
            continue
        frs = want[f]
        if f == "spare_registers":
            ok = frs[0] in t and (frs[1] in t or frs[2] in t)
        elif f == "allocations":
            ok = all(x in t for x in frs) or _vec_reinit(t, "self.allocations", "size", "UNASSIGNED")
        else:
            ok = all(x in t for x in frs)
        if ok:
            rule.ok("RegisterAllocator::reset re-initialises `%s`" % f, file=ALLOC, line=fn["ln"])
        else:
            rule.bad("alloc-reset|%s" % f, "RegisterAllocator::reset does not fully re-initialise `%s` (needs %s)" % (f, frs), A.where(fn))
    # the fill must come before the resize? (fill then resize with UNASSIGNED: both orders reset everything)
    # VmWorkspace::reset
    fn = A.find_fn(DATA, "reset", self_ty="VmWorkspace", root=root)
    st = A.find_item(DATA, "StructDef", "VmWorkspace", root)
    t = A.ftxt(fn["body"])
    want = {
        "alloc": ["self.alloc.reset(tape_len,tape)"],
        "bind": ["self.bind.fill(u32::MAX)", "self.bind.resize(tape_len,u32::MAX)"],
        "count": ["(self.count=0)", "self.count=0"],
    }
    for f in [x["name"] for x in st["fields"]]:
        frs = want.get(f)
        if frs is None:
            rule.bad("ws-reset|%s|unknown" % f, "VmWorkspace has a field `%s` that reset() is not known to re-initialise" % f, A.where(DATA, st))
        elif (f == "count" and any(x in t for x in frs)) or (f != "count" and all(x in t for x in frs)) or (f == "bind" and _vec_reinit(t, "self.bind", "tape_len", "u32::MAX")):
            rule.ok("VmWorkspace::reset re-initialises `%s`" % f, file=DATA, line=fn["ln"])
        else:
            rule.bad("ws-reset|%s" % f, "VmWorkspace::reset does not fully re-initialise `%s`" % f, A.where(fn))
    # RegTape::reset
    RT = "fidget-core/src/compiler/reg_tape.rs"
    fn = A.find_fn(RT, "reset", self_ty="RegTape", root=root)
    st = A.find_item(RT, "StructDef", "RegTape", root)
    t = A.ftxt(fn["body"])
    want = {"tape": "self.tape.clear()", "slot_count": "self.slot_count=0"}
    for f in [x["name"] for x in st["fields"]]:
        if f in want and want[f] in t:
            rule.ok("RegTape::reset re-initialises `%s`" % f, file=RT, line=fn["ln"])
        else:
            rule.bad("regtape-reset|%s" % f, "RegTape::reset does not re-initialise `%s`" % f, A.where(fn))
    # SsaTape::reset clears the op list and the choice count
    ST = "fidget-core/src/compiler/ssa_tape.rs"
    fn = A.find_fn(ST, "reset", self_ty="SsaTape", root=root)
    t = A.ftxt(fn["body"])
    for f, frag in (("tape", "self.tape.clear()"), ("choice_count", "self.choice_count=0")):
        if frag in t:
            rule.ok("SsaTape::reset re-initialises `%s`" % f, file=ST, line=fn["ln"])
        else:
            rule.bad("ssatape-reset|%s" % f, "SsaTape::reset does not re-initialise `%s`" % f, A.where(fn))
    # simplify: recycled storage is reset before use and handed to the workspace
    fn = A.find_fn(DATA, "simplify", self_ty="VmData", root=root)
    calls = A.linear_calls(fn)
    loop = [c for c in calls if c["method"] == "cloned" and "self.ssa.tape" in c["recv"]]
    first = loop[0] if loop else None
    need(rule, fn, calls, "the recycled SSA tape is reset before it is refilled", "tape.ssa", "reset", before=first)
    c = need(rule, fn, calls, "the workspace is reset for this tape's length and takes the recycled RegTape", "workspace", "reset", "self.ssa.tape.len()", before=first)
    if c is not None and (len(c["args"]) != 2 or c["args"][1] != "tape.asm"):
        rule.bad("simplify|ws-args", "workspace.reset must receive the recycled `tape.asm`", A.where(fn, c["node"]))
    from .. import simplify as SIMP

    try:
        ops = SIMP.ops_out_name(fn)
        pushes = [c for c in A.find(fn["body"], "MethodCall") if c["method"] == "push" and A.ident(A.strip(c["recv"])) == ops]
        if pushes:
            rule.ok("simplify refills the recycled (and reset) op list")
        else:
            rule.bad("simplify|ops_out", "the rebuilt ops must be pushed onto the recycled tape's (reset) op list", A.where(fn))
    except A.AnchorLost:
        rule.bad("simplify|ops_out", "ops_out must be the recycled tape's (reset) op list", A.where(fn))


def r3_mmap(rule, root=None):
    d = A.load(MMAP, root)
    # MmapWriter::from starts at len 0
    impls = [i for i in A.find_impls(MMAP, self_ty="MmapWriter", root=root)]
    froms = [f for i in impls for f in i["items"] if f.get("k") == "Fn" and f["name"] == "from"]
    ok = False
    for f in froms:
        for s in A.find(f["body"], "Struct"):
            fl = {x["name"]: A.ftxt(x["e"]) for x in s["fields"]}
            if fl.get("len") == "0":
                ok = True
    if ok:
        rule.ok("MmapWriter::from(mmap) starts writing at offset 0 (recycled code is overwritten, never appended to)", file=MMAP, line=froms[0]["ln"] if froms else 0)
    else:
        rule.bad("mmapwriter|len0", "a MmapWriter built from recycled storage must start at len = 0", A.where(MMAP, impls[0] if impls else {}))
    # push: capacity check dominates the raw write
    fn = A.find_fn(MMAP, "push", self_ty="MmapWriter", root=root)
    t = A.ftxt(fn["body"])
    calls = A.linear_calls(fn)
    grow = [c for c in calls if c["method"] in ("double_capacity", "expand_mmap", "grow")]
    writes = [c for c in calls if c["unsafe"]] + list(A.find(fn["body"], "Unsafe"))
    ifs = [i for i in A.find(fn["body"], "If") if "capacity" in A.unparse(i["cond"]) or "len" in A.unparse(i["cond"])]
    if ifs and grow and A.strip(ifs[0]["cond"]).get("k") == "Binary" and A.strip(ifs[0]["cond"])["op"] in ("==", ">="):
        un = list(A.find(fn["body"], "Unsafe"))
        if un and un[0]["ln"] > ifs[0]["ln"]:
            rule.ok("MmapWriter::push grows when full before the raw byte write", file=MMAP, line=fn["ln"])
        else:
            rule.bad("mmapwriter|push-order", "the raw write must come after the capacity check", A.where(fn))
    else:
        rule.bad("mmapwriter|push", "MmapWriter::push must grow when `len == capacity` before writing", A.where(fn))
    if "(self.len+=1)" in t:
        rule.ok("push advances len by one")
    else:
        rule.bad("mmapwriter|len", "push must advance len by exactly one", A.where(fn))
    fn = A.find_fn(MMAP, "double_capacity", self_ty="MmapWriter", root=root)
    t = A.ftxt(fn["body"])
    why = None
    nxt = None
    for st in A.find(fn["body"], "Let"):
        it = A.unparse(st.get("init") or {}).replace(" ", "")
        if "Mmap::new(" in it:
            m = re.search(r"Mmap::new\(\(?(self\.mmap\.capacity(?:\(\))?\*2|2\*self\.mmap\.capacity(?:\(\))?)\)?\)", it)
            if not m:
                why = "the new mapping is `%s`, not twice the old capacity" % it[:50]
            nxt = A.binding_name(st["pat"])
    calls = A.linear_calls(fn)
    cp = [c for c in calls if c["method"].endswith("copy_nonoverlapping")]
    inst = None
    for c in calls:
        if c["method"].endswith("mem::swap") and sorted(a.replace("&mut", "") for a in c["args"]) == sorted(["self.mmap", nxt or "?"]):
            inst = c["node"]
    for a in A.find(fn["body"], "Assign"):
        if A.unparse(a["left"]).replace(" ", "") == "self.mmap" and A.ident(A.strip(a["right"])) == nxt:
            inst = a
    if nxt is None:
        why = why or "no `let next = Mmap::new(..)`"
    elif len(cp) != 1 or cp[0]["args"][:2] != ["self.mmap.ptr", "%s.ptr" % nxt] or cp[0]["args"][2] not in ("self.len()", "self.len"):
        why = why or "the written bytes must be copied with copy_nonoverlapping(self.mmap.ptr, %s.ptr, self.len()), found %s" % (nxt, [c["args"] for c in cp])
    elif inst is None:
        why = why or "the new mapping is never installed in self.mmap"
    elif inst.get("ln", 0) < cp[0]["node"].get("ln", 0):
        why = why or "the new mapping is installed before the old bytes are copied"
    if why is None:
        rule.ok("double_capacity copies the written bytes into a mapping twice the size and swaps it in", file=MMAP, line=fn["ln"])
    else:
        rule.bad("mmapwriter|grow", "double_capacity must allocate a larger mapping, copy the `len()` written bytes from the old one and swap (%s)" % why, A.where(fn))


def _scratch_refill(fn):
    """`dst[0..n].copy_from_slice(src)` with dst the k-th scratch row and src the k-th input, for every k
    (a zip, an enumerate or an index loop)"""
    for c in A.find(fn["body"], "MethodCall"):
        if c["method"] != "copy_from_slice" or len(c["args"]) != 1:
            continue
        loops = [b_ for b_ in (A.enclosing_binders(fn["body"], c) or []) if b_[2].get("k") == "For"]
        if not loops:
            continue
        lanes = A.lane_bindings(loops[-1][2])
        if lanes is None:
            continue
        idx, elems = lanes
        recv = A.strip(c["recv"])
        if recv.get("k") != "Index" or str(A.ftxt(recv["index"])) not in ("0..n", "..n"):
            continue

        def slot(e, base):
            e = A.strip(e)
            while e.get("k") in ("Ref", "Paren") or (e.get("k") == "Unary" and e.get("op") == "*"):
                e = A.strip(e["e"])
            n_ = A.ident(e)
            if n_ and elems.get(n_) == base:
                return idx or "#lockstep"
            if e.get("k") == "Index" and str(A.ftxt(A.strip(e["e"]))) == base and A.ident(A.strip(e["index"])) == idx and idx:
                return idx
            return None

        a, b = slot(recv["e"], "self.scratch"), slot(c["args"][0], "vars")
        src = str(A.ftxt(A.strip(loops[-1][2]["iter"])))
        whole = ("vars" in [elems.get(x) for x in elems]) or src in ("0..vars.len()", "(0..vars.len())")
        if a is not None and a == b and whole:
            return True
    return False


def r4_pointer_lists(rule, root=None):
    fn = A.find_fn(JIT, "eval", self_ty="JitBulkEval", root=root)
    calls = A.linear_calls(fn)
    for vec in ("input_ptrs", "output_ptrs"):
        ext = find_call(calls, "self." + vec, "extend")
        clr = find_call(calls, "self." + vec, "clear")
        if len(ext) < 2:
            rule.lost("the refills of %s in JitBulkEval::eval (found %d)" % (vec, len(ext)))
            continue
        # every native call sees a list that was refilled on its path (a refill shared by both branches counts for both)
        native_ = [c for c in calls if c["unsafe"] and "fn_bulk" in c["method"]]
        for nc in native_:
            seen_ = [x for x in ext if x["i"] < nc["i"] and x["conds"] == nc["conds"][: len(x["conds"])]]
            if not seen_:
                rule.bad("ptrs|%s|unfilled" % vec, "a native call is reached without `%s` having been refilled on that path" % vec, A.where(fn, nc["node"]))
        for e in ext:
            prior = [c for c in clr if c["i"] < e["i"] and c["conds"] == e["conds"][: len(c["conds"])]]
            # the closest clear must not be followed by another extend of the same vec
            last = max(prior, key=lambda c: c["i"]) if prior else None
            between = [x for x in ext if last is not None and last["i"] < x["i"] < e["i"] and x["conds"] == e["conds"]]
            if last is None or between:
                rule.bad("ptrs|%s|%d" % (vec, ext.index(e)), "`%s.extend(..)` is not preceded by `clear()`: pointers from the previous evaluation would be passed to native code" % vec, A.where(fn, e["node"]))
            else:
                rule.ok("%s cleared before extend #%d" % (vec, ext.index(e)), file=JIT, line=e["node"]["ln"])
    # scratch refill
    t = A.ftxt(fn["body"])
    if "self.scratch.resize(vars.len()," in t and ("t[0..n].copy_from_slice(v)" in t or _scratch_refill(fn)):
        rule.ok("short batches: scratch rows resized to the variable count and refilled from the inputs")
    else:
        rule.bad("scratch", "the short-batch path must resize the scratch rows to vars.len() and copy each input into its row", A.where(fn))


def r_trace_copy(rule, root=None):
    """`Trace::copy_from` reuses an allocation that held another trace: afterwards `self` must equal `other`
    whatever it held before - in particular its *length* must be other's (a longer old trace must not leave a
    tail behind).  The body is read as a sequence of length effects on the destination vector."""
    import itertools

    n = 0
    for path, self_ty in (("fidget-core/src/vm/mod.rs", "VmTrace"), ("fidget-core/src/eval/mod.rs", None)):
        for f in A.load(path, root)["_fns"]:
            ow = f.get("_owner") or {}
            if f["name"] != "copy_from" or (ow.get("trait") or "") != "Trace" or f.get("body") is None:
                continue
            n += 1
            params = [A.binding_name(i_["pat"]) for i_ in f["sig"]["inputs"] if isinstance(i_, dict) and "pat" in i_]
            other = params[0] if params else "other"
            view = f["body"]
            dst = "self.0" if "self.0" in str(A.ftxt(view)) else "self"
            src = "%s.0" % other if dst == "self.0" else other

            def length_after(s0, o0):
                """destination length after the body, for initial lengths (s0, o0); None = unknown / would panic"""
                ln = s0
                env = {}

                def val(e):
                    t = str(A.ftxt(A.strip(e)))
                    t = t.replace("%s.len()" % dst, "L").replace("%s.len()" % src, "O")
                    for k_, v_ in env.items():
                        t = re.sub(r"\b%s\b" % re.escape(k_), "(%s)" % v_, t)
                    t = re.sub(r"\(?(\w+|\([^()]*\))\.min\((\w+|\([^()]*\))\)\)?", r"min(\1,\2)", t)
                    t = re.sub(r"\(?(\w+|\([^()]*\))\.max\((\w+|\([^()]*\))\)\)?", r"max(\1,\2)", t)
                    if not re.fullmatch(r"[LO0-9()+\-*,minax ]+", t):
                        return None
                    try:
                        return eval(t, {"__builtins__": {}}, {"L": ln, "O": o0, "min": min, "max": max})
                    except Exception:  # noqa: BLE001
                        return None

                for st in view["stmts"]:
                    if st.get("k") == "Let":
                        nm = A.binding_name(st["pat"])
                        v_ = val(st["init"]) if st.get("init") is not None else None
                        if nm and v_ is not None:
                            env[nm] = v_
                        continue
                    e = A.strip(A.stmt_expr(st) or {})
                    if e.get("k") == "Macro":
                        continue
                    if e.get("k") == "Assign" and str(A.ftxt(e["left"])) == dst and str(A.ftxt(e["right"])) in ("%s.clone()" % src, "%s.to_vec()" % src):
                        ln = o0
                        continue
                    if e.get("k") != "MethodCall":
                        return None
                    recv = str(A.ftxt(A.strip(e["recv"])))
                    m_ = e["method"]
                    if recv == dst and m_ == "resize" and e["args"]:
                        v_ = val(e["args"][0])
                        if v_ is None:
                            return None
                        ln = v_
                    elif recv == dst and m_ == "clear":
                        ln = 0
                    elif recv == dst and m_ == "truncate" and e["args"]:
                        v_ = val(e["args"][0])
                        if v_ is None:
                            return None
                        ln = min(ln, v_)
                    elif recv == dst and m_ == "clone_from":
                        ln = o0
                    elif recv == dst and m_ in ("extend_from_slice", "extend") and e["args"]:
                        a = str(A.ftxt(A.strip(e["args"][0]))).lstrip("&")
                        mm = re.fullmatch(re.escape(src) + r"(?:\[(.*)\.\.\])?(?:\.iter\(\)(?:\.copied\(\)|\.cloned\(\))?)?", a)
                        if not mm:
                            return None
                        start = 0
                        if mm.group(1):
                            fake = {"k": "Path", "segs": [mm.group(1)]} if mm.group(1).isidentifier() else None
                            start = env.get(mm.group(1)) if fake is not None else None
                            if start is None:
                                return None
                        ln = ln + (o0 - start)
                    elif m_ == "copy_from_slice":
                        # whole-vector copy needs equal lengths (else it panics); a prefix copy leaves the length
                        if recv == dst and str(A.ftxt(A.strip(e["args"][0]))).lstrip("&") == src:
                            if ln != o0:
                                return None
                    else:
                        return None
                return ln

            bad = None
            for s0, o0 in itertools.product((0, 2, 5), (0, 3, 5)):
                got = length_after(s0, o0)
                if got != o0:
                    bad = (s0, o0, got)
                    break
            if bad is None:
                rule.ok("%s::copy_from leaves the destination with the source's length whatever it held" % (self_ty or "Vec<T>"), file=path, line=f["ln"])
            else:
                rule.bad("trace|copy_from|%s" % (self_ty or "Vec"), "%s::copy_from: a destination that held %d choices ends with %s after copying a trace of %d (the recycled allocation keeps a stale tail / the body is not a copy the checker can follow); the copy must equal its source whatever the allocation held before" % (self_ty or "Vec<T>", bad[0], bad[2] if bad[2] is not None else "an unknown length", bad[1]), A.where(f))
    if n < 2:
        rule.lost("the two Trace::copy_from implementations (found %d)" % n)


def r_var_rows_rewritten(rule, root=None):
    """the rows that carry a shape's free variables live in the evaluator's recycled scratch: whatever a previous call
    (another shape, an array-valued variable, zero padding after growth) left there must be overwritten, so the helpers
    that fill them write every element on every call - not only when the row "looks" different"""
    for name, writes in (("var_value", ("fill",)), ("var_array", ("copy_from_slice", "clone_from_slice"))):
        try:
            fn = A.find_fn(SHAPE, name, self_ty="ShapeBulkEval", root=root)
        except A.AnchorLost:
            rule.lost("ShapeBulkEval::%s" % name)
            continue
        # the row is the closure's slice parameter, whatever it is called
        data = "data"
        for clo_ in A.find(fn["body"], "Closure"):
            for p_ in clo_.get("inputs", clo_.get("params", [])):
                if p_.get("k") == "PType" and str(p_.get("ty") or "").replace(" ", "").startswith("&mut[") and A.binding_name(p_["pat"]):
                    data = A.binding_name(p_["pat"])
        ws = [c for c in A.find(fn["body"], "MethodCall") if c["method"] in writes and str(A.ftxt(A.strip(c["recv"]))) in (data, "*" + data)]
        if not ws:
            # an explicit element loop is the same thing
            loops = [f for f in A.find(fn["body"], "For") if data in str(A.ftxt(f["iter"]))]
            lenchk = re.compile(r"!?\(?(?:\w+\.len\(\)[!=]=%s\.len\(\)|%s\.len\(\)[!=]=\w+\.len\(\))\)?" % (re.escape(data), re.escape(data)))
            other = [c for c in (A.enclosing_conds(fn["body"], loops[0]) or []) if not lenchk.fullmatch(c.replace(" ", "")) and not c.replace(" ", "").lstrip("!(").startswith(("let", "match"))] if loops else []
            if loops and not other:
                rule.ok("ShapeBulkEval::%s writes every element of the row (loop)" % name, file=SHAPE, line=fn["ln"])
            else:
                rule.bad("%s|write" % name, "ShapeBulkEval::%s must overwrite the whole variable row it is handed" % name, A.where(SHAPE, fn))
            continue
        lenchk = re.compile(r"!?\(?(?:\w+\.len\(\)[!=]=%s\.len\(\)|%s\.len\(\)[!=]=\w+\.len\(\))\)?" % (re.escape(data), re.escape(data)))
        conds = [c for c in (A.enclosing_conds(fn["body"], ws[0]) or []) if not c.replace(" ", "").lstrip("!(").startswith(("let", "match")) and not lenchk.fullmatch(c.replace(" ", ""))]
        if conds:
            rule.bad("%s|conditional" % name, "ShapeBulkEval::%s rewrites the variable row only under `%s`: the row is recycled scratch, and a stale interior (an earlier array-valued variable, another shape's axis samples, +0.0 padding where -0.0 is wanted) passes any test that looks at a few elements" % (name, conds[-1][:80]), A.where(SHAPE, ws[0]))
        else:
            rule.ok("ShapeBulkEval::%s rewrites the whole row on every call" % name, file=SHAPE, line=ws[0]["ln"])


def run(ctx):
    r = ctx.rule("R1", "every evaluator sizes (and for choices, refills) its buffers from the tape before evaluating", 19)
    ctx.guarded(r, r1_buffers)
    from .. import shapecore as SC_

    r = ctx.rule("R1s", "the shape evaluators re-size their scratch on every call: one row per variable of this tape (at least one), every row - the placeholder row of a variable-free tape included - to this call's batch length", 3)
    ctx.guarded(r, SC_.r_shape_scratch)
    r = ctx.rule("R1v", "variable rows in the shape evaluator's scratch are rewritten in full on every call", 2)
    ctx.guarded(r, r_var_rows_rewritten)
    from .. import vmloops as V_

    r = ctx.rule("R1o", "Output arms of the four interpreter loops copy the register into the output row (a register is read again when one node feeds two outputs, and the output rows are the evaluator's own recycled buffers: nothing is moved or swapped)", 4)
    for label_ in ("point", "interval", "float_slice", "grad_slice"):
        ctx.guarded(r, lambda rule, label_=label_: V_.check_loop(rule, label_, only=("Output",)))
    r = ctx.rule("R2", "reset() of allocator, workspace and tapes re-initialises every field; simplify resets recycled storage", 16)
    ctx.guarded(r, r2_resets)
    r = ctx.rule("R2b", "copying a trace into a recycled allocation leaves exactly the source trace", 2)
    ctx.guarded(r, r_trace_copy)
    r = ctx.rule("R3", "recycled executable memory is overwritten from offset 0 and grown before a write past capacity", 4)
    ctx.guarded(r, r3_mmap)
    r = ctx.rule("R4", "pointer lists are cleared before each refill; scratch lanes refilled", 5)
    ctx.guarded(r, r4_pointer_lists)
    r = ctx.rule("R5", "render handles: cache keyed by trace, tape caches per shape, recycle order child -> tapes -> shape", 15)
    ctx.guarded(r, RH.r_cache_key)
    ctx.guarded(r, RH.r_recycle)
    # slot arrays survive between calls and are not cleared: results are history-free only because a tape
    # reads no register or spill slot before writing it - which is the allocator's load / store protocol
    from .. import allocproto as AP_

    r = ctx.rule("R6", "a compiled tape never reads a spill slot it did not store first (allocator protocol), so stale slots are unobservable", 21)
    ctx.guarded(r, AP_.r4_protocol)
    # simplify() writes its result into recycled storage: everything the result reports must come from the parent
    # and this simplification, never from what the storage held (C10j-1: the recycled storage's own variable map)
    from .. import simplify as S_

    r = ctx.rule("R7", "simplify's result takes nothing from the recycled storage it is written into: op accounting, loop tail and the parent's variable map", 6)
    ctx.guarded(r, S_.r_tail)
    ctx.include('C14', 'a variable array shorter than the row would leave the recycled tail of the row in use', only=('R3d',))
