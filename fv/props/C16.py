"""C16 - standard shapes and transforms (structural part): name-implied roles,
inverse-parameter convention and closed-form identities of the primitives."""
import re

import sympy as sp

from .. import ast as A
from .. import sym as S

LIB = "fidget-shapes/src/lib.rs"
TYPES = "fidget-shapes/src/types.rs"


def from_fn(ty, path=LIB, root=None):
    impls = [i for i in A.find_impls(path, self_ty="Tree", root=root) if (i.get("trait") or "").replace(" ", "") == "From<%s>" % ty]
    if len(impls) != 1:
        raise A.AnchorLost("impl From<%s> for Tree in %s" % (ty, path))
    f = [x for x in impls[0]["items"] if x.get("k") == "Fn" and x["name"] == "from"][0]
    f["_file"] = path
    return f


def body_expr(fn):
    env = S.SymEnv()
    tail = S.bind_lets(fn["body"]["stmts"], env)
    return tail, env


def L(s, env):
    """parse an expected formula over the env's real symbols"""
    names = set(sp.sympify(s, evaluate=False).free_symbols) if False else None
    loc = {}
    import re

    for n in set(re.findall(r"[A-Za-z_][A-Za-z_0-9]*", s)):
        if n not in ("sqrt", "Max", "Min", "Abs", "Mod", "oo", "pi"):
            loc[n] = env.sym(n)
    return sp.sympify(s, locals=loc)


PRIMS = {
    # type: (file, expected formula)
    "Circle": (LIB, "sqrt((x-center_x)**2 + (y-center_y)**2) - radius"),
    "Sphere": (LIB, "sqrt((x-center_x)**2 + (y-center_y)**2 + (z-center_z)**2) - radius"),
    "Rectangle": (LIB, "Max(lower_x - x, x - upper_x, lower_y - y, y - upper_y)"),
    "Box": (LIB, "Max(lower_x - x, x - upper_x, lower_y - y, y - upper_y, lower_z - z, z - upper_z)"),
    "Plane": (TYPES, "x*axis_x + y*axis_y + z*axis_z - offset"),
    "Inverse": (LIB, "-shape"),
    "Difference": (LIB, "Max(shape, -cutout)"),
}


def r_primitives(rule, root=None):
    for ty, (path, want) in PRIMS.items():
        try:
            fn = from_fn(ty, path, root)
            tail, env = body_expr(fn)
            got = S.to_sym(tail, env)
            w = L(want, env)
            if S.equal(got, w):
                rule.ok("%s = %s" % (ty, want), file=path, line=fn["ln"])
            else:
                rule.bad(ty, "%s builds `%s`; its documented geometry is `%s`" % (ty, got, want), A.where(path, fn))
        except S.Untranslatable as e:
            rule.bad("%s|untranslatable" % ty, "%s: expression no longer closed-form (%s)" % (ty, e), "")
        except A.AnchorLost as e:
            rule.lost(e.what)
    # Union / Intersection: pairwise min / max, empty -> +inf / -inf
    for ty, op, other, inf in (("Union", "min", "max", "f32::INFINITY"), ("Intersection", "max", "min", "-f32::INFINITY")):
        fn = from_fn(ty, LIB, root)
        t = A.ftxt(fn["body"]) + "".join(A.ftxt(f["body"]) for f in A.find(fn["body"], "Fn"))
        calls = [c["method"] for c in A.find(fn["body"], "MethodCall") if c["method"] in ("min", "max")]
        consts = [A.ftxt(c["args"][0]) for c in A.find(fn["body"], "Call") if (A.path_segs(c["func"]) or [])[-2:] == ["Tree", "constant"]]
        mm = [c for c in A.find(fn["body"], "MethodCall") if c["method"] in ("min", "max")]
        both_rec = False
        if len(mm) == 1:
            sides = [A.strip(mm[0]["recv"]), A.strip(mm[0]["args"][0])] if mm[0]["args"] else []
            inner = [f["name"] for f in A.find(fn["body"], "Fn")]
            both_rec = len(sides) == 2 and all(x.get("k") == "Call" and (A.path_segs(x["func"]) or [None])[-1] in inner for x in sides)
            halves = [str(A.ftxt(x["args"][0])) for x in sides if x.get("k") == "Call" and x["args"]]
        split_ok = both_rec and (sorted(halves) == sorted(["&s[..(n/2)]", "&s[(n/2)..]"]) or ("split_at(" in t and len(set(halves)) == 2))
        const_nodes = [c for c in A.find(fn["body"], "Call") if (A.path_segs(c["func"]) or [])[-2:] == ["Tree", "constant"]]
        guarded = bool(const_nodes) and any("v.input.is_empty()" in c_ for c_ in (A.enclosing_conds(fn["body"], const_nodes[0]) or []))
        if calls == [op] and consts == [inf] and split_ok and guarded:
            rule.ok("%s folds its inputs with %s; empty input is %s" % (ty, op, inf), file=LIB, line=fn["ln"])
        else:
            rule.bad(ty, "%s must fold all inputs with `%s` (found %s) and return %s for no inputs (found %s)" % (ty, op, calls, inf, consts), A.where(LIB, fn))


def ctor_args(fn, tail_name):
    """arguments of the single `...::<tail_name>::new(a, b, c)` call; `<tail_name>::from(Vector3::from(E))` with E
    an expression over the shape's vector fields is read component by component (the vector operators act
    component-wise: C16.R5)"""
    import copy

    for c in A.find(fn["body"], "Call"):
        segs = A.path_segs(c["func"]) or []
        if len(segs) >= 2 and segs[-1] == "new" and segs[-2] == tail_name:
            return c["args"]
    for c in A.find(fn["body"], "Call"):
        segs = A.path_segs(c["func"]) or []
        if len(segs) >= 2 and segs[-1] == "from" and A.strip_generics(segs[-2]) == tail_name and len(c["args"]) == 1:
            e = A.strip(c["args"][0])
            while e.get("k") == "Call" and (A.path_segs(e["func"]) or [None])[-1] == "from" and "Vector3" in "::".join(A.path_segs(e["func"]) or []) and len(e["args"]) == 1:
                e = A.strip(e["args"][0])
            while e.get("k") == "MethodCall" and e["method"] == "into" and not e["args"]:
                e = A.strip(e["recv"])
            out = []
            for comp in ("x", "y", "z"):
                ec = copy.deepcopy(e)

                def rec(n):
                    if isinstance(n, list):
                        return [rec(x) for x in n]
                    if not isinstance(n, dict):
                        return n
                    if n.get("k") == "Field" and str(n.get("member")) in ("offset", "scale", "center") and A.ident(A.strip(n["e"])):
                        return {"k": "Field", "e": n, "member": comp, "ln": n.get("ln")}
                    return {k_: (rec(v_) if isinstance(v_, (dict, list)) and k_[:1] != "_" else v_) for k_, v_ in n.items()}

                out.append(rec(ec))
            return out
    return None


def r_transforms(rule, root=None):
    # Move: translate by -offset
    fn = from_fn("Move", root=root)
    env = S.SymEnv()
    args = ctor_args(fn, "Translation3")
    want = ["-offset_x", "-offset_y", "-offset_z"]
    _cmp_args(rule, "Move", fn, args, want, env, "translation by the negated offset (T(s)(p) = s(p - offset))")
    if "remap_affine" not in A.unparse(fn["body"]):
        rule.bad("Move|remap", "Move must remap_affine its shape", A.where(LIB, fn))
    fn = from_fn("Scale", root=root)
    _cmp_args(rule, "Scale", fn, ctor_args(fn, "Scale3"), ["1/scale_x", "1/scale_y", "1/scale_z"], S.SymEnv(), "scaling by the reciprocal factors")
    fn = from_fn("ScaleUniform", root=root)
    env = S.SymEnv()
    S.bind_lets(fn["body"]["stmts"], env)
    _cmp_args(rule, "ScaleUniform", fn, ctor_args(fn, "Scale3"), ["1/scale", "1/scale", "1/scale"], env, "scaling by the reciprocal factor")
    # Reflect: p - 2 (a.p - offset) a
    fn = from_fn("Reflect", root=root)
    env = S.SymEnv()
    S.bind_lets(fn["body"]["stmts"], env)
    remap = [c for c in A.find(fn["body"], "MethodCall") if c["method"] == "remap_xyz"]
    if len(remap) != 1:
        rule.bad("Reflect|shape", "Reflect must remap_xyz once", A.where(LIB, fn))
    else:
        d = "(plane_axis_x*x + plane_axis_y*y + plane_axis_z*z - plane_offset)"
        want = ["x - 2*%s*plane_axis_x" % d, "y - 2*%s*plane_axis_y" % d, "z - 2*%s*plane_axis_z" % d]
        _cmp_args(rule, "Reflect", fn, remap[0]["args"], want, env, "mirror image p - 2(a.p - offset)a")
    # ReflectX/Y/Z, RotateX/Y/Z: namesake axis, fields passed through
    for ax in "XYZ":
        fn = from_fn("Reflect%s" % ax, root=root)
        st = [s for s in A.find(fn["body"], "Struct") if A.path_segs(s["path"])[-1] == "Plane"]
        outer = [s for s in A.find(fn["body"], "Struct") if A.path_segs(s["path"])[-1] == "Reflect"]
        ok = False
        if len(st) == 1 and len(outer) == 1:
            f = {x["name"]: A.ftxt(x["e"]) for x in st[0]["fields"]}
            o = {x["name"]: A.ftxt(x["e"]) for x in outer[0]["fields"]}
            if "axis" not in f and st[0].get("rest") is not None:
                # `Plane { offset: .., ..Plane::YZ }`: the axis is the named plane's (whose definition R1 checks)
                segs_ = A.path_segs(st[0]["rest"]) or []
                if len(segs_) == 2 and segs_[0] == "Plane":
                    for c_ in A.find_items(TYPES, "Const", segs_[1], root):
                        for s2 in A.find(c_.get("e"), "Struct"):
                            for x2 in s2["fields"]:
                                if x2["name"] == "axis":
                                    f["axis"] = A.ftxt(x2["e"])
            ok = f.get("axis") == "Axis::%s" % ax and f.get("offset") == "v.offset" and o.get("shape") == "v.shape"
            got = f.get("axis")
        if ok:
            rule.ok("Reflect%s mirrors about the plane normal to Axis::%s at v.offset" % (ax, ax), file=LIB, line=fn["ln"])
        else:
            rule.bad("Reflect%s" % ax, "Reflect%s must be Reflect { shape: v.shape, plane: Plane { axis: Axis::%s, offset: v.offset } }" % (ax, ax), A.where(LIB, fn))
        fn = from_fn("Rotate%s" % ax, root=root)
        st = [s for s in A.find(fn["body"], "Struct") if A.path_segs(s["path"])[-1] == "Rotate"]
        ok = False
        if len(st) == 1:
            f = {x["name"]: A.ftxt(x["e"]) for x in st[0]["fields"]}
            ok = f == {"shape": "v.shape", "angle": "v.angle", "center": "v.center", "axis": "Axis::%s" % ax}
        if ok:
            rule.ok("Rotate%s rotates about Axis::%s by v.angle around v.center" % (ax, ax), file=LIB, line=fn["ln"])
        else:
            rule.bad("Rotate%s" % ax, "Rotate%s must forward shape/angle/center and use Axis::%s; found %s" % (ax, ax, f if st else "?"), A.where(LIB, fn))
    # Rotate: Move(-c), rotate by -angle (radians) about axis, Move(c) - read from the resolved result (locals and
    # private helpers folded in), outermost step first
    fn = from_fn("Rotate", root=root)
    par = [A.binding_name(p_["pat"]) for p_ in fn["sig"]["inputs"] if "pat" in p_][0]
    res = _resolve_body(fn)
    probs = []

    def peel(e):
        e = A.strip(e)
        while True:
            if e.get("k") == "MethodCall" and e["method"] in ("into", "clone") and not e["args"]:
                e = A.strip(e["recv"])
            elif e.get("k") == "Call" and (A.path_segs(e["func"]) or [])[-2:] == ["Tree", "from"] and len(e["args"]) == 1:
                e = A.strip(e["args"][0])
            elif e.get("k") in ("Block",) and len(A.stmts_of(e)) == 1 and A.stmt_expr(A.stmts_of(e)[0]) is not None:
                e = A.strip(A.stmt_expr(A.stmts_of(e)[0]))
            else:
                return e

    def canon(e):
        return re.sub(r"[()&]", "", str(A.ftxt(e)))

    outer = peel(res) if res is not None else {}
    inner = rot = None
    if outer.get("k") == "Struct" and A.path_segs(outer["path"])[-1] == "Move":
        f1 = {x["name"]: x["e"] for x in outer["fields"]}
        if canon(f1.get("offset", {"k": "Path", "segs": ["?"]})) != "%s.center" % par:
            probs.append("the last step must move the rotated shape back by v.center (found offset `%s`)" % str(A.ftxt(f1.get("offset") or {}))[:40])
        mid = peel(f1.get("shape") or {})
        if mid.get("k") == "MethodCall" and mid["method"] == "remap_affine" and len(mid["args"]) == 1:
            rot = mid["args"][0]
            inner = peel(mid["recv"])
        else:
            probs.append("between the two moves the shape must be remapped by the rotation (remap_affine)")
    else:
        probs.append("expected two Move steps around the rotation")
    if inner is not None:
        if inner.get("k") == "Struct" and A.path_segs(inner["path"])[-1] == "Move":
            f0 = {x["name"]: x["e"] for x in inner["fields"]}
            if canon(f0.get("offset") or {}) != "-%s.center" % par or canon(f0.get("shape") or {}) != "%s.shape" % par:
                probs.append("the first step must move the shape by -v.center (found %s)" % {k_: str(A.ftxt(v_))[:30] for k_, v_ in f0.items()})
        else:
            probs.append("expected two Move steps around the rotation")
    if rot is not None:
        rt = canon(rot)
        m_ = re.search(r"Rotation3::<f32>::newnalgebra::Vector3::from(.*)$", rt)
        if not m_:
            probs.append("the rotation must be nalgebra::Rotation3::new(Vector3::from(d * axis))")
        else:
            arg = m_.group(1)
            ok_ax = arg.endswith("**%s.axis.vec" % par)
            dtxt = arg[: -len("**%s.axis.vec" % par)] if ok_ax else arg
            if not ok_ax:
                probs.append("the rotation must be about the shape's own axis vector, scaled by the angle (found `%s`)" % arg[:60])
            elif dtxt not in ("-%s.angle.to_radians" % par, "-%s.angle.to_radians" % par):
                probs.append("the rotation applied to coordinates must be -angle converted from degrees (found d = %s)" % dtxt[:60])
    if probs:
        for p in probs:
            rule.bad("Rotate|%s" % p[:40], "Rotate: %s" % p, A.where(LIB, fn))
    else:
        rule.ok("Rotate = Move(c) . R(axis, -angle deg) . Move(-c)", file=LIB, line=fn["ln"])
    # RevolveY
    fn = from_fn("RevolveY", root=root)
    env = S.SymEnv()
    S.bind_lets(fn["body"]["stmts"], env)
    remap = [c for c in A.find(fn["body"], "MethodCall") if c["method"] == "remap_xyz"]
    if len(remap) == 1:
        _cmp_args(rule, "RevolveY", fn, remap[0]["args"][:2], ["sqrt(x**2 + z**2)", "y"], env, "radius measured in the plane normal to Y, height kept")
    else:
        rule.bad("RevolveY|shape", "RevolveY must remap_xyz once", A.where(LIB, fn))
    t = A.ftxt(fn["body"])
    mo = t.fmatch("let$O=Vec3::new(v.offset,0.0,0.0);") or t.fmatch("let$O=Vec3::new(-v.offset,0.0,0.0);")  # the sign is R3b's business
    mvs = [s_ for s_ in A.find(fn["body"], "Struct") if (A.path_segs(s_["path"]) or [None])[-1] == "Move"]
    offs = sorted(str(A.ftxt(x["e"])) for s_ in mvs for x in s_["fields"] if x["name"] == "offset")
    if mo is not None and offs == sorted(["-%s" % mo["$O"], mo["$O"]]):
        rule.ok("RevolveY shifts along X by its offset before and back after revolving")
    else:
        rule.bad("RevolveY|offset", "RevolveY must move by +/-offset along X only around the revolve", A.where(LIB, fn))
    # ExtrudeZ
    fn = from_fn("ExtrudeZ", root=root)
    env = S.SymEnv()
    tail = S.bind_lets(fn["body"]["stmts"], env)
    remap = [c for c in A.find(fn["body"], "MethodCall") if c["method"] == "remap_xyz"]
    if len(remap) == 1:
        _cmp_args(rule, "ExtrudeZ", fn, remap[0]["args"], ["x", "y", "0"], env, "the XY profile is evaluated at z = 0")
        env.vars["t"] = env.sym("profile")
        try:
            got = S.to_sym(tail, env)
            if S.equal(got, L("Max(profile, lower - z, z - upper)", env)):
                rule.ok("ExtrudeZ = max(profile, lower - z, z - upper)")
            else:
                rule.bad("ExtrudeZ|bounds", "ExtrudeZ clips with `%s`, expected max(profile, lower - z, z - upper)" % got, A.where(LIB, fn))
        except S.Untranslatable as e:
            rule.bad("ExtrudeZ|untranslatable", str(e), A.where(LIB, fn))
    else:
        rule.bad("ExtrudeZ|shape", "ExtrudeZ must remap_xyz once", A.where(LIB, fn))
    # LoftZ
    fn = from_fn("LoftZ", root=root)
    env = S.SymEnv()
    remaps = [c for c in A.find(fn["body"], "MethodCall") if c["method"] == "remap_xyz"]
    env0 = S.SymEnv()
    S.bind_lets(fn["body"]["stmts"][:1], env0)
    if len(remaps) == 2:
        for i, r in enumerate(remaps):
            _cmp_args(rule, "LoftZ#%d" % i, fn, r["args"], ["x", "y", "0"], env0, "profiles evaluated at z = 0")
    env = S.SymEnv()
    stmts = fn["body"]["stmts"]
    S.bind_lets(stmts[:1], env)
    env.vars["ta"] = env.sym("A")
    env.vars["tb"] = env.sym("B")
    tail = S.bind_lets([s for s in stmts[1:] if not (s.get("k") == "Let" and A.binding_name(s["pat"]) in ("ta", "tb"))], env)
    try:
        got = S.to_sym(tail, env)
        want = L("Max(((z - lower)*B + (upper - z)*A)/(upper - lower), lower - z, z - upper)", env)
        if S.equal(got, want):
            rule.ok("LoftZ interpolates a (at lower) to b (at upper) and clips to [lower, upper]")
        else:
            rule.bad("LoftZ|formula", "LoftZ builds `%s`" % got, A.where(LIB, fn))
    except S.Untranslatable as e:
        rule.bad("LoftZ|untranslatable", str(e), A.where(LIB, fn))
    # RepeatX
    fn = from_fn("RepeatX", root=root)
    env = S.SymEnv()
    S.bind_lets(fn["body"]["stmts"], env)
    remap = [c for c in A.find(fn["body"], "MethodCall") if c["method"] == "remap_xyz"]
    if len(remap) == 1:
        _cmp_args(rule, "RepeatX", fn, remap[0]["args"], ["Mod(x + (radius - offset), 2*radius) - (radius - offset)", "y", "z"], env, "x wrapped with period 2*radius, y and z untouched")
    else:
        rule.bad("RepeatX|shape", "RepeatX must remap_xyz once", A.where(LIB, fn))



def _cond_excludes_zero(c, var):
    """does the condition text (spaces removed) imply var != 0 by being `var > 0`"""
    c = c.replace(" ", "")
    while c.startswith("(") and c.endswith(")"):
        c = c[1:-1]
    zero = r"(0\.0|0\.|0\.0f32|0f32|0\.0_f32)"
    import re

    pos = [r"%s>%s" % (re.escape(var), zero), r"%s<%s" % (zero, re.escape(var)), r"!\(?%s<=%s\)?" % (re.escape(var), zero), r"!\(?%s>=%s\)?" % (zero, re.escape(var))]
    return any(re.fullmatch(x, c) for x in pos)


def r_blend(rule, root=None):
    """Blend: smooth minimum `min(a, b) - max(r - |a - b|, 0)^2 / (4 r)` for a positive radius, the plain
    union otherwise.  The smooth formula divides by the radius, so the branch that uses it must be guarded
    by `radius > 0` - at exactly 0 it is inf * 0 = NaN everywhere."""
    fn = from_fn("Blend", root=root)
    ifs = [n for n in A.find(fn["body"], "If")]
    env = S.SymEnv()
    try:
        if len(ifs) != 1:
            # branch-free form: must equal the smooth minimum and be safe at radius 0 - not expressible, so demand the guard
            rule.bad("Blend|guard", "Blend must select between the smooth formula (radius > 0) and the plain minimum", A.where(LIB, fn))
            return
        node = ifs[0]
        c = str(A.ftxt(A.strip(node["cond"])))
        then_e, else_e = node["then"], node.get("else")
        pos_first = _cond_excludes_zero(c, "v.radius")
        neg_first = _cond_excludes_zero("!(%s)" % c, "v.radius") or _cond_excludes_zero(("!" + c) if not c.startswith("!") else c[1:], "v.radius")
        if not pos_first and not neg_first:
            rule.bad("Blend|guard", "Blend chooses its smooth formula under `%s`; the formula divides by 4 * radius, so the guard must be exactly radius > 0 (at radius = 0 it is inf * 0 = NaN at every point)" % c, A.where(LIB, node))
            return
        smooth, plain = (then_e, else_e) if pos_first else (else_e, then_e)

        def val(e):
            ev = S.SymEnv()
            # lets in front of the branch are shared by both arms
            outer = [s_ for s_ in fn["body"]["stmts"] if s_.get("k") == "Let"]
            S.bind_lets(outer, ev)
            stmts = e.get("stmts") if e.get("k") == "Block" else None
            if stmts is None and e.get("k") in ("Block",):
                stmts = []
            if stmts is None:
                return S.to_sym(e, ev), ev
            tail = S.bind_lets(stmts, ev)
            return S.to_sym(tail, ev), ev

        got_s, ev1 = val(smooth)
        got_p, ev2 = val(plain)
        w_s = L("Min(a, b) - Max(radius - Abs(a - b), 0)**2 / (4*radius)", ev1)
        w_p = L("Min(a, b)", ev2)
        if not S.equal(got_s, w_s):
            rule.bad("Blend|smooth", "Blend's smooth branch builds `%s`; the documented quadratic blend is min(a, b) - max(r - |a - b|, 0)^2 / (4 r)" % got_s, A.where(LIB, fn))
        elif not S.equal(got_p, w_p):
            rule.bad("Blend|plain", "Blend's fallback builds `%s`, expected min(a, b)" % got_p, A.where(LIB, fn))
        else:
            rule.ok("Blend = min(a, b) - max(r - |a - b|, 0)^2 / (4 r) for r > 0 (strict), min(a, b) otherwise", file=LIB, line=fn["ln"])
    except S.Untranslatable as e:
        rule.bad("Blend|untranslatable", "Blend: expression no longer closed-form (%s)" % e, A.where(LIB, fn))


def r_reflect_xy(rule, root=None):
    """ReflectXY is documented as the reflection about the X = Y line: with no offset a point (x, y, z) is
    looked up at (y, x, z), i.e. the mirror plane's normal is a positive or negative multiple of (-1, 1, 0)"""
    fn = from_fn("ReflectXY", root=root)
    st = [s_ for s_ in A.find(fn["body"], "Struct") if A.path_segs(s_["path"])[-1] == "Plane"]
    outer = [s_ for s_ in A.find(fn["body"], "Struct") if A.path_segs(s_["path"])[-1] == "Reflect"]
    if len(st) != 1 or len(outer) != 1:
        rule.bad("ReflectXY|shape", "ReflectXY must be Reflect { shape, plane: Plane { axis, offset } }", A.where(LIB, fn))
        return
    f = {x["name"]: x["e"] for x in st[0]["fields"]}
    o = {x["name"]: A.ftxt(x["e"]) for x in outer[0]["fields"]}
    vec = [c for c in A.find(f.get("axis"), "Call") if (A.path_segs(c["func"]) or [])[-2:] == ["Vec3", "new"]] if f.get("axis") is not None else []
    if not vec and f.get("axis") is not None and A.ident(A.strip(f["axis"])):
        lets = [s_ for s_ in A.find(fn["body"], "Let") if A.binding_name(s_["pat"]) == A.ident(A.strip(f["axis"])) and s_.get("init") is not None]
        if len(lets) == 1:
            vec = [c for c in A.find(lets[0]["init"], "Call") if (A.path_segs(c["func"]) or [])[-2:] == ["Vec3", "new"]]
    comps = [A.lit_value(a) for a in vec[0]["args"]] if len(vec) == 1 else []
    if len(comps) != 3 or any(c is None for c in comps):
        rule.bad("ReflectXY|axis", "ReflectXY's mirror normal must be a literal Vec3", A.where(LIB, fn))
        return
    nx, ny, nz = [sp.nsimplify(c) for c in comps]
    n2 = nx * nx + ny * ny + nz * nz
    x, y, z = sp.symbols("x y z", real=True)
    if n2 == 0:
        rule.bad("ReflectXY|axis", "ReflectXY's mirror normal is the zero vector", A.where(LIB, fn))
        return
    d = (nx * x + ny * y + nz * z) / n2
    img = (sp.simplify(x - 2 * d * nx), sp.simplify(y - 2 * d * ny), sp.simplify(z - 2 * d * nz))
    if img != (y, x, z):
        rule.bad("ReflectXY|axis", "ReflectXY mirrors about the plane normal to (%s, %s, %s), which sends (x, y, z) to %s; the reflection about the X = Y line is (y, x, z)" % (nx, ny, nz, img), A.where(LIB, fn))
    elif str(A.ftxt(f.get("offset"))) != "v.offset" or o.get("shape") != "v.shape":
        rule.bad("ReflectXY|fields", "ReflectXY must forward v.shape and v.offset", A.where(LIB, fn))
    else:
        rule.ok("ReflectXY sends (x, y, z) to (y, x, z): normal (%s, %s, %s)" % (nx, ny, nz), file=LIB, line=fn["ln"])


COVERED = set("""Circle Rectangle Sphere Box Union Blend Intersection Inverse Difference Move Scale ScaleUniform Reflect
ReflectX ReflectXY ReflectY ReflectZ Rotate RotateX RotateY RotateZ RevolveY ExtrudeZ LoftZ RepeatX""".split())


def r_inventory(rule, root=None):
    """every shape the library converts into a Tree has a closed-form rule here (a new shape is listed as unanalysed)"""
    have = set()
    for i in A.find_impls(LIB, self_ty="Tree", root=root):
        t = (i.get("trait") or "").replace(" ", "")
        if t.startswith("From<") and t.endswith(">"):
            have.add(t[5:-1])
    for n in sorted(have):
        if n in COVERED:
            rule.ok("From<%s> for Tree has a rule" % n)
        else:
            rule.skip("From<%s> for Tree" % n, "new shape without a closed-form rule")
    miss = COVERED - have
    if miss:
        rule.lost("impl From<%s> for Tree" % sorted(miss)[0])


class ShapeSym:
    """compose the transform combinators of a From<..> body symbolically: a shape is a map
    from a point to S(point'); Move and remap_xyz substitute coordinates"""

    def __init__(self):
        self.env = S.SymEnv()
        self.vals = {}
        self.S = sp.Function("S")
        self.X = (self.env.sym("x"), self.env.sym("y"), self.env.sym("z"))

    def base(self):
        return lambda p: self.S(*p)

    def ev(self, e):
        e = A.strip(e)
        k = e.get("k")
        if k == "Path" and len(e["segs"]) == 1 and e["segs"][0] in self.vals:
            return self.vals[e["segs"][0]]
        if k == "MethodCall" and e["method"] in ("clone", "into") and not e["args"]:
            return self.ev(e["recv"])
        if k == "Field" and A.ftxt(e) == "v.shape":
            return self.base()
        if k == "Call":
            segs = A.path_segs(e["func"]) or []
            if segs[-2:] == ["Vec3", "new"]:
                return tuple(S.to_sym(a, self.env) for a in e["args"])
            if segs[-2:] == ["Tree", "from"]:
                return self.ev(e["args"][0])
        if k == "Unary" and e["op"] == "-":
            v = self.ev(e["e"])
            if isinstance(v, tuple):
                return tuple(-c for c in v)
            return -v
        if k == "Struct" and A.path_segs(e["path"])[-1] == "Move":
            f = {x["name"]: x["e"] for x in e["fields"]}
            shape = self.ev(f["shape"])
            off = self.ev(f["offset"])
            if not callable(shape) or not isinstance(off, tuple):
                raise S.Untranslatable("Move of %s" % A.unparse(e)[:40])
            return lambda p, shape=shape, off=off: shape(tuple(a - b for a, b in zip(p, off)))
        if k == "MethodCall" and e["method"] == "remap_xyz":
            shape = self.ev(e["recv"])
            coords = [self.ev(a) for a in e["args"]]
            if not callable(shape):
                raise S.Untranslatable("remap of a non-shape")

            def f(p, shape=shape, coords=coords):
                sub = dict(zip(self.X, p))
                return shape(tuple(sp.sympify(c).subs(sub, simultaneous=True) for c in coords))

            return f
        return S.to_sym(e, self.env)

    def run(self, fn):
        tail = None
        for s in fn["body"]["stmts"]:
            if s.get("k") == "Let":
                p = s["pat"]
                if p.get("k") == "PTuple" and "axes" in A.unparse(s.get("init")):
                    for n, ax in zip(p["elems"], self.X):
                        self.vals[A.binding_name(n)] = ax
                        self.env.vars[A.binding_name(n)] = ax
                    continue
                nm = A.binding_name(p)
                v = self.ev(s["init"])
                self.vals[nm] = v
                if not callable(v) and not isinstance(v, tuple):
                    self.env.vars[nm] = v
                continue
            e = A.stmt_expr(s)
            if e is not None and not s.get("semi"):
                tail = e
        out = self.ev(tail)
        if not callable(out):
            raise S.Untranslatable("result is not a shape")
        return out(self.X)


def r_revolve_composition(rule, root=None):
    fn = from_fn("RevolveY", root=root)
    ss = ShapeSym()
    try:
        got = ss.run(fn)
        x, y, z = ss.X
        o = ss.env.sym("offset")
        want = ss.S(sp.sqrt((x - o) ** 2 + z ** 2) + o, y, z)
        a, b = got.args, want.args
        if got.func == ss.S and len(a) == 3 and S.equal(a[0], b[0]) and S.equal(a[1], b[1]):
            rule.ok("RevolveY(s, offset)(p) = s(dist(p, axis x = offset) + offset, y)", file=LIB, line=fn["ln"])
        else:
            rule.bad("RevolveY|composition", "RevolveY evaluates its shape at (%s, %s); revolving about the vertical axis through x = offset means (%s, %s)" % (a[0], a[1], b[0], b[1]), A.where(LIB, fn))
    except (S.Untranslatable, KeyError, TypeError) as e:
        rule.bad("RevolveY|composition|shape", "RevolveY is no longer a Move / remap_xyz / Move composition the checker understands (%s)" % e, A.where(LIB, fn))


def _cmp_args(rule, name, fn, args, want, env, what):
    if args is None or len(args) != len(want):
        rule.bad("%s|args" % name, "%s: expected %d coordinate expressions (%s)" % (name, len(want), what), A.where(LIB, fn))
        return
    for i, (a, w) in enumerate(zip(args, want)):
        try:
            got = S.to_sym(a, env)
        except S.Untranslatable as e:
            rule.bad("%s|%d|untranslatable" % (name, i), "%s coordinate %d: %s" % (name, i, e), A.where(LIB, fn))
            continue
        if S.equal(got, L(w, env)):
            rule.ok("%s coordinate %d = %s" % (name, i, w), file=LIB, line=fn["ln"])
        else:
            rule.bad("%s|%d" % (name, i), "%s coordinate %d is `%s`, expected `%s` (%s)" % (name, i, got, w, what), A.where(LIB, fn))


def r_named_constants(rule, root=None):
    want_axis = {"X": (1, 0, 0), "Y": (0, 1, 0), "Z": (0, 0, 1)}
    for c in A.find_items(TYPES, "Const", root=root):
        imp = c.get("_impl")
        if imp is None:
            continue
        ty = imp["self_ty"].replace(" ", "")
        if ty == "Axis" and c["name"] in want_axis:
            st = list(A.find(c["e"], "Struct"))
            vals = None
            if st:
                f = {x["name"]: A.lit_value(x["e"]) for x in st[0]["fields"]}
                vals = (f.get("x"), f.get("y"), f.get("z"))
            if vals == tuple(float(v) for v in want_axis[c["name"]]):
                rule.ok("Axis::%s = %s" % (c["name"], vals), file=TYPES, line=c["ln"])
            else:
                rule.bad("Axis::%s" % c["name"], "Axis::%s is %s" % (c["name"], vals), A.where(TYPES, c))
        if ty == "Plane" and len(c["name"]) == 2 and set(c["name"]) <= set("XYZ"):
            missing = (set("XYZ") - set(c["name"])).pop()
            st = list(A.find(c["e"], "Struct"))
            f = {x["name"]: A.ftxt(x["e"]) for x in st[0]["fields"]} if st else {}
            if f.get("axis") == "Axis::%s" % missing and A.lit_value([x for x in st[0]["fields"] if x["name"] == "offset"][0]["e"]) == 0:
                rule.ok("Plane::%s is normal to %s through the origin" % (c["name"], missing), file=TYPES, line=c["ln"])
            else:
                rule.bad("Plane::%s" % c["name"], "Plane::%s has axis %s; the plane named %s is normal to Axis::%s" % (c["name"], f.get("axis"), c["name"], missing), A.where(TYPES, c))
    # Axis::try_from normalises
    fn = A.find_fn(TYPES, "try_from", self_ty="Axis", root=root)
    t = A.ftxt(fn["body"])
    okn = False
    n_ok_results = sum(1 for c in A.find(fn["body"], "Call") if A.is_path(c["func"], "Ok") and len(c["args"]) == 1)
    for c in A.find(fn["body"], "Call"):
        if A.is_path(c["func"], "Ok") and len(c["args"]) == 1:
            inner = A.strip(c["args"][0])
            if inner.get("k") == "Call" and (A.path_segs(inner["func"]) or [None])[-1] in ("Self", "Axis") and len(inner["args"]) == 1:
                d = A.strip(inner["args"][0])
                if d.get("k") == "Binary" and d["op"] == "/" and A.ident(A.strip(d["left"])) == "value":
                    nrm = A.strip(d["right"])
                    src = None
                    if A.ident(nrm):
                        lets = [l_ for l_ in A.find(fn["body"], "Let") if A.binding_name(l_["pat"]) == A.ident(nrm) and l_.get("init") is not None]
                        if len(lets) == 1:
                            src = str(A.ftxt(lets[0]["init"]))
                        for p_, scr_ in (A.enclosing_patterns(fn["body"], c) or []):
                            if A.binding_name(p_) == A.ident(nrm):
                                src = str(A.ftxt(scr_))
                    else:
                        src = str(A.ftxt(nrm))
                    okn = src == "value.norm()"
    if okn and n_ok_results > 1:
        okn = False  # a second way to succeed (a "close enough to unit" shortcut) hands back an unnormalised vector
    if okn:
        rule.ok("Axis::try_from normalises to unit length")
    else:
        rule.bad("Axis::try_from", "Axis::try_from must divide by the vector's norm on every successful path (one Ok, of value / norm)", A.where(fn))
    # ... and `norm` is the Euclidean length (what makes value / value.norm() a unit vector)
    for ty, comps in (("Vec2", "xy"), ("Vec3", "xyz")):
        try:
            nf = A.find_fn(TYPES, "norm", self_ty=ty, root=root)
        except A.AnchorLost:
            rule.lost("%s::norm" % ty)
            continue
        env = S.SymEnv()
        syms = {c_: env.sym("v" + c_) for c_ in comps}
        env.vars["self"] = dict(syms, __prefix__="self")
        try:
            got = S.to_sym(A.unblock(nf["body"]), env)
            want = sp.sqrt(sum(v_ ** 2 for v_ in syms.values()))
            good = sp.simplify(got - want) == 0
        except Exception as e_:  # noqa: BLE001
            got, good = "? (%s)" % e_, False
        if not good and _norm_is_euclidean(nf, list(comps)):
            good = True  # squares taken through the component-wise `map` helper (which R5 reads)
        if good:
            rule.ok("%s::norm is the Euclidean length" % ty, file=TYPES, line=nf["ln"])
        else:
            rule.bad("%s::norm" % ty, "%s::norm computes `%s`; axes are made unit by dividing by it, so it must be sqrt(%s)" % (ty, got, " + ".join("%s^2" % c_ for c_ in comps)), A.where(nf))


from . import C13  # noqa: E402




def _subst_tree(e, env, here=None, depth=0):
    """a copy of `e` with the locals in `env` replaced by what they stand for (struct-field shorthand included) and
    calls to private free functions of the same file replaced by their resolved bodies"""
    import copy

    def fix(n):
        if isinstance(n, list):
            return [fix(x) for x in n]
        if not isinstance(n, dict):
            return n
        sn = n
        if n.get("k") == "Path" and len(n.get("segs", [])) == 1 and n["segs"][0] in env:
            return env[n["segs"][0]]
        out = {}
        for kk, vv in n.items():
            if kk[:1] == "_":
                out[kk] = vv
            elif isinstance(vv, (dict, list)):
                out[kk] = fix(vv)
            else:
                out[kk] = vv
        if out.get("k") == "Struct":
            for f in out.get("fields", []):
                if f.get("e") is None and f["name"] in env:
                    f["e"] = env[f["name"]]
        if out.get("k") == "Call" and here is not None and depth < 3:
            segs = A.path_segs(out["func"]) or []
            if len(segs) == 1:
                callee = A._same_file_fn(here, segs[0])
                if callee is not None and dict.get(callee, "body") and not (callee.get("_owner") or {}):
                    ps = [A.binding_name(p_["pat"]) for p_ in callee["sig"]["inputs"] if "pat" in p_]
                    if len(ps) == len(out["args"]) and None not in ps:
                        r_ = _resolve_body(callee, dict(zip(ps, out["args"])), depth + 1)
                        if r_ is not None:
                            return r_
        return out

    return fix(copy.deepcopy(e) if depth == 0 else e)


def _resolve_body(fn, env0=None, depth=0):
    """the value a straight-line function body returns, as one expression over its parameters"""
    env = dict(env0 or {})
    tail = None
    for st in A.stmts_of(fn["body"]):
        if st.get("k") == "Let" and st.get("init") is not None and A.binding_name(st["pat"]):
            env[A.binding_name(st["pat"])] = _subst_tree(st["init"], env, fn, depth)
        elif st.get("k") == "ExprStmt" and not st.get("semi", True):
            tail = _subst_tree(st["e"], env, fn, depth)
    return tail

TRANSFORMS = ("Move", "Scale", "ScaleUniform", "Reflect", "ReflectX", "ReflectXY", "ReflectY", "ReflectZ", "Rotate", "RotateX", "RotateY", "RotateZ", "RepeatX", "RepeatY", "RepeatZ", "RepeatXY", "RepeatXYZ")


def r_pure_transforms(rule, root=None):
    """T(s)(p) = s(T^-1 p): the tree a transform returns is its input *remapped* - through remap_affine /
    remap_xyz, or by handing it to another transform - and nothing else.  Any arithmetic on the remapped value
    (a `k * s(p / k)` "distance correction", an offset, a clamp) changes the field's values, and for a negative
    factor its sign."""
    present = set()
    for imp in A.find_impls(LIB, self_ty="Tree", root=root):
        m = re.match(r"From<(\w+)>$", (imp.get("trait") or "").replace(" ", ""))
        if m:
            present.add(m.group(1))
    n = 0
    for ty in TRANSFORMS:
        if ty not in present:
            continue
        n += 1
        fn = from_fn(ty, root=root)
        ps = [A.binding_name(p["pat"]) for p in fn["sig"]["inputs"] if "pat" in p]
        par = ps[0] if ps else "v"
        env = {}

        def pure(e, depth=0):
            e = A.strip(e)
            k = e.get("k")
            if depth > 12:
                return False
            if k == "MethodCall" and e["method"] in ("remap_affine", "remap_xyz"):
                return pure(e["recv"], depth + 1)
            if k == "MethodCall" and e["method"] in ("into", "clone") and not e["args"]:
                return pure(e["recv"], depth + 1)
            if k == "Call" and (A.path_segs(e["func"]) or [])[-2:] == ["Tree", "from"] and len(e["args"]) == 1:
                return pure(e["args"][0], depth + 1)
            if k == "Struct" and (A.path_segs(e["path"]) or [None])[-1] in TRANSFORMS:
                for f in e["fields"]:
                    if f["name"] == "shape":
                        return pure(f["e"] if f.get("e") is not None else {"k": "Path", "segs": ["shape"]}, depth + 1)
                return False
            if k == "Field" and str(e["member"]) == "shape" and A.ident(A.strip(e["e"])) == par:
                return True
            if k == "Path" and len(e["segs"]) == 1 and e["segs"][0] in env:
                return pure(env[e["segs"][0]], depth + 1)
            if k == "Block":
                return all(pure(l, depth + 1) for l, _c in A.value_cases(e)) if A.value_cases(e) and A.value_cases(e)[0][0] is not e else False
            return False

        def subst(e):
            # freeze the current meaning of locals inside an initialiser (shadowing: `let shape = shape.remap(..)`)
            import copy

            e = copy.deepcopy(e)

            def rec(n):
                if isinstance(n, dict):
                    for kk, vv in list(n.items()):
                        if isinstance(vv, dict):
                            sv = A.strip(vv)
                            if sv.get("k") == "Path" and len(sv.get("segs", [])) == 1 and sv["segs"][0] in env:
                                n[kk] = env[sv["segs"][0]]
                            else:
                                rec(vv)
                        elif isinstance(vv, list):
                            for i_, x in enumerate(vv):
                                if isinstance(x, dict):
                                    sx = A.strip(x)
                                    if sx.get("k") == "Path" and len(sx.get("segs", [])) == 1 and sx["segs"][0] in env:
                                        vv[i_] = env[sx["segs"][0]]
                                    else:
                                        rec(x)
                            # struct shorthand `Move { shape, .. }`
                    if n.get("k") == "Struct":
                        for f in n.get("fields", []):
                            if f.get("e") is None and f["name"] in env:
                                f["e"] = env[f["name"]]
                            elif f.get("e") is not None:
                                sx = A.strip(f["e"])
                                if sx.get("k") == "Path" and sx.get("segs") == [f["name"]] and f["name"] in env:
                                    f["e"] = env[f["name"]]

            rec(e)
            return e

        tail = _resolve_body(fn)
        leaves = [l for l, _c in A.value_cases(tail)] if tail is not None else []
        leaves += [_subst_tree(r_["e"], {}, fn) for r_ in A.find(fn["body"], "Return") if r_.get("e") is not None]
        if leaves and all(pure(l) for l in leaves):
            rule.ok("%s returns its shape remapped (or handed to another transform), the value untouched" % ty, file=LIB, line=fn["ln"])
        else:
            bad = [str(A.ftxt(l))[:90] for l in leaves if not pure(l)]
            rule.bad("%s|pure" % ty, "%s must return its input shape remapped and nothing else (T(s)(p) = s(T^-1 p)); it returns `%s`" % (ty, (bad or ["?"])[0]), A.where(LIB, fn))
    if n < 13:
        rule.lost("transform impls (found %d of the 13 known)" % n)



def _norm_is_euclidean(fn, comps):
    """sqrt of the sum of every component squared, written directly or through `self.map(|c| c.powi(2))`"""
    t = str(A.ftxt(fn["body"]))
    m = re.fullmatch(r"\{let(\w+)=self\.map\(\|(\w+)\|(?:\2\.powi\(2\)|\(\2\*\2\)|\2\.square\(\))\);(.*)\}", t)
    if m:
        v, rest = m.group(1), m.group(3)
        terms = sorted(re.findall(r"(?<![\w.])%s\.(\w)(?![\w(])" % re.escape(v), rest))
        return terms == sorted(comps) and rest.endswith(".sqrt()") and "-" not in rest and "*" not in rest and "/" not in rest
    terms = sorted(re.findall(r"self\.(\w)\.powi\(2\)", t))
    return terms == sorted(comps) and t.endswith(".sqrt()}") and "-" not in t and "*" not in t and "/" not in t

TYPES_RS = "fidget-shapes/src/types.rs"


def r_vector_helpers(rule, root=None):
    """the GLSL-style vectors shapes are written with: every helper acts component by component (x with x, y with
    y, ..) and the scalar / vector operator forms keep their operands in order"""
    comps = {"Vec2": ["x", "y"], "Vec3": ["x", "y", "z"], "Vec4": ["x", "y", "z", "w"]}

    def lit_fields(fn, cs=None):
        sts = [s_ for s_ in A.find(fn["body"], "Struct")]
        if not sts and cs:
            # `Self::new(f(self.x), f(self.y), ..)`: positional, in component order
            calls = [c for c in A.find(fn["body"], "Call") if (A.path_segs(c["func"]) or [None])[-1] == "new" and len(c["args"]) == len(cs)]
            if len(calls) == 1:
                return {c_: str(A.ftxt(a_)) for c_, a_ in zip(cs, calls[0]["args"])}
        if len(sts) != 1:
            return None
        return {f["name"]: (str(A.ftxt(f["e"])) if f.get("e") is not None else f["name"]) for f in sts[0]["fields"]}

    for ty, cs in comps.items():
        for name, want in (("combine", lambda c, a: "%s(self.%s,%s.%s)" % (a[1], c, a[0], c)), ("map", lambda c, a: "%s(self.%s)" % (a[0], c))):
            try:
                fn = A.find_fn(TYPES_RS, name, self_ty=ty, root=root)
            except A.AnchorLost as e:
                rule.lost(str(e))
                continue
            args = [A.binding_name(p["pat"]) for p in fn["sig"]["inputs"] if "pat" in p]
            got = lit_fields(fn, cs)
            exp = {c: want(c, args) for c in cs}
            if got == exp:
                rule.ok("%s::%s acts on every component with itself" % (ty, name), file=TYPES_RS, line=fn["ln"])
            else:
                diff = [c for c in cs if (got or {}).get(c) != exp[c]]
                rule.bad("%s::%s|%s" % (ty, name, ",".join(diff)), "%s::%s: component %s is `%s`, expected `%s` (every component from the same component of its operands)" % (ty, name, diff[0] if diff else "?", (got or {}).get(diff[0]) if diff else got, exp[diff[0]] if diff else exp), A.where(fn))
        # constructors and conversions
        try:
            fn = A.find_fn(TYPES_RS, "new", self_ty=ty, root=root) if ty != "Vec4" else None
        except A.AnchorLost:
            fn = None
        if fn is not None:
            args = [A.binding_name(p["pat"]) for p in fn["sig"]["inputs"] if "pat" in p]
            got = lit_fields(fn, cs)
            if args == cs and got == {c: c for c in cs}:
                rule.ok("%s::new takes its components in order" % ty, file=TYPES_RS, line=fn["ln"])
            else:
                rule.bad("%s::new" % ty, "%s::new must take (%s) in order and store each under its own name; found parameters %s, fields %s" % (ty, ", ".join(cs), args, got), A.where(fn))
        for imp in A.find_impls(TYPES_RS, self_ty=ty, root=root):
            tr = (imp.get("trait") or "").replace(" ", "")
            fns_ = [x for x in imp["items"] if x.get("k") == "Fn" and x["name"] == "from"]
            if not fns_:
                continue
            fn = fns_[0]
            fn["_file"] = TYPES_RS
            arg = [A.binding_name(p["pat"]) for p in fn["sig"]["inputs"] if "pat" in p][0]
            got = lit_fields(fn, cs)
            if tr == "From<f32>":
                exp = {c: arg for c in cs}
                what = "a scalar becomes the vector with every component equal to it"
            elif tr.startswith("From<nalgebra::Vector"):
                exp = {c: "%s.%s" % (arg, c) for c in cs}
                what = "conversion from nalgebra keeps every component in place"
            else:
                continue
            if got == exp:
                rule.ok("%s: %s" % (ty, what), file=TYPES_RS, line=fn["ln"])
            else:
                rule.bad("%s|%s" % (ty, tr), "%s %s: %s; found %s" % (ty, tr, what, got), A.where(TYPES_RS, fn))
        # into nalgebra
        for imp in A.find_impls(TYPES_RS, root=root):
            if (imp.get("trait") or "").replace(" ", "") == "From<%s>" % ty and imp["self_ty"].replace(" ", "").startswith("nalgebra::Vector"):
                fn = [x for x in imp["items"] if x.get("k") == "Fn" and x["name"] == "from"][0]
                arg = [A.binding_name(p["pat"]) for p in fn["sig"]["inputs"] if "pat" in p][0]
                t = str(A.ftxt(fn["body"]))
                if t == "{Self::new(%s)}" % ",".join("%s.%s" % (arg, c) for c in cs):
                    rule.ok("%s converts to nalgebra component by component, in order" % ty, file=TYPES_RS, line=fn["ln"])
                else:
                    rule.bad("%s|into-nalgebra" % ty, "%s -> nalgebra must be Self::new(%s)" % (ty, ", ".join("v." + c for c in cs)), A.where(TYPES_RS, fn))
        # norm
        if ty != "Vec4":
            try:
                fn = A.find_fn(TYPES_RS, "norm", self_ty=ty, root=root)
                if _norm_is_euclidean(fn, cs):
                    rule.ok("%s::norm is the square root of the sum of every component squared" % ty, file=TYPES_RS, line=fn["ln"])
                else:
                    rule.bad("%s::norm" % ty, "%s::norm must be sqrt(%s)" % (ty, " + ".join("%s^2" % c for c in cs)), A.where(fn))
            except A.AnchorLost as e:
                rule.lost(str(e))
    # operator macros
    d = A.load(TYPES_RS, root)
    mdefs = {m["def"]: m for m in A.find(d["items"], "Macro") if m.get("def")}
    import fv.props.C17 as C17  # tok()

    body = C17.tok(mdefs["impl_binary"]["tokens"]) if "impl_binary" in mdefs else ""
    facts = [
        ("vector op vector combines component-wise as a.op(b)", r"fn\$base_fn\(self,(?P<r>\w+):\$ty\)->Self\{self\.combine\((?P=r),(?:\|(?P<a>\w+),(?P<b>\w+)\|(?P=a)\.\$base_fn\((?P=b)\)|<f32as(?:std::ops::)?\$op>::\$base_fn|f32::\$base_fn)\)\}"),
        ("scalar op vector is splat(scalar).op(vector)", r"impl(?:std::ops::)?\$op<\$ty>forf32\{typeOutput=\$ty;fn\$base_fn\(self,(?P<r>\w+):\$ty\)->\$ty\{(?:\$ty::from\(self\)\.\$base_fn\((?P=r)\)|(?P=r)\.map\(\|(?P<b>\w+)\|self\.\$base_fn\((?P=b)\)\))\}\}"),
        ("vector op scalar is vector.op(splat(scalar))", r"impl(?:std::ops::)?\$op<f32>for\$ty\{typeOutput=\$ty;fn\$base_fn\(self,(?P<r>\w+):f32\)->\$ty\{(?:self\.\$base_fn\(\$ty::from\((?P=r)\)\)|self\.map\(\|(?P<a>\w+)\|(?P=a)\.\$base_fn\((?P=r)\)\))\}\}"),
        ("named binary helpers (min / max) combine self with the converted argument", r"self\.combine\(\$ty::from\((?P<r>\w+)\),\$f\)"),
        ("the default closure of a named binary helper is a.f(b)", r"impl_binary!\(\$ty,\$base_fn,(?:\|(?P<a>\w+),(?P<b>\w+)\|(?P=a)\.\$base_fn\((?P=b)\)|f32::\$base_fn)\);"),
    ]
    for what, rx in facts:
        if re.search(rx, body):
            rule.ok("impl_binary!: %s" % what, file=TYPES_RS, line=mdefs["impl_binary"]["ln"])
        else:
            rule.bad("impl_binary|%s" % what[:20], "impl_binary!: %s" % what, "%s:%s" % (TYPES_RS, mdefs.get("impl_binary", {}).get("ln", "?")))
    body = C17.tok(mdefs["impl_unary"]["tokens"]) if "impl_unary" in mdefs else ""
    facts = [
        ("operator form maps the operator over the components", r"fn\$base_fn\(self\)->\$ty\{self\.map\((?:std::ops::)?\$op::\$base_fn\)\}"),
        ("named form maps its function", r"pubfn\$base_fn\(self\)->Self\{self\.map\(\$f\)\}"),
        ("the default closure is a.f()", r"impl_unary!\(\$ty,\$base_fn,(?:\|(?P<a>\w+)\|(?P=a)\.\$base_fn\(\)|f32::\$base_fn)\);"),
    ]
    for what, rx in facts:
        if re.search(rx, body):
            rule.ok("impl_unary!: %s" % what, file=TYPES_RS, line=mdefs["impl_unary"]["ln"])
        else:
            rule.bad("impl_unary|%s" % what[:20], "impl_unary!: %s" % what, "%s:%s" % (TYPES_RS, mdefs.get("impl_unary", {}).get("ln", "?")))
    body = C17.tok(mdefs["impl_all"]["tokens"]) if "impl_all" in mdefs else ""
    for op, f in (("Add", "add"), ("Mul", "mul"), ("Sub", "sub"), ("Div", "div")):
        if "impl_binary!($ty,%s,%s);" % (op, f) in body:
            rule.ok("impl_all!: %s is %s" % (op, f), file=TYPES_RS)
        else:
            rule.bad("impl_all|%s" % op, "impl_all! must implement %s through `%s`" % (op, f), TYPES_RS)
    if "impl_unary!($ty,Neg,neg);" in body:
        rule.ok("impl_all!: Neg is neg", file=TYPES_RS)
    else:
        rule.bad("impl_all|Neg", "impl_all! must implement Neg through `neg`", TYPES_RS)

def run(ctx):
    r = ctx.rule("R1", "named axes and planes denote what their names say", 9)
    ctx.guarded(r, r_named_constants)
    r = ctx.rule("R2", "primitives and CSG combinators equal their documented closed forms", 9)
    ctx.guarded(r, r_primitives)
    r = ctx.rule("R2b", "Blend is the guarded smooth minimum; ReflectXY swaps x and y; every shape has a rule", 27)
    ctx.guarded(r, r_blend)
    ctx.guarded(r, r_reflect_xy)
    ctx.guarded(r, r_inventory)
    r = ctx.rule("R3b", "RevolveY composes Move / remap / Move into a revolve about x = offset", 1)
    ctx.guarded(r, r_revolve_composition)
    r = ctx.rule("R3", "transforms apply the inverse of their documented action, on the axis their name says", 36)
    ctx.guarded(r, r_transforms)
    # "arbitrary nesting of transforms": a transform is a lazy remap node, and nesting composes only if the
    # importer evaluates each remap in the frame of the one around it (the rules are C13's, read here too)
    r = ctx.rule("R3p", "a transform returns its input shape remapped and nothing else (no arithmetic on the remapped value)", 13)
    ctx.guarded(r, r_pure_transforms)
    r = ctx.rule("R5", "the vector types shapes are written with act component by component; scalar / vector operator forms keep operand order", 30)
    ctx.guarded(r, r_vector_helpers)
    r = ctx.rule("R4", "nested transforms compose: the importer lowers each remap in the innermost enclosing frame", 8)
    ctx.guarded(r, C13.r5_axis_roles)
    r = ctx.rule("R4b", "nested transforms compose: importer frames are pushed and popped around their target", 7)
    ctx.guarded(r, C13.r3_frames)
    # ExtrudeZ, LoftZ, RevolveY, the reflections and every Move / Scale / Rotate are `remap_xyz` / `remap_affine`
    # wrappers: a shape has its documented geometry only if those builders wrap every tree they are given
    r = ctx.rule("R4c", "the remap builders the shapes are made of wrap every input (no result short of the remap wrapper; affine remaps flatten as existing * new)", 5)
    ctx.guarded(r, C13.r2_flatten)
