"""C01 - compiled tapes compute the expression (structural part)."""
import re
from .. import ast as A
from .. import opcodes as O
from .. import terms as T
from .. import vmloops as V
from .. import allocproto as AP

SSA = "fidget-core/src/compiler/ssa_tape.rs"
CTXMOD = "fidget-core/src/context/mod.rs"
CTXOP = "fidget-core/src/context/op.rs"


def commutative_set(root=None):
    """opcodes that Context builds through op_binary_commutative"""
    d = A.load(CTXMOD, root)
    s = set()
    for c in A.find(d["items"], "MethodCall", lambda n: n["method"] == "op_binary_commutative"):
        for a in c["args"]:
            segs = A.path_segs(a)
            if segs and len(segs) == 2 and segs[0] == "BinaryOpcode":
                s.add(segs[1])
    if not s:
        raise A.AnchorLost("op_binary_commutative call sites in %s" % CTXMOD)
    return s


def r1_ssa_lowering(rule, root=None):
    fn = A.find_fn(SSA, "new", self_ty="SsaTape", root=root)
    unary, binary = O.ctx_opcodes(root)
    ssa = dict(O.ssa_variants(root))
    comm = commutative_set(root)
    ms = O.match_on(fn, "BinaryOpcode", min_arms=6)
    if len(ms) != 1:
        raise A.AnchorLost("match over BinaryOpcode in SsaTape::new (%d found)" % len(ms))
    seen = set()
    for variant, _subs, arm in O.arms_by_variant(ms[0], "BinaryOpcode"):
        if variant is None:
            rule.bad("binary|wildcard", "wildcard arm in the BinaryOpcode lowering table", A.where(fn, arm))
            continue
        seen.add(variant)
        body = A.strip(arm["body"])
        if body.get("k") != "Tuple" or len(body["elems"]) != 3:
            rule.bad("binary|%s|shape" % variant, "arm is not a (RegReg, RegImm, ImmReg) triple", A.where(fn, arm))
            continue
        want = ["%sRegReg" % variant, "%sRegImm" % variant, "%sImmReg" % variant]
        if variant in comm:
            want[2] = "%sRegImm" % variant
        for slot, (e, w) in enumerate(zip(body["elems"], want)):
            segs = A.path_segs(A.strip(e))
            if segs is None:
                if slot == 2 and w not in ssa and A.strip(e).get("k") == "Closure":
                    # no ImmReg variant exists: the closure must diverge, not build something
                    calls = [m["name"] for m in A.find(e, "Macro")]
                    if "panic" in calls or "unreachable" in calls:
                        rule.ok("BinaryOpcode::%s slot %d diverges (no %s variant)" % (variant, slot, w))
                        continue
                rule.bad(
                    "binary|%s|slot%d" % (variant, slot),
                    "BinaryOpcode::%s slot %d is `%s`, expected SsaOp::%s" % (variant, slot, A.unparse(e)[:50], w),
                    A.where(fn, arm),
                )
                continue
            if segs[-1] != w or segs[-2:-1] != ["SsaOp"]:
                rule.bad(
                    "binary|%s|slot%d" % (variant, slot),
                    "BinaryOpcode::%s slot %d builds %s, expected SsaOp::%s" % (variant, slot, "::".join(segs), w),
                    A.where(fn, arm),
                )
            elif w not in ssa:
                rule.bad("binary|%s|slot%d" % (variant, slot), "SsaOp::%s does not exist" % w, A.where(fn, arm))
            else:
                rule.ok("BinaryOpcode::%s slot %d -> SsaOp::%s" % (variant, slot, w), file=SSA, line=arm["ln"])
    for b in binary:
        if b not in seen:
            rule.bad("binary|%s|missing" % b, "no lowering arm for BinaryOpcode::%s" % b, A.where(fn, ms[0]))
    # dispatch on (lhs, rhs) slot kinds: f.0(i,l,r) / f.1(i,arg,imm) / f.2(i,arg,imm)
    disp = [
        m
        for m in A.find(fn["body"], "Match")
        if A.strip(m["e"]).get("k") == "Tuple" and len(m["arms"]) == 4 and "Slot" in A.unparse(m["arms"][0]["pat"])
    ]
    if len(disp) != 1:
        raise A.AnchorLost("match (lhs, rhs) over Slot kinds in SsaTape::new")
    for arm in disp[0]["arms"]:
        p = arm["pat"]
        kinds = []
        names = []
        for el in p.get("elems", []):
            segs, subs = A.pat_variant(el)
            kinds.append(segs[-1] if segs else None)
            names.append(A.binding_name(subs[0]) if subs else None)
        body = A.strip(arm["body"])
        if body.get("k") == "Block" and len(body["stmts"]) == 1:
            body = A.strip(A.stmt_expr(body["stmts"][0]) or body)
        key = "dispatch|%s,%s" % tuple(kinds)
        if kinds == ["Immediate", "Immediate"]:
            if body.get("k") == "Macro" and body["name"] in ("panic", "unreachable"):
                rule.ok("(imm, imm) diverges")
            else:
                rule.bad(key, "(Immediate, Immediate) must fail loudly, found `%s`" % A.unparse(body)[:60], A.where(fn, arm))
            continue
        want_slot = {("Reg", "Reg"): "0", ("Reg", "Immediate"): "1", ("Immediate", "Reg"): "2"}.get(tuple(kinds))
        if want_slot is None or body.get("k") != "Call":
            rule.bad(key, "unrecognised dispatch arm `%s`" % A.unparse(arm["pat"]), A.where(fn, arm))
            continue
        f = A.strip(body["func"])
        got_slot = f.get("member") if f.get("k") == "Field" else None
        if got_slot is None and A.ident(f):
            # `let (rr, ri, ir) = match op { .. };` names the three slots
            for lt in A.find(fn["body"], "Let"):
                init_ = lt.get("init")
                if init_ is not None and A.ident(A.strip(init_)):
                    # `let (rr, ri, ir) = f;` where `let f = match op { .. }`
                    src = [l2 for l2 in A.find(fn["body"], "Let") if A.binding_name(l2["pat"]) == A.ident(A.strip(init_)) and l2.get("init") is not None]
                    init_ = src[0]["init"] if len(src) == 1 else init_
                if lt["pat"].get("k") == "PTuple" and len(lt["pat"]["elems"]) == 3 and init_ is not None and O.match_on(init_, "BinaryOpcode", min_arms=6):
                    nms = [A.binding_name(x) for x in lt["pat"]["elems"]]
                    if A.ident(f) in nms:
                        got_slot = str(nms.index(A.ident(f)))
        args = [A.ident(A.strip(a)) for a in body["args"]]
        if kinds == ["Reg", "Reg"]:
            want_args = [names[0], names[1]]
        elif kinds == ["Reg", "Immediate"]:
            want_args = [names[0], names[1]]
        else:
            want_args = [names[1], names[0]]  # (imm, reg) -> f.2(i, reg, imm)
        if got_slot != want_slot:
            rule.bad(key, "(%s, %s) calls f.%s, expected f.%s" % (kinds[0], kinds[1], got_slot, want_slot), A.where(fn, arm))
        elif args[1:] != want_args:
            rule.bad(key, "(%s, %s) passes (%s), expected (out, %s)" % (kinds[0], kinds[1], ", ".join(map(str, args)), ", ".join(map(str, want_args))), A.where(fn, arm))
        else:
            rule.ok("(%s, %s) -> f.%s(out, %s)" % (kinds[0], kinds[1], want_slot, ", ".join(want_args)))
    # unary table
    ms = O.match_on(fn, "UnaryOpcode", min_arms=6)
    if len(ms) != 1:
        raise A.AnchorLost("match over UnaryOpcode in SsaTape::new")
    seen = set()
    for variant, _s, arm in O.arms_by_variant(ms[0], "UnaryOpcode"):
        if variant is None:
            rule.bad("unary|wildcard", "wildcard arm in the UnaryOpcode lowering table", A.where(fn, arm))
            continue
        seen.add(variant)
        segs = A.path_segs(A.strip(arm["body"]))
        w = "%sReg" % variant
        if segs is None or segs[-1] != w or w not in ssa:
            rule.bad("unary|%s" % variant, "UnaryOpcode::%s builds `%s`, expected SsaOp::%s" % (variant, A.unparse(arm["body"])[:40], w), A.where(fn, arm))
        else:
            rule.ok("UnaryOpcode::%s -> SsaOp::%s" % (variant, w), file=SSA, line=arm["ln"])
    for u in unary:
        if u not in seen:
            rule.bad("unary|%s|missing" % u, "no lowering arm for UnaryOpcode::%s" % u, A.where(fn, ms[0]))
    # choice_count is bumped for exactly the choice opcodes.  A bump site is a
    # `choice_count += k` statement guarded by `if matches!(op, A | B ..)` or sitting
    # in an arm of a match over BinaryOpcode (either idiom; the guard gives the set).
    def is_bump(n):
        return n.get("k") == "Binary" and n.get("op") == "+=" and A.ident(A.strip(n["left"])) == "choice_count"

    def bumps_in(node):
        return [n for n in A.walk(node) if is_bump(n)]

    sites = []  # (variants, bump nodes, where)
    for i in A.find(fn["body"], "If"):
        c = A.strip(i["cond"])
        if c.get("k") == "Macro" and c["name"] == "matches" and bumps_in(i["then"]):
            vs = []
            for p in A.flatten_or(c.get("pat")):
                segs, _ = A.pat_variant(p)
                vs.append(segs[-1] if segs and segs[0] == "BinaryOpcode" else "?")
            sites.append((vs, bumps_in(i["then"]), i))
    for mm in O.match_on(fn, "BinaryOpcode", min_arms=1):
        for variant, _s, arm in O.arms_by_variant(mm, "BinaryOpcode"):
            b = bumps_in(arm["body"])
            if b:
                sites.append(([variant if variant else "?"], b, arm))
    all_bumps = bumps_in(fn["body"])
    if not sites or sum(len(b) for _v, b, _w in sites) < len(all_bumps):
        raise A.AnchorLost("`choice_count += 1` guarded by `matches!(op, Min|Max|And|Or)` or by BinaryOpcode match arms in SsaTape::new")
    got = []
    for vs, bs, w in sites:
        got += vs * len(bs)
        for b in bs:
            if A.lit_value(b["right"]) != 1:
                rule.bad("choice_count|step", "choice_count increment is `%s`" % A.unparse(b), A.where(fn, w))
    has_choice = ssa_has_choice(root)
    want = {T.split_variant(v)[0] for v in has_choice}
    if set(got) != want or len(got) != len(set(got)):
        rule.bad("choice_count", "choice_count is bumped for %s but SsaOp::has_choice is true for %s" % (sorted(got), sorted(want)), A.where(fn, sites[0][2]))
    else:
        rule.ok("choice_count bumped for %s" % sorted(got))


def ssa_has_choice(root=None):
    """variants for which SsaOp::has_choice returns true"""
    fn = A.find_fn(O.OP_RS, "has_choice", self_ty="SsaOp", root=root)
    ms = O.match_on(fn, "SsaOp", min_arms=10)
    if len(ms) != 1:
        raise A.AnchorLost("match in SsaOp::has_choice")
    yes = set()
    all_v = set()
    for variant, _s, arm in O.arms_by_variant(ms[0], "SsaOp"):
        if variant is None:
            raise A.AnchorLost("SsaOp::has_choice has a wildcard arm")
        b = A.strip(arm["body"])
        all_v.add(variant)
        if b.get("k") == "Lit" and b["v"] == "true":
            yes.add(variant)
        elif not (b.get("k") == "Lit" and b["v"] == "false"):
            raise A.AnchorLost("SsaOp::has_choice arm body is not a literal")
    return yes


def r3_interpreters(rule, root=None):
    for label, _ty, _tr, _tracing in V.LOOPS:
        try:
            V.check_loop(rule, label, root)
        except A.AnchorLost as e:
            rule.lost("%s: %s" % (label, e.what))
    r_reference_eval(rule, root)


def r_reference_eval(rule, root=None):
    """`BinaryOpcode::eval` / `UnaryOpcode::eval` - the reference meaning of every opcode, and what the
    context's constant folding applies - compute their namesake operator on their operands in order"""
    for enum, nargs in (("BinaryOpcode", 2), ("UnaryOpcode", 1)):
        fn = A.find_fn(CTXOP, "eval", self_ty=enum, root=root)
        names = [A.binding_name(i["pat"]) for i in fn["sig"]["inputs"] if "pat" in i]
        ms = O.match_on(fn, enum, min_arms=6)
        if len(ms) != 1 or len(names) != nargs:
            rule.lost("%s::eval match" % enum)
            continue
        env = T.Env()
        for i, n in enumerate(names):
            env.vars[n] = ("R", "P%d" % (i + 1))
        allv = O.enum_variants(CTXOP, enum, root)
        seen = set()
        for variant, _s, arm in O.arms_by_variant(ms[0], enum):
            if variant is None:
                rule.bad("ref|%s|wildcard" % enum, "wildcard arm in %s::eval" % enum, A.where(fn, arm))
                continue
            seen.add(variant)
            got = T.norm(arm["body"], env)
            if nargs == 1:
                exp = T.expected_unary(variant, ("R", "P1"))
            else:
                exp = T.expected_binary(variant, ("R", "P1"), ("R", "P2"), scalar=True)  # a, b are f32
            if exp is None or got not in exp:
                rule.bad("ref|%s|%s" % (enum, variant), "%s::%s evaluates %s" % (enum, variant, T.show(got)), A.where(fn, arm))
            else:
                rule.ok("ref:%s::%s" % (enum, variant), file=CTXOP, line=arm["ln"])
        for v in allv:
            if v not in seen:
                rule.bad("ref|%s|%s|missing" % (enum, v), "%s::eval has no arm for %s" % (enum, v), A.where(fn, ms[0]))


def r6_parent_counting(rule, root=None):
    """SsaTape::new emits a node only after all of its parents: pass 1 counts one parent per child edge,
    pass 2 removes one per child edge when the parent is emitted, emission is gated on the count being zero.
    Stated per statement with $METAs for locals and read inside the loop each belongs to, so that renaming,
    reordering independent statements or splitting a combined gate does not matter."""
    fn = A.find_fn(SSA, "new", self_ty="SsaTape", root=root)
    t = A.ftxt(fn["body"])
    body = fn["body"]
    whiles = [w for w in A.find(body, "While") if A.strip(w["cond"]).get("k") == "LetCond" and ".pop()" in A.unparse(A.strip(w["cond"])["e"])]
    passes = {}
    for w in whiles:
        c = A.strip(w["cond"])
        node_n = A.some_binding(c["pat"])
        work = A.ident(A.strip(A.strip(c["e"]).get("recv") or {}))
        kids = [l for l in A.find(w["body"], "For") if A.iter_source(str(A.ftxt(l["iter"]))) == "op.iter_children()"]
        if len(kids) != 1 or node_n is None or work is None:
            continue
        child = A.binding_name(kids[0]["pat"])
        kt = [A.ftxt(s_) for s_ in kids[0]["body"]["stmts"]]
        inc = [m for m in (x.fmatch("(*$P.entry(%s).or_default()+=1);" % child) for x in kt) if m]
        dec = [m for m in (x.fmatch("(*$P.get_mut(&%s).unwrap()-=1);" % child) for x in kt) if m]
        push = any(str(x) == "%s.push(%s);" % (work, child) for x in kt)
        # conditions under which an iteration is skipped
        skips = set()
        wb = A.value_view(w["body"])  # a named gate (`let pending = count..; if pending != 0`) is the gate
        for cn in A.find(wb, "Continue"):
            if any(n is cn for l in A.find(wb, "For") for n in A.walk(l)):
                continue
            cs = A.enclosing_conds(wb, cn) or []
            for i_ in A.find(wb, "If"):
                if any(n is cn for n in A.walk(i_["then"])) and A.norm_cond(str(A.ftxt(A.strip(i_["cond"])))) in [A.norm_cond(x) for x in cs]:
                    for d_ in _disjuncts(i_["cond"]):
                        skips.add(A.norm_cond(d_))
        info = dict(node=node_n, work=work, child=child, push=push, skips=skips, loop=w)
        if inc and not dec:
            info["count"] = inc[0]["$P"]
            passes[1] = info
        elif dec and not inc:
            info["count"] = dec[0]["$P"]
            passes[2] = info
    if 1 not in passes or 2 not in passes:
        raise A.AnchorLost("the two work-list passes of SsaTape::new (count parents / release them)")
    p1, p2 = passes[1], passes[2]
    facts = []
    facts.append(("pass 1 counts every child edge once and visits the child", p1["push"]))
    visited1 = [c_ for c_ in p1["skips"] if re.fullmatch(r"!\w+\.insert\(%s\)" % p1["node"], c_)]
    facts.append(("pass 1 visits each node once", bool(visited1)))
    P = p2["count"]
    # the count is unsigned: `> 0` and `!= 0` are the same test
    want_gate = ("*%s.get(&%s).unwrap_or(&0)>0" % (P, p2["node"]), "%s.get(&%s).copied().unwrap_or(0)>0" % (P, p2["node"]), "%s[&%s]>0" % (P, p2["node"]))
    gate = [c_ for c_ in p2["skips"] if (c_[:-3] + ">0" if c_.endswith("!=0") else c_).replace("(", "").replace(")", "") in [g_.replace("(", "").replace(")", "") for g_ in want_gate]]
    once2 = [c_ for c_ in p2["skips"] if re.fullmatch(r"!\w+\.insert\(%s\)" % p2["node"], c_)]
    facts.append(("pass 2 emits a node only when no unemitted parent remains, and only once", bool(gate) and bool(once2) and p1["count"] == P))
    facts.append(("pass 2 releases one count per child edge of the emitted node", p2["push"]))
    t2 = A.ftxt(p2["loop"]["body"])
    # `let Slot::Reg(i) = mapping[&node] else { continue }` in any spelling (let-else, match, if-let)
    regs = [v_ for v_ in A.variant_lets(p2["loop"]["body"], "Reg") if v_[2] == "Continue" and str(A.ftxt(A.strip(v_[1]))) == "mapping[&%s]" % p2["node"] and len(v_[0]) == 1]
    facts.append(("constants become immediates and are not emitted", len(regs) == 1))
    t1 = A.ftxt(p1["loop"]["body"])
    m = t1.fmatch("let$I=slot_count;")
    facts.append(("every non-constant node gets a fresh SSA slot", m is not None and "(slot_count+=1);" in t1 and t1.fmatch("mapping.insert(%s,Slot::Reg($I))" % p1["node"], bind=m) is not None))
    own = False
    for c_ in A.find(p1["loop"]["body"], "MethodCall"):
        mm = re.fullmatch(r"mapping\.insert\(%s,Slot::Immediate\((\w+)\.0\)\)" % re.escape(p1["node"]), str(A.ftxt(c_)))
        if mm:
            for pat, scrut in A.enclosing_patterns(p1["loop"]["body"], c_) or []:
                segs, subs = A.pat_variant(pat) if pat.get("k") == "PTupleStruct" else (None, None)
                if segs and segs[-2:] == ["Op", "Const"] and subs and A.binding_name(subs[0]) == mm.group(1) and A.ident(A.strip(scrut)) == "op":
                    own = True
    facts.append(("constants map to their own value", own))
    mi = {"$I": regs[0][0][0]} if len(regs) == 1 else None
    facts.append(("inputs read the index their variable was given", mi is not None and (t2.fmatch("Op::Input($V)=>{let$A=vars[$V];SsaOp::Input($I,$A.try_into().unwrap())}", bind=mi) is not None or t2.fmatch("Op::Input($V)=>SsaOp::Input($I,vars[$V].try_into().unwrap())", bind=mi) is not None or t2.fmatch("Op::Input($V)=>{SsaOp::Input($I,vars[$V].try_into().unwrap())}", bind=mi) is not None)))
    mo = t.fmatch("for($K,$R)inroots.iter().enumerate(){")
    ok_out = False
    ok_const = False
    if mo is not None:
        for l in A.find(body, "For"):
            if str(A.ftxt(l["iter"])) == "roots.iter().enumerate()":
                lt = A.ftxt(l["body"])
                ok_out = lt.fmatch("Slot::Reg($O)=>tape.push(SsaOp::Output($O,$K))") is not None or lt.fmatch("Slot::Reg($O)=>{tape.push(SsaOp::Output($O,$K));}") is not None
                if not ok_out:
                    # structurally: the Slot::Reg(o) arm pushes exactly Output(o, <this root's index>)
                    lp = l["pat"]["pat"] if l["pat"].get("k") == "PType" else l["pat"]
                    kname = A.binding_name(lp["elems"][0]) if lp.get("k") == "PTuple" and lp.get("elems") else None
                    ks = {kname}
                    for s_ in A.find(l["body"], "Let"):
                        if s_.get("init") is not None and re.fullmatch(r"\(?%s(asu32)?\)?|u32::try_from\(%s\)\.unwrap\(\)|%s\.try_into\(\)\.unwrap\(\)" % ((re.escape(kname or "?"),) * 3), str(A.ftxt(s_["init"]))):
                            ks.add(A.binding_name(s_["pat"]))
                    for arm in A.find(l["body"], "Arm"):
                        segs, subs = A.pat_variant(arm["pat"]) if arm["pat"].get("k") == "PTupleStruct" else (None, None)
                        if segs and segs[-2:] == ["Slot", "Reg"] and subs and A.binding_name(subs[0]):
                            o_ = A.binding_name(subs[0])
                            pushes = [c_ for c_ in A.find(arm["body"], "MethodCall") if c_["method"] == "push" and A.ident(A.strip(c_["recv"])) == "tape"]
                            if len(pushes) == 1 and any(str(A.ftxt(pushes[0]["args"][0])) == "SsaOp::Output(%s,%s)" % (o_, k_) for k_ in ks if k_):
                                ok_out = True
                mc = lt.fmatch("Slot::Immediate($M)=>{let$O=slot_count;")
                ok_const = mc is not None and "(slot_count+=1);" in lt and lt.fmatch("tape.push(SsaOp::Output($O,$K));", bind={"$O": mc["$O"]}) is not None and lt.fmatch("tape.push(SsaOp::CopyImm($O,$M));", bind=mc) is not None
                ok_idx = lt.fmatch("mapping[$R]") is not None
                ok_out = ok_out and ok_idx
    facts.append(("output k reads root k", ok_out))
    facts.append(("a constant root is materialised in a fresh slot that the output reads", ok_const))
    starts = [s_ for s_ in A.find(body, "Let") if s_.get("init") is not None and str(A.ftxt(s_["init"])) == "roots.to_vec()"]
    facts.append(("both passes start from all roots", {A.binding_name(s_["pat"]) for s_ in starts} >= {p1["work"], p2["work"]} and len(starts) >= 2))
    facts.append(("the tape advertises one output per root", "output_count:roots.len()" in t))
    for what, okf in facts:
        if okf:
            rule.ok("SsaTape::new: %s" % what, file=SSA, line=fn["ln"])
        else:
            rule.bad("ssa|%s" % what[:30], "SsaTape::new: %s - not found in the pass it belongs to" % what, A.where(fn))
    rule.ok("SsaTape::new: two passes over the graph")


def _disjuncts(e):
    e = A.strip(e)
    if e.get("k") == "Binary" and e["op"] == "||":
        return _disjuncts(e["left"]) + _disjuncts(e["right"])
    return [A.unparse(e).replace(" ", "")]


def r5b_lru(rule, root=None):
    """the recency ring's four operations, as effect summaries (fv/effects.py): which links are written with
    what, under which conditions, reading the pre-update (`old`) or post-update state.  Independent of local
    names, `let`s, cast idioms, `==` operand order and the order of writes that do not feed each other."""
    from .. import effects as E

    LRU = "fidget-core/src/compiler/lru.rs"
    C2 = ("!(i==self.head)", "(i!=self.data[self.head].prev)")
    want = {
        "remove": [
            ("write", (), "self.data[self.data[i].prev].next", "self.data[i].next"),
            ("write", (), "self.data[self.data[i].next].prev", "new(self.data[i].prev)"),
        ],
        "insert_before": [
            ("write", (), "self.data[self.data[next].prev].next", "i"),
            ("write", (), "self.data[next].prev", "i"),
            ("write", (), "self.data[i]", "LruNode{next:next,prev:self.data[next].prev}"),
        ],
        "poke": [
            ("return", ("(i==self.head)",), "", ""),
            ("call", C2, "self.remove", "i"),
            ("call", C2, "self.insert_before", "i,new(self.head)"),
            ("write", ("!(i==self.head)",), "self.head", "i"),
        ],
        "pop": [
            ("write", (), "self.head", "self.data[self.head].prev"),
            ("return", (), "self.data[self.head].prev", ""),
        ],
    }
    why = {"remove": "bridge prev.next and next.prev over node i", "insert_before": "link i between `next` and its old predecessor",
           "poke": "make i the head (moving it unless it already is the oldest, which only rotates)", "pop": "return the oldest (head.prev) and make it the head"}
    # spellings that read the same state (`remove` does not touch node i itself, nor `head`)
    C3 = ("(i!=self.head)", "(i!=self.data[self.head].prev)")
    alt = {
        "pop": [
            # returning the head *after* moving it is returning the old head's predecessor
            [("write", (), "self.head", "self.data[self.head].prev"), ("return", (), "new(self.head)", "")],
        ],
        "remove": [
            [("write", (), "self.data[self.data[i].prev].next", "self.data[i].next"), ("write", (), "self.data[self.data[i].next].prev", "self.data[i].prev")],
            [("write", (), "self.data[self.data[i].next].prev", "self.data[i].prev"), ("write", (), "self.data[self.data[i].prev].next", "new(self.data[i].next)")],
        ],
        "poke": [
            [("return", ("(i==self.head)",), "", ""), ("call", C2, "self.remove", "i"), ("call", C2, "self.insert_before", "i,self.head"), ("write", ("!(i==self.head)",), "self.head", "i")],
            [("call", C2, "self.remove", "i"), ("call", C2, "self.insert_before", "i,new(self.head)"), ("write", ("!(i==self.head)",), "self.head", "i")],
            [("call", C3, "self.remove", "i"), ("call", C3, "self.insert_before", "i,new(self.head)"), ("write", ("(i!=self.head)",), "self.head", "i")],
        ],
    }
    for name, w in want.items():
        fn = A.find_fn(LRU, name, self_ty="Lru", root=root)
        got = E.summary(fn)
        if sorted(got) == sorted(w) or any(sorted(got) == sorted(a) for a in alt.get(name, [])):
            rule.ok("Lru::%s has its summarised link updates" % name, file=LRU, line=fn["ln"])
        else:
            diff = [x for x in got if x not in w] or [x for x in w if x not in got]
            rule.bad("lru|%s" % name, "Lru::%s changed: the doubly-linked recency list must %s; unexpected / missing effect: %s" % (name, why[name], diff[:2]), A.where(fn))
    fn = A.find_fn(LRU, "new", self_ty="Lru", root=root)
    got = [x for x in E.summary(fn) if x[0] == "write"]
    body = A.inline_lets_deep(fn["body"])
    loops = [l for l in A.find(body, "For") if str(A.ftxt(l["iter"])) == "0..N"]
    v = A.binding_name(loops[0]["pat"]) if len(loops) == 1 else None
    wantw = {("%s.data[%s].next" % ("out", v), "((%s+1)%%N)" % v), ("%s.data[%s].prev" % ("out", v), "%s.checked_sub(1).unwrap_or((N-1))" % v)}
    t = A.ftxt(fn["body"])
    gotw = {(a, b) for _k, c, a, b in got if c == ("loop",)}
    if v and gotw == wantw and "head:0" in t:
        rule.ok("Lru::new links all N nodes into one ring")
    else:
        rule.bad("lru|new", "Lru::new must link node i to (i+1) mod N and (i-1) mod N for every i in 0..N, head 0 (found %s)" % sorted(gotw), A.where(fn))


def run(ctx):
    r = ctx.rule("R1", "SsaTape::new lowers each graph opcode to its namesake SsaOp form", 12 * 3 + 18 + 4 + 1)
    ctx.guarded(r, r1_ssa_lowering)
    r = ctx.rule("R2", "allocator lowering tables map SsaOp::V to RegOp::V and the router agrees", 49 + 52 + 2)
    ctx.guarded(r, AP.r2_lowering_tables)
    r = ctx.rule("R4", "allocator arms follow the load/store/bind protocol of their case", 3 + 11 + 3 + 3 + 1)
    ctx.guarded(r, AP.r4_protocol)
    r = ctx.rule("R5", "allocator helpers have their summarised effects", 18)
    ctx.guarded(r, AP.r5_helpers)
    r = ctx.rule("R5b", "the LRU ring keeps its link updates", 5)
    ctx.guarded(r, r5b_lru)
    r = ctx.rule("R6", "graph flattening: parent counting, slot assignment, outputs", 13)
    ctx.guarded(r, r6_parent_counting)
    r = ctx.rule("R3", "every interpreter arm and the reference eval compute the arm's opcode", 4 * 54 + 30)
    ctx.guarded(r, r3_interpreters)
    # "every evaluator kind" includes an evaluator that has been used before: the many-point interpreter writes
    # `out[i][0..size]`, so a tape's outputs are computed into rows sized for this call, whatever ran earlier
    from . import C10 as C10_

    r = ctx.rule("R7", "every evaluator sizes its slot and output rows from the tape and the batch on every call (no grow-only shortcut)", 19)
    ctx.guarded(r, C10_.r1_buffers)
    # min / max / and / or are computed by the choice functions in every interpreter loop: their value half is part of
    # "bit for bit the graph's value" (NaN propagation, the sign of a zero passed through `and`)
    ctx.include('C04', 'the interpreter computes min / max / and / or through the choice functions', only=('R10f', 'R10n'))
