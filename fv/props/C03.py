"""C03 - interval evaluation encloses point results (structural part)."""
from .. import ast as A
from .. import nanflow as N
from .. import vmloops as V
from .. import shapecore as SC
from .. import asmchecks as AC
from .. import asmcopy as AK
from .. import jit as J

IV = N.IV

# per-argument monotonicity of the monotone interval ops: +1 increasing, -1 decreasing
MONO_UNARY = {"atan": 1, "exp": 1, "ln": 1, "sqrt": 1, "asin": 1, "acos": -1, "floor": 1, "ceil": 1, "round": 1, "recip": -1}
MONO_BINARY_OPS = {"Add<Interval>": ("+", 1, 1), "Sub<Interval>": ("-", 1, -1)}
MONO_BINARY_METHODS = {"min_choice": ("min", 1, 1), "max_choice": ("max", 1, 1)}


def iv_fn(name, trait=None, root=None):
    return A.find_fn(IV, name, self_ty="Interval", trait=trait, root=root)


def _new_sites(fn):
    return [c for c in A.find(fn["body"], "Call") if (A.path_segs(c["func"]) or [])[-2:] == ["Interval", "new"]]


def resolved_sites(fn):
    """Interval::new sites with identifier arguments replaced by their local definitions.
    -> [(conds, lo_expr, hi_expr, node)]; a `let (a, b) = if c {(..)} else {(..)}` yields one entry per branch"""
    lets = {}
    for s in A.find(fn["body"], "Let"):
        p = s["pat"]
        if p.get("k") == "PType":
            p = p["pat"]
        init = A.strip(s.get("init")) if s.get("init") is not None else None
        if init is None:
            continue
        if p.get("k") == "PIdent":
            lets[p["name"]] = [([], init)]
        elif p.get("k") == "PTuple":
            names = [A.binding_name(x) for x in p["elems"]]
            alts = []

            def branches(e, conds):
                e = A.strip(e)
                if e.get("k") == "If":
                    c = A.ftxt(A.strip(e["cond"]))
                    branches(e["then"], conds + [c])
                    if e.get("else") is not None:
                        branches(e["else"], conds + ["!" + c])
                elif e.get("k") == "Block" and e["stmts"]:
                    branches(A.stmt_expr(e["stmts"][-1]), conds)
                elif e.get("k") == "Tuple" and len(e["elems"]) == len(names):
                    alts.append((conds, e["elems"]))

            branches(init, [])
            for i, n in enumerate(names):
                if n:
                    lets[n] = [(c, A.strip(el[i])) for c, el in alts]
    out = []
    for site in _new_sites(fn):
        a0, a1 = [A.strip(a) for a in site["args"]]
        n0, n1 = A.ident(a0), A.ident(a1)
        alts0 = lets.get(n0, [([], a0)]) if n0 else [([], a0)]
        alts1 = lets.get(n1, [([], a1)]) if n1 else [([], a1)]
        if len(alts0) == len(alts1) and len(alts0) > 1:
            for (c0, e0), (c1, e1) in zip(alts0, alts1):
                out.append((c0, e0, e1, site))
        else:
            out.append((alts0[0][0], alts0[0][1], alts1[0][1], site))
    return out


def _bound_of(e, owner):
    """`self.lower` / `self.lower()` -> 'lower'"""
    e = A.strip(e)
    if e.get("k") == "Field" and A.ident(A.strip(e["e"])) == owner and e["member"] in ("lower", "upper"):
        return e["member"]
    if e.get("k") == "MethodCall" and e["method"] in ("lower", "upper") and A.ident(A.strip(e["recv"])) == owner and not e["args"]:
        return e["method"]
    return None


def r1_variance(rule, root=None):
    """lower bound of the result is taken at the lower bound of each increasing argument
    and the upper bound of each decreasing one (and dually)"""
    for name, mono in MONO_UNARY.items():
        fn = iv_fn(name, root=root)
        rs = resolved_sites(fn)
        sites = [r[3] for r in rs]
        if len(rs) != 1:
            rule.lost("the single Interval::new in Interval::%s (found %d)" % (name, len(rs)))
            continue
        args = [rs[0][1], rs[0][2]]
        got = []
        for a in args:
            a = A.strip(a)
            b = None
            if name == "recip":
                if a.get("k") == "Binary" and a["op"] == "/" and A.lit_value(a["left"]) == 1:
                    b = _bound_of(a["right"], "self")
            elif a.get("k") == "MethodCall" and a["method"] == name and not a["args"]:
                b = _bound_of(a["recv"], "self")
            got.append(b)
        want = ["lower", "upper"] if mono > 0 else ["upper", "lower"]
        if got == want:
            rule.ok("Interval::%s (%s): [f(%s), f(%s)]" % (name, "increasing" if mono > 0 else "decreasing", want[0], want[1]), file=IV, line=sites[0]["ln"])
        else:
            rule.bad(name, "Interval::%s is %s, so its result must be [f(self.%s), f(self.%s)]; found bounds taken from %s" % (name, "increasing" if mono > 0 else "decreasing", want[0], want[1], got), A.where(IV, sites[0]))
    for tr, (op, ma, mb) in MONO_BINARY_OPS.items():
        nm = {"+": "add", "-": "sub"}[op]
        fn = iv_fn(nm, trait="std::ops::" + tr, root=root)
        rs = resolved_sites(fn)
        sites = [r[3] for r in rs]
        params = [A.binding_name(i["pat"]) for i in fn["sig"]["inputs"] if "pat" in i]
        rhs = params[0] if params else "rhs"
        if len(rs) != 1:
            rule.lost("the single Interval::new in Interval %s" % tr)
            continue
        got = []
        for a in (rs[0][1], rs[0][2]):
            a = A.strip(a)
            if a.get("k") == "Binary" and a["op"] == op:
                got.append((_bound_of(a["left"], "self"), _bound_of(a["right"], rhs)))
            else:
                got.append(None)
        want = [("lower", "lower" if mb > 0 else "upper"), ("upper", "upper" if mb > 0 else "lower")]
        if got == want:
            rule.ok("Interval %s: [self.%s %s rhs.%s, self.%s %s rhs.%s]" % (tr, want[0][0], op, want[0][1], want[1][0], op, want[1][1]), file=IV, line=sites[0]["ln"])
        else:
            rule.bad(nm, "Interval %s must be [self.lower %s rhs.%s, self.upper %s rhs.%s]; found %s" % (tr, op, want[0][1], op, want[1][1], got), A.where(IV, sites[0]))
    for name, (m, _a, _b) in MONO_BINARY_METHODS.items():
        fn = iv_fn(name, root=root)
        sites = _new_sites(fn)
        params = [A.binding_name(i["pat"]) for i in fn["sig"]["inputs"] if "pat" in i]
        rhs = params[0]
        ok = False
        if len(sites) == 1:
            got = []
            for a in sites[0]["args"]:
                a = A.strip(a)
                if a.get("k") == "MethodCall" and a["method"] == m and len(a["args"]) == 1:
                    got.append((_bound_of(a["recv"], "self"), _bound_of(a["args"][0], rhs)))
            ok = got == [("lower", "lower"), ("upper", "upper")]
        if ok:
            rule.ok("Interval::%s: [%s(lowers), %s(uppers)]" % (name, m, m), file=IV, line=sites[0]["ln"])
        else:
            rule.bad(name, "Interval::%s must be [self.lower.%s(rhs.lower), self.upper.%s(rhs.upper)]" % (name, m, m), A.where(IV, fn))
    # Neg, Mul<f32>
    fn = iv_fn("neg", trait="std::ops::Neg", root=root)
    t = A.ftxt(fn["body"])
    if t == "{Interval::new(-self.upper,-self.lower)}":
        rule.ok("Interval Neg: [-upper, -lower]")
    else:
        rule.bad("neg", "Interval Neg must be [-self.upper, -self.lower], found %s" % t, A.where(fn))
    fn = iv_fn("mul", trait="std::ops::Mul<f32>", root=root)
    rs = resolved_sites(fn)
    by = {}
    for conds, lo, hi, node in rs:
        by[tuple(conds)] = (A.ftxt(lo), A.ftxt(hi))
    neg = [v for c, v in by.items() if "(rhs<0.0)" in c]
    pos = [v for c, v in by.items() if "!(rhs<0.0)" in c]
    if neg == [("(self.upper*rhs)", "(self.lower*rhs)")] and pos == [("(self.lower*rhs)", "(self.upper*rhs)")]:
        rule.ok("Interval * f32 swaps the bounds exactly for a negative factor", file=IV, line=fn["ln"])
    else:
        rule.bad("mul_f32", "Interval * f32 must be [upper*c, lower*c] for c < 0 and [lower*c, upper*c] otherwise; found %s" % by, A.where(fn))


SCALAR_FAMILY = {"sin", "cos", "tan", "asin", "acos", "atan", "exp", "ln", "sqrt", "floor", "ceil", "round", "atan2", "rem_euclid"}


def r1b_namesake_scalar(rule, root=None):
    """inside Interval::NAME every transcendental / rounding function applied to a bound is NAME itself
    (sin's bounds come from sin, never cos); helper arithmetic (min, max, abs, powi, ..) is unrestricted"""
    d = A.load(IV, root)
    for f in d["_fns"]:
        ow = f.get("_owner") or {}
        if f["_test"] or ow.get("self_ty") != "Interval" or ow.get("trait") or f["name"] not in SCALAR_FAMILY:
            continue
        used = {}
        for c in A.find(f["body"], "MethodCall"):
            if c["method"] in SCALAR_FAMILY:
                r = A.strip(c["recv"])
                # only calls on f32 bounds / locals, not on intervals
                used.setdefault(c["method"], []).append(c)
        own = f["name"]
        allowed = {own}
        if own == "rem_euclid":
            allowed |= {"floor"}  # a.floor() == b.floor() wrap test
        foreign = {m: cs for m, cs in used.items() if m not in allowed}
        if foreign:
            m, cs = sorted(foreign.items())[0]
            rule.bad("%s|foreign|%s" % (own, m), "Interval::%s computes a bound with `.%s()`; its bounds must come from %s itself" % (own, m, own), A.where(IV, cs[0]))
        elif own in used or own in ("sin", "cos"):
            rule.ok("Interval::%s applies only %s to its bounds (%d call(s))" % (own, own, len(used.get(own, []))), file=IV, line=f["ln"])
        else:
            rule.bad("%s|none" % own, "Interval::%s never applies %s to a bound" % (own, own), A.where(IV, f))


def r2_nanflow(rule, root=None, report_unanalysed=True):
    fns = N.interval_fns(root)
    if len(fns) < 25:
        rule.lost("Interval functions that build intervals (found %d)" % len(fns))
    for fn in fns:
        sites, err, evals = N.analyse(fn)
        lab = A.fn_label(fn)
        all_sites = [c for c in A.find(fn["body"], "Call") if (A.path_segs(c["func"]) or [])[-2:] == ["Interval", "new"]]
        for st in sites.values():
            if st.asym:
                d = [a for a in st.asym if a[3]]
                ex = (d or st.asym)[0]
                rule.bad(
                    "%s|asym" % lab,
                    "%s: `%s` can be called with one NaN and one non-NaN bound and then panics (the constructor asserts `upper >= lower || both NaN`): e.g. %s gives (%s, %s); %d of %d class assignments" % (
                        lab, A.unparse(st.node)[:70], ex[0], "/".join(ex[1]), "/".join(ex[2]), len(st.asym), evals),
                    A.where(IV, st.node),
                )
            else:
                rule.ok("%s line %d: no NaN asymmetry over %d class assignments" % (lab, st.node["ln"], evals), file=IV, line=st.node["ln"])
        seen = {id(s.node) for s in sites.values()}
        missed = [c for c in all_sites if id(c) not in seen]
        if err or missed:
            rule.skip("%s (%d site(s))" % (lab, len(missed) if missed else len(all_sites)), err or "site not reached by the model")



IVAL_RS = "fidget-core/src/types/interval.rs"


def r5_sibling_guards(rule, root=None):
    """guards that come in pairs must agree: sin / cos take the same early exits (NaN, a whole period with
    `>=`, a degenerate interval); mix tests both operands for a single *bit pattern* the same way"""
    chains = {}
    for name in ("sin", "cos"):
        fn = A.find_fn(IVAL_RS, name, self_ty="Interval", root=root)
        ms = [m for m in A.find(fn["body"], "Match") if "quadrant" in A.unparse(m["e"]) or A.strip(m["e"]).get("k") == "Tuple"]
        if not ms:
            rule.lost("the quadrant match of Interval::%s" % name)
            continue
        chains[name] = [A.norm_cond(c) for c in (A.enclosing_conds(fn["body"], ms[0]) or [])]
        if "!self.width()>=TAU" in chains[name]:
            rule.ok("Interval::%s: a box at least one period wide is [-1, 1] (`width >= TAU`)" % name, file=IVAL_RS, line=fn["ln"])
        else:
            rule.bad("%s|period" % name, "Interval::%s reaches its quadrant table under %s; a box whose width is exactly one period must already have returned [-1, 1] (`self.width() >= TAU`)" % (name, chains[name]), A.where(fn))
    if len(chains) == 2:
        if chains["sin"] == chains["cos"]:
            rule.ok("Interval::sin and Interval::cos take the same early exits")
        else:
            rule.bad("sincos|siblings", "Interval::sin reaches its quadrant table under %s, Interval::cos under %s: the two are the same function shifted by a quarter period" % (chains["sin"], chains["cos"]), "")
    # atan2: the whole-range answer [-pi, pi] covers exactly the boxes that touch the branch cut (y = +-0,
    # x < 0); the quadrant table below it tests `y.lower >= 0.0`, which a lower bound of -0.0 passes although
    # atan2(-0.0, x < 0) is -pi - so the cut test must be non-strict in y on both sides
    fn = A.find_fn(IVAL_RS, "atan2", self_ty="Interval", root=root)
    view = A.value_view(fn["body"])
    cut = None
    for c in A.find(view, "Call"):
        if (A.path_segs(c["func"]) or [])[-2:] == ["Interval", "new"] and [str(A.ftxt(a)) for a in c["args"]] == ["-PI", "PI"]:
            cut = c
    if cut is None:
        rule.lost("the whole-range result Interval::new(-PI, PI) of Interval::atan2")
    else:
        xs = [A.binding_name(i_["pat"]) for i_ in fn["sig"]["inputs"] if isinstance(i_, dict) and "pat" in i_]
        xn = xs[0] if xs else "x"
        conj = set()
        for c_ in A.enclosing_conds(view, cut) or []:
            if A.norm_cond(c_).startswith("!"):
                continue
            conj |= set(A.norm_cond(c_).replace("(", "").replace(")", "").split("&&"))
        want = {"self.lower<=0.0", "self.upper>=0.0", "%s.lower<0.0" % xn}
        import re as _re

        for l_ in A.find(fn["body"], "Let"):
            if l_.get("init") is not None and A.ident(A.strip(l_["init"])) == "self" and A.binding_name(l_["pat"]):
                conj = {_re.sub(r"\b%s\." % _re.escape(A.binding_name(l_["pat"])), "self.", c_) for c_ in conj}
        if conj == want:
            rule.ok("Interval::atan2: any box touching the branch cut (y.lower <= 0 <= y.upper, x.lower < 0) is [-pi, pi]", file=IVAL_RS, line=cut["ln"])
        else:
            rule.bad("atan2|cut", "Interval::atan2 returns the whole range under %s; it must do so exactly under %s: with a strict test a lower bound of -0.0 (from negating [a, 0]) falls into the upper-half quadrant cases although atan2(-0.0, x<0) = -pi" % (sorted(conj), sorted(want)), A.where(fn, cut))
        # nothing but NaN is answered before the cut was tested: an interval result computed on a path where the cut
        # test has not been refused (a "single point" fast path, say) meets y = [-0.0, +0.0], whose two ends are
        # equal as numbers and a whole turn apart as angles
        cut_ln = cut["ln"] if cut is not None else None
        for site in list(A.find(view, "Call")) + list(A.find(view, "MethodCall")):
            is_new = site.get("k") == "Call" and (A.path_segs(site["func"]) or [])[-2:] == ["Interval", "new"]
            is_into = site.get("k") == "MethodCall" and site["method"] == "into" and "atan2" in A.unparse(site["recv"])
            if not (is_new or is_into) or site is cut:
                continue
            cs_ = [A.norm_cond(c_) for c_ in (A.enclosing_conds(view, site) or [])]
            refused = any(c_.startswith("!") and ".lower<0.0" in c_ and "<=0.0" in c_ and ">=0.0" in c_ for c_ in cs_)
            if not refused:
                rule.bad("atan2|before-cut", "Interval::atan2 answers `%s` under %s, on a path where the branch-cut test has not been refused: the box y = [-0.0, +0.0], x < 0 reaches it and its true range is [-pi, pi]" % (A.unparse(site)[:60], cs_[-1:] or ["no condition"]), A.where(fn, site))
                break
        else:
            rule.ok("Interval::atan2: every interval it builds lies behind the refused branch-cut test", file=IVAL_RS, line=fn["ln"])
    fn = A.find_fn(IVAL_RS, "mix", self_ty="Interval", root=root)
    ifs = [i for i in A.find(fn["body"], "If") if "has_nan" in A.unparse(i["cond"])]
    if not ifs:
        rule.lost("the NaN / non-singleton guard of Interval::mix")
        return
    dis = set()

    def rec(e):
        e = A.strip(e)
        if e.get("k") == "Binary" and e["op"] == "||":
            rec(e["left"]); rec(e["right"])
        else:
            dis.add(A.unparse(e).replace(" ", ""))

    rec(ifs[0]["cond"])
    want = {"self.has_nan()", "rhs.has_nan()", "(self.lower().to_bits()!=self.upper().to_bits())", "(rhs.lower().to_bits()!=rhs.upper().to_bits())"}
    if dis == want:
        rule.ok("Interval::mix hashes only single bit patterns on both sides (-0.0 and +0.0 differ)", file=IVAL_RS, line=fn["ln"])
    else:
        rule.bad("mix|singleton", "Interval::mix gives up (NaN interval) under %s; both operands must be tested for a single bit pattern (`lower().to_bits() != upper().to_bits()`): [-0.0, +0.0] is two inputs to the hash" % sorted(dis), A.where(fn, ifs[0]))


from . import C11  # noqa: E402



def r_contains(rule, root=None):
    """Interval::contains(v) is lower <= v <= upper with both ends included: the choice functions decide on
    `!self.contains(0.0)`, and an interval that touches zero must stay undecided"""
    fn = A.find_fn("fidget-core/src/types/interval.rs", "contains", self_ty="Interval", root=root)
    cmps = [b for b in A.find(fn["body"], "Binary") if b["op"] in ("<", "<=", ">", ">=")]
    conj = [b for b in A.find(fn["body"], "Binary") if b["op"] in ("&&", "||")]
    canon = set()
    for c in cmps:
        l_, r_, op = str(A.ftxt(c["left"])), str(A.ftxt(c["right"])), c["op"]
        if op in (">", ">="):
            l_, r_, op = r_, l_, {">": "<", ">=": "<="}[op]
        canon.add((l_, op, r_))
    params = [A.binding_name(i["pat"]) for i in fn["sig"]["inputs"] if isinstance(i, dict) and "pat" in i and A.binding_name(i["pat"]) != "self"]
    v = params[-1] if params else "v"
    if canon == {("self.lower", "<=", v), (v, "<=", "self.upper")} and [c["op"] for c in conj] == ["&&"]:
        rule.ok("Interval::contains(v) = lower <= v && v <= upper (both ends included)", file="fidget-core/src/types/interval.rs", line=fn["ln"])
    else:
        rule.bad("contains", "Interval::contains tests %s: the bounds belong to the interval, so it must be lower <= v && v <= upper - with a strict test [0, k] does not contain 0 and `and` / `or` / `not` decide on it" % sorted(canon), A.where(fn))


def run(ctx):
    r = ctx.rule("R1", "monotone interval ops take each result bound from the bound their monotonicity dictates", 16)
    ctx.guarded(r, r1_variance)
    r = ctx.rule("R1b", "transcendental / rounding interval ops take their bounds from their namesake scalar function", 14)
    ctx.guarded(r, r1b_namesake_scalar)
    r = ctx.rule("R3", "the interval interpreter loop computes each opcode", 54)
    ctx.guarded(r, lambda rule: V.check_loop(rule, "interval"))
    r = ctx.rule("R3b", "x86_64 interval assembler: write discipline, hazards, call helpers, callbacks, choice protocol", 26 + 27 + 2 + 10 + 26)
    ctx.guarded(r, AC.check_write_discipline, "interval")
    ctx.guarded(r, AC.check_hazards, "interval")
    ctx.guarded(r, AC.check_load_imm, "interval")
    for n in ("call_fn_unary", "call_fn_binary"):
        ctx.guarded(r, AK.check_call_helper, "interval", n)
    ctx.guarded(r, lambda rule: J.r3_callbacks(rule, files=["fidget-jit/src/x86_64/interval.rs"]))
    ctx.guarded(r, AC.check_choice_protocol, "interval")
    r = ctx.rule("R3d", "native interval products / quotients take their bounds over the non-NaN corners, whatever subset of corners is NaN", 2)
    ctx.guarded(r, AC.check_corner_reduction, "interval")
    r = ctx.rule("R3e", "a clause that calls out on a conditional path backs up the callee-saved registers first", 2)
    ctx.guarded(r, AC.check_callee_save_dominates, "interval")
    r = ctx.rule("R3c", "sibling assemblers agree on magic constants", 5)
    ctx.guarded(r, AC.check_magic_constants, focus="interval")
    r = ctx.rule("R4", "Transformable for Interval is the homogeneous transform of its f32 and Grad siblings", 3)
    ctx.guarded(r, lambda rule: SC.r_transformable(rule, ("Interval",)))
    # sin / cos pick their monotonicity case from the quadrant of each bound: the classification must be
    # exact for every finite angle (C11 reads the same rule for the `unreachable!()` default)
    r = ctx.rule("R1q", "the trig quadrant of a bound is reduced in f32 (floor, rem_euclid(4.0)) before it is narrowed", 1)
    ctx.guarded(r, C11.r2b_unreachable_ranges)
    from .. import quadrant as QD

    r = ctx.rule("R1t", "the (lower quadrant, upper quadrant) tables of Interval::sin / cos return an enclosure in every feasible cell: 1.0 / -1.0 where an extremum lies inside the box, otherwise the larger / smaller end (decided from the positions of the extrema, cell by cell); quadrant() numbers quarter periods in order", 48 + 5)
    ctx.guarded(r, QD.r_quadrant_tables)
    r = ctx.rule("R1u", "each sign-class case of Interval::atan2 evaluates the two corners of the box where the angle is largest and smallest (from the monotonicity of atan2 in y and x on that class)", 7)
    ctx.guarded(r, QD.r_atan2_corners)
    r = ctx.rule("R1w", "Interval::rem_euclid's same-period shortcut is refused when the quotients overflow (test evaluated under IEEE semantics at +-inf / NaN)", 1)
    ctx.guarded(r, QD.r_rem_euclid_shortcut)
    from .. import corners as CRN

    r = ctx.rule("R1v", "the interpreter's interval product and quotient take their bounds as the smallest / largest of all four corner combinations (the loops are unrolled symbolically)", 2)
    ctx.guarded(r, CRN.r_corner_folds)
    r = ctx.rule("R5b", "Interval::contains includes both bounds (what the choice functions decide on)", 1)
    ctx.guarded(r, r_contains)
    r = ctx.rule("R5", "paired guards agree: sin / cos early exits (whole period with >=), mix's single-bit-pattern tests, atan2's branch cut", 5)
    ctx.guarded(r, r5_sibling_guards)
    from .. import round8 as R8_

    r = ctx.rule("R5r", "reciprocal: [1/upper, 1/lower] only when zero is strictly outside the box on either side", 2)
    ctx.guarded(r, R8_.r_recip_pole)
    from .. import wgslrules as WR

    r = ctx.rule("R6", "the GPU (WGSL) interval operations are enclosures: bound selection, corner products / quotients, domain guards, choices, guard predicates", 29)
    ctx.guarded(r, WR.r_interval_ops)
    ctx.guarded(r, WR.r_predicates)
    from .. import a64checks as XC

    r = ctx.rule("R3f", "aarch64 interval assembler: write discipline, hazards, branch targets, call helpers, frame, choice protocol", 28 + 29 + 12 + 2 + 1 + 28 + 6)
    ctx.guarded(r, XC.check_write_discipline, "interval")
    ctx.guarded(r, XC.check_hazards, "interval")
    ctx.guarded(r, XC.check_branches, "interval")
    ctx.guarded(r, XC.check_call_helpers, "interval")
    ctx.guarded(r, XC.check_frame, "interval")
    ctx.guarded(r, XC.check_choice_protocol, "interval")
    ctx.guarded(r, XC.check_simple_builders, "interval")
    from .. import a64sem as XS

    r = ctx.rule("R3g", "aarch64 interval add / sub / neg / mul / div / immediate forms: bounds are the interval meaning of the opcode; products and quotients cover all four corners and skip NaN corners", 8)
    ctx.guarded(r, XS.check_lane_semantics, "interval")
    r = ctx.rule("R3h", "aarch64 interval reciprocal / quotient / square root answer NaN exactly when the argument leaves the domain; load_imm fills both bounds", 3 + 3 + 1)
    ctx.guarded(r, XS.check_domain_guards)
    ctx.guarded(r, XC.check_load_imm, "interval")
    ctx.guarded(r, XC.check_fixed_area, "interval")
    from .. import x86sem as XS86

    r = ctx.rule("R3i", "x86_64 interval add / sub / neg / copy: bounds are the interval meaning of the opcode (symbolic lanes)", 4)
    ctx.guarded(r, XS86.check_lane_semantics, "interval")
    r = ctx.rule("R3j", "aarch64 interval abs / square / recip / sqrt give the interpreter's interval in every sign class of the argument; the undecided paths of min / max / and / or hold the bound-wise result", 8)
    ctx.guarded(r, XS.check_interval_piecewise)
    from .. import x86pw as PW86

    r = ctx.rule("R3k", "x86_64 interval abs / square / recip / sqrt / min / max / and / or / compare: on every order type of the bounds exactly one path is selected and its output encloses the operation's range over the box (or is the NaN interval)", 10)
    ctx.guarded(r, PW86.check_piecewise, "interval", choices=False)
    from .. import hashsem as HS

    r = ctx.rule("R3l", "interval rand / mix: on the path where each operand is a single bit pattern, the native clauses (x86_64 and aarch64) compute the hash term of fidget_core::rng", 4)
    for arch in ("x86_64", "aarch64"):
        ctx.guarded(r, HS.check_hash_terms, arch, "interval")
    r = ctx.rule("R3m", "NaN operands of the native interval rand / mix are recognised by an unordered float self-compare, never by one bit pattern", 2)
    ctx.guarded(r, AC.check_nan_screens, "interval")
