"""C12 - building expressions in a context preserves their meaning (structural part)."""
import itertools
import re
import math

import sympy as sp

from .. import ast as A
from .. import opcodes as O
from .. import terms as T

CTX = "fidget-core/src/context/mod.rs"
TREE = "fidget-core/src/context/tree.rs"
CTXOP = "fidget-core/src/context/op.rs"

BIN_NAME = {"add": "Add", "sub": "Sub", "mul": "Mul", "div": "Div", "atan2": "Atan", "min": "Min", "max": "Max",
            "compare": "Compare", "modulo": "Mod", "and": "And", "or": "Or", "mix": "Mix"}
UN_NAME = {n.lower(): n for n in T.UNARY_BASES}

SYM_BIN = {
    "Add": lambda a, b: a + b, "Sub": lambda a, b: a - b, "Mul": lambda a, b: a * b, "Div": lambda a, b: a / b,
    "Min": lambda a, b: sp.Min(a, b), "Max": lambda a, b: sp.Max(a, b),
}


def cfn(name, root=None):
    return A.find_fn(CTX, name, self_ty="Context", root=root)


# ---------------------------------------------------------------------------
# a tiny model of the context DSL over sympy (identities) and floats (truth tables)


class SymCtx:
    """translate `Ok(x)` / `self.f(args)` / lets of a Context method into sympy"""

    def __init__(self, env):
        self.env = dict(env)

    def ev(self, e):
        e = A.strip(e)
        k = e.get("k")
        if k == "Try":
            return self.ev(e["e"])
        if k == "Return" and e.get("e") is not None:
            return self.ev(e["e"])  # `return Ok(x);` as the last statement of a branch is the branch's value
        if k == "Path" and len(e["segs"]) == 1:
            if e["segs"][0] in self.env:
                return self.env[e["segs"][0]]
            raise ValueError("unknown name %s" % e["segs"][0])
        if k == "Lit":
            return sp.nsimplify(e["v"], rational=True)
        if k == "Call" and A.is_path(e["func"], "Ok") and len(e["args"]) == 1:
            return self.ev(e["args"][0])
        if k == "MethodCall" and A.ident(A.strip(e["recv"])) == "self":
            m = e["method"]
            args = [self.ev(a) for a in e["args"]]
            if m == "constant":
                return args[0]
            if m == "neg":
                return -args[0]
            if m == "square":
                return args[0] ** 2
            if m in BIN_NAME and BIN_NAME[m] in SYM_BIN:
                return SYM_BIN[BIN_NAME[m]](*args)
            raise ValueError("method %s" % m)
        raise ValueError("expression %s" % A.unparse(e)[:40])


def fallback_opcode(fn):
    """the BinaryOpcode a constructor falls back to"""
    for c in A.find(fn["body"], "MethodCall"):
        if c["method"] in ("op_binary", "op_binary_commutative") and len(c["args"]) == 3:
            segs = A.path_segs(c["args"][2])
            if segs and segs[0] == "BinaryOpcode":
                return segs[1], c
    return None, None


def r1_rewrites(rule, root=None):
    for name in ("add", "mul", "sub", "div", "min", "max"):
        fn = cfn(name, root)
        op, fb = fallback_opcode(fn)
        if op is None or op not in SYM_BIN:
            rule.lost("fallback op_binary(.., BinaryOpcode::X) in Context::%s" % name)
            continue
        if op != BIN_NAME[name]:
            rule.bad("%s|fallback" % name, "Context::%s builds BinaryOpcode::%s" % (name, op), A.where(fn, fb))
        else:
            rule.ok("Context::%s falls back to BinaryOpcode::%s" % (name, op), file=CTX, line=fb["ln"])
        args = [A.ident(A.strip(a)) for a in fb["args"][:2]]
        params = [A.binding_name(i["pat"]) for i in fn["sig"]["inputs"] if "pat" in i]
        if args != params[:2]:
            rule.bad("%s|fallback-args" % name, "Context::%s passes (%s) to the node constructor; expected (%s)" % (name, ", ".join(map(str, args)), ", ".join(params[:2])), A.where(fn, fb))
        a_n, b_n = params[:2]
        A_, B_ = sp.Symbol("a", real=True, finite=True), sp.Symbol("b", real=True, finite=True)
        # `if a == b { .. }`
        for i in A.find(fn["body"], "If"):
            c = A.strip(i["cond"])
            if c.get("k") == "Binary" and c["op"] == "==" and {A.ident(A.strip(c["left"])), A.ident(A.strip(c["right"]))} == {a_n, b_n}:
                env = {a_n: A_, b_n: A_}
                sc = SymCtx(env)
                try:
                    for s in i["then"]["stmts"]:
                        if s.get("k") == "Let":
                            sc.env[A.binding_name(s["pat"])] = sc.ev(s["init"])
                    tail = A.stmt_expr(i["then"]["stmts"][-1])
                    got = sc.ev(tail)
                    want = SYM_BIN[op](A_, A_)
                    if sp.simplify(got - want) == 0:
                        rule.ok("Context::%s: a == b => %s is an identity" % (name, got), file=CTX, line=i["ln"])
                    else:
                        rule.bad("%s|same" % name, "Context::%s rewrites f(a, a) to `%s`, but f(a, a) = %s" % (name, got, want), A.where(fn, i))
                except ValueError as e:
                    rule.bad("%s|same|shape" % name, "Context::%s: a == b branch not understood (%s)" % (name, e), A.where(fn, i))
        # match (get_const(a), get_const(b)) arms
        for m in A.find(fn["body"], "Match"):
            t = A.ftxt(m["e"])
            if t != "(self.get_const(%s),self.get_const(%s))" % (a_n, b_n):
                continue
            for arm in m["arms"]:
                p = arm["pat"]
                if p.get("k") == "PWild":
                    continue
                if p.get("k") != "PTuple" or len(p["elems"]) != 2:
                    rule.bad("%s|arm-shape" % name, "unrecognised rewrite arm `%s`" % A.unparse(p), A.where(fn, arm))
                    continue
                env = {a_n: A_, b_n: B_}
                prem = []
                for side, el in zip((a_n, b_n), p["elems"]):
                    if el.get("k") == "PWild":
                        continue
                    segs, subs = A.pat_variant(el)
                    v = None
                    if segs == ["Ok"] and subs and subs[0].get("k") == "PLit":
                        v = A.lit_value(subs[0]["lit"])
                    if v is None:
                        rule.bad("%s|arm-shape" % name, "unrecognised rewrite premise `%s`" % A.unparse(el), A.where(fn, arm))
                        prem = None
                        break
                    env[side] = sp.nsimplify(v, rational=True)
                    prem.append("%s = %s" % (side, v))
                if prem is None:
                    continue
                try:
                    got = SymCtx(env).ev(arm["body"])
                    # division by a symbolic operand: the identity is over the finite case (b != 0)
                    want = SYM_BIN[op](env[a_n], env[b_n])
                    if sp.simplify(got - want) == 0:
                        rule.ok("Context::%s: %s => %s" % (name, " and ".join(prem), got), file=CTX, line=arm["ln"])
                    else:
                        rule.bad("%s|%s" % (name, "&".join(prem).replace(" ", "")), "Context::%s rewrites f(a, b) under %s to `%s`, but f(a, b) = %s there" % (name, " and ".join(prem), got, want), A.where(fn, arm))
                except ValueError as e:
                    rule.bad("%s|arm|shape" % name, "Context::%s: rewrite arm not understood (%s)" % (name, e), A.where(fn, arm))


# float model of the context DSL for the comparison-only constructs


def f_compare(a, b):
    if math.isnan(a) or math.isnan(b):
        return float("nan")
    return float((a > b) - (a < b))


def f_and(a, b):
    return a if a == 0 else b


def f_or(a, b):
    return a if a != 0 else b


def f_not(a):
    return 1.0 if a == 0 else 0.0


def f_div(a, b):
    if b == 0:
        raise ValueError("division by zero in the model")
    return a / b


def f_rem_euclid(a, b):
    if b == 0:
        raise ValueError("modulo by zero in the model")
    r = math.fmod(a, b)
    return r + abs(b) if r < 0 else r


FLOAT_BIN = {
    "Add": lambda a, b: a + b, "Sub": lambda a, b: a - b, "Mul": lambda a, b: a * b, "Div": f_div, "Mod": f_rem_euclid,
    "Min": min, "Max": max, "Compare": f_compare, "And": f_and, "Or": f_or,
}
FLOAT_UN = {"Floor": lambda a: float(math.floor(a)), "Ceil": lambda a: float(math.ceil(a)), "Neg": lambda a: -a, "Abs": abs}


class Val:
    """a model value: the float and whether the node holding it is a constant node"""

    __slots__ = ("v", "c")

    def __init__(self, v, c):
        self.v = v
        self.c = c


class FloatCtx:
    """evaluate a Context method body over a float model (only to enumerate the finite set of
    orderings / zero-ness / constness of its operands)"""

    def __init__(self, root=None):
        self.root = root
        self.depth = 0

    def call(self, name, args):
        self.depth += 1
        if self.depth > 12:
            raise ValueError("too deep")
        try:
            if name == "constant":
                return Val(args[0].v, True)
            if name == "not":
                return Val(f_not(args[0].v), args[0].c)
            if name == "neg":
                return Val(-args[0].v, args[0].c)
            if name == "square":
                return Val(args[0].v * args[0].v, args[0].c)
            fn = cfn(name, self.root)
            params = [A.binding_name(i["pat"]) for i in fn["sig"]["inputs"] if "pat" in i]
            env = dict(zip(params, args))
            r = self.block(fn["body"], env)
            if isinstance(r, tuple) and r[0] == "return":
                r = r[1]
            return r
        finally:
            self.depth -= 1

    def block(self, b, env):
        env = dict(env)
        last = None
        for s in b["stmts"]:
            if s.get("k") == "Let":
                n = A.binding_name(s["pat"])
                init = A.strip(s["init"])
                t = str(A.ftxt(init))  # dispatch tests on one expression: literal
                if ".into_node(self)" in t:
                    continue  # `let a = a.into_node(self)?` keeps the value
                if "self.get_op(" in t:
                    src = A.ident(A.strip(init_arg(init)))
                    env[n] = ("op", env[src])
                    continue
                env[n] = self.ev(init, env)
                continue
            e = A.stmt_expr(s)
            r = self.ev(e, env)
            if isinstance(r, tuple) and r[0] == "return":
                return r  # propagate to the enclosing function
            last = r
        return last

    def ev(self, e, env):
        e = A.strip(e)
        k = e.get("k")
        if k == "Try":
            return self.ev(e["e"], env)
        if k == "Lit":
            return Val(float(e["v"]), True)
        if k == "Path" and len(e["segs"]) == 1:
            return env[e["segs"][0]]
        if k == "Call" and A.is_path(e["func"], "Ok"):
            return self.ev(e["args"][0], env)
        if k == "Return":
            return ("return", self.ev(e["e"], env))
        if k == "Block":
            return self.block(e, env)
        if k == "Macro" and e.get("name") == "matches":
            # `matches!(self.get_const(x), Ok(1.0))`: x is the constant 1
            mm = re.fullmatch(r"matches!\(self\.get_const\((\w+)\),Ok\((-?[0-9.]+)(?:f32)?\)\)", A.unparse(e).replace(" ", ""))
            if not mm or mm.group(1) not in env:
                raise ValueError("expr %s" % A.unparse(e)[:40])
            v_ = env[mm.group(1)]
            return ("bool", bool(v_.c and v_.v == float(mm.group(2))))
        if k == "MethodCall" and A.ident(A.strip(e["recv"])) == "self":
            m = e["method"]
            if m in ("op_binary", "op_binary_commutative"):
                op = A.path_segs(e["args"][2])[1]
                a, b = self.ev(e["args"][0], env), self.ev(e["args"][1], env)
                return Val(FLOAT_BIN[op](a.v, b.v), a.c and b.c)
            if m == "op_unary":
                op = A.path_segs(e["args"][1])[1]
                a = self.ev(e["args"][0], env)
                if op not in FLOAT_UN:
                    raise ValueError("unary opcode %s" % op)
                return Val(FLOAT_UN[op](a.v), a.c)
            args = [self.ev(a, env) for a in e["args"]]
            return self.call(m, args)
        if k == "If":
            truth, env2 = self.cond(A.strip(e["cond"]), env)
            if truth:
                return self.block(e["then"], env2)
            if e.get("else") is not None:
                return self.ev(e["else"], env)
            return None
        if k == "Match":
            scr = A.strip(e["e"])
            if scr.get("k") == "Tuple" and all(A.strip(x).get("k") == "MethodCall" and A.strip(x)["method"] == "get_const" for x in scr["elems"]):
                vals = [env[A.ident(A.strip(A.strip(x)["args"][0]))] for x in scr["elems"]]
                for arm in e["arms"]:
                    p = arm["pat"]
                    if p.get("k") == "PWild":
                        return self.ev(arm["body"], env)
                    ok = True
                    for el, v in zip(p["elems"], vals):
                        if el.get("k") == "PWild":
                            continue
                        segs, subs = A.pat_variant(el)
                        lv = A.lit_value(subs[0]["lit"]) if segs == ["Ok"] and subs and subs[0].get("k") == "PLit" else None
                        if lv is None:
                            raise ValueError("arm %s" % A.unparse(el))
                        if not v.c or v.v != lv:
                            ok = False
                    if ok:
                        return self.ev(arm["body"], env)
                return None
            src = A.ident(scr)
            if src in env and isinstance(env[src], tuple) and env[src][0] == "op":
                # `match op_a { Op::Const(v) => .., _ => .. }` is the if-let form written as a match
                for arm in e["arms"]:
                    p = arm["pat"]
                    if arm.get("guard"):
                        raise ValueError("guarded arm %s" % A.unparse(p)[:30])
                    if p.get("k") == "PWild" or (p.get("k") == "PIdent" and not p.get("sub")):
                        return self.ev(arm["body"], env)
                    segs, subs = A.pat_variant(p)
                    if segs == ["Op", "Const"]:
                        if env[src][1].c:
                            e2 = dict(env)
                            if subs and A.binding_name(subs[0]):
                                e2[A.binding_name(subs[0])] = env[src][1]
                            return self.ev(arm["body"], e2)
                        continue
                    raise ValueError("arm %s" % A.unparse(p)[:30])
                return None
            raise ValueError("match %s" % A.ftxt(scr)[:30])
        raise ValueError("expr %s" % A.unparse(e)[:40])

    def cond(self, c, env):
        c = A.strip(c)
        if c.get("k") == "Binary" and c["op"] == "&&":
            t1, e1 = self.cond(c["left"], env)
            if not t1:
                return False, env
            return self.cond(c["right"], e1)
        if c.get("k") == "Binary" and c["op"] == "||":
            t1, _e1 = self.cond(c["left"], env)
            if t1:
                return True, env
            t2, _e2 = self.cond(c["right"], env)
            return t2, env
        if c.get("k") == "Unary" and c["op"] == "!":
            t1, _e1 = self.cond(c["e"], env)
            return (not t1), env
        if c.get("k") == "Path" and A.ident(c) in env and isinstance(env[A.ident(c)], tuple) and env[A.ident(c)][0] == "bool":
            return env[A.ident(c)][1], env
        if c.get("k") == "Macro":
            r_ = self.ev(c, env)
            if isinstance(r_, tuple) and r_[0] == "bool":
                return r_[1], env
        if c.get("k") == "LetCond":
            segs, subs = A.pat_variant(c["pat"])
            src = A.ident(A.strip(c["e"]))
            if segs == ["Op", "Const"] and src in env and isinstance(env[src], tuple) and env[src][0] == "op":
                if not env[src][1].c:
                    return False, env
                e2 = dict(env)
                e2[A.binding_name(subs[0])] = env[src][1]
                return True, e2
            raise ValueError("if-let %s" % A.unparse(c)[:40])
        if c.get("k") == "Binary" and c["op"] == "==" and A.ident(A.strip(c["left"])) and A.ident(A.strip(c["right"])):
            # node identity: equal constants are one (interned) node; other operands are distinct nodes
            a, b = env[A.ident(A.strip(c["left"]))], env[A.ident(A.strip(c["right"]))]
            return (a is b) or (a.c and b.c and a.v == b.v), env
        if c.get("k") == "Binary" and c["op"] in ("==", "!="):
            l = self.val(c["left"], env)
            r = self.val(c["right"], env)
            return ((l == r) if c["op"] == "==" else (l != r)), env
        raise ValueError("cond %s" % A.unparse(c)[:40])

    def val(self, e, env):
        e = A.strip(e)
        if e.get("k") == "Field" and e["member"] == "0":
            return self.val(e["e"], env)
        if e.get("k") == "Lit":
            return float(e["v"])
        return env[A.ident(e)].v


def init_arg(init):
    for c in A.find(init, "MethodCall"):
        if c["method"] == "get_op":
            return c["args"][0]
    raise ValueError("get_op")


def r1b_truth_tables(rule, root=None):
    vals = [-2.0, -1.0, 0.0, 1.0, 2.0]
    specs = {
        "less_than": (2, lambda a, b: 1.0 if a < b else 0.0),
        "less_than_or_equal": (2, lambda a, b: 1.0 if a <= b else 0.0),
        "and": (2, lambda a, b: a if a == 0 else b),
        "or": (2, lambda a, b: a if a != 0 else b),
        "if_nonzero_else": (3, lambda c, a, b: a if c != 0 else b),
    }
    for name, (n, spec) in specs.items():
        for mask in itertools.product((True, False), repeat=n):
            # mask[i]: operand i is a constant node (so the `if let Op::Const` / get_const rewrites may fire)
            bad = None
            cases = 0
            try:
                for args in itertools.product(vals, repeat=n):
                    fc = FloatCtx(root)
                    got = fc.call(name, [Val(v, c) for v, c in zip(args, mask)])
                    want = spec(*args)
                    cases += 1
                    if got is None or (got.v != want and not (got.v == 0 and want == 0)):
                        bad = (args, None if got is None else got.v, want)
                        break
            except (ValueError, KeyError, AttributeError, A.AnchorLost) as e:
                rule.bad("%s|model" % name, "Context::%s no longer fits the checker's model of the builder DSL (%s)" % (name, e), "")
                break
            label = "operands %s" % ", ".join("const" if c else "node" for c in mask)
            if bad:
                fn = cfn(name, root)
                rule.bad("%s|table|%s" % (name, "".join("c" if c else "n" for c in mask)), "Context::%s with %s: for values %s the built expression evaluates to %s, its documented meaning is %s" % (name, label, bad[0], bad[1], bad[2]), A.where(fn))
            else:
                rule.ok("Context::%s meets its truth table on %d operand orderings (%s)" % (name, cases, label))


def _canonical_order(fn, a_, b_):
    """op_binary_commutative hands (smaller, larger) to op_binary, however the two are picked: the two
    arguments are evaluated under each ordering of the (integer) node indices a < b, a == b, a > b"""
    from .. import effects as E

    calls = [c for c in A.find(fn["body"], "MethodCall") if c["method"] == "op_binary" and A.ident(A.strip(c["recv"])) == "self" and len(c["args"]) == 3]
    if len(calls) != 1:
        return False
    env = E.env_at(fn["body"], calls[0])

    class No(Exception):
        pass

    def ev(e, order, env):
        e = A.unblock(e)
        k = e.get("k")
        if k == "Path":
            n = A.ident(e)
            if n in (a_, b_):
                return a_ if order == "eq" else n
            if n in env:
                return ev(env[n][0], order, {k2: v for k2, v in env.items() if k2 != n})
            raise No()
        if k in ("Paren", "Ref"):
            return ev(e["e"], order, env)
        if k == "MethodCall" and e["method"] in ("min", "max") and len(e["args"]) == 1:
            x, y = ev(e["recv"], order, env), ev(e["args"][0], order, env)
            return pick(e["method"], x, y, order)
        if k == "Call" and (A.path_segs(e["func"]) or [""])[-1] in ("min", "max") and len(e["args"]) == 2:
            x, y = ev(e["args"][0], order, env), ev(e["args"][1], order, env)
            return pick((A.path_segs(e["func"]))[-1], x, y, order)
        if k == "If" and e.get("else") is not None:
            c = A.strip(e["cond"])
            if c.get("k") != "Binary" or c["op"] not in ("<", "<=", ">", ">=", "==", "!="):
                raise No()
            x, y = ev(c["left"], order, env), ev(c["right"], order, env)
            if x == y:
                t = c["op"] in ("<=", ">=", "==")
            else:
                lt = (x == a_) == (order == "lt")  # x < y
                t = {"<": lt, "<=": lt, ">": not lt, ">=": not lt, "==": False, "!=": True}[c["op"]]
            return ev(e["then"] if t else e["else"], order, env)
        if k == "Tuple":
            return tuple(ev(x, order, env) for x in e["elems"])
        if k == "Field" and str(e["member"]).isdigit():
            v = ev(e["e"], order, env)
            if isinstance(v, tuple) and int(e["member"]) < len(v):
                return v[int(e["member"])]
        raise No()

    def pick(which, x, y, order):
        if x == y:
            return x
        small = a_ if order == "lt" else b_
        large = b_ if order == "lt" else a_
        return small if which == "min" else large

    try:
        for order, want in (("lt", (a_, b_)), ("gt", (b_, a_)), ("eq", (a_, a_))):
            got = (ev(calls[0]["args"][0], order, env), ev(calls[0]["args"][1], order, env))
            if got != want:
                return False
    except (No, KeyError, TypeError):
        return False
    return A.ident(A.strip(calls[0]["args"][2])) == "op"


def r2_namesakes(rule, root=None):
    unary, binary = O.ctx_opcodes(root)
    for u in unary:
        name = u.lower()
        fn = cfn(name, root)
        calls = [c for c in A.find(fn["body"], "MethodCall") if c["method"] == "op_unary"]
        ok = len(calls) == 1 and A.path_segs(calls[0]["args"][1]) == ["UnaryOpcode", u]
        if ok:
            rule.ok("Context::%s builds UnaryOpcode::%s" % (name, u), file=CTX, line=fn["ln"])
        else:
            rule.bad("unary|%s" % u, "Context::%s must build UnaryOpcode::%s" % (name, u), A.where(fn))
    inv = {v: k for k, v in BIN_NAME.items()}
    for b in binary:
        name = inv[b]
        fn = cfn(name, root)
        op, fb = fallback_opcode(fn)
        params = [A.binding_name(i["pat"]) for i in fn["sig"]["inputs"] if "pat" in i]
        if op != b:
            rule.bad("binary|%s" % b, "Context::%s must build BinaryOpcode::%s (found %s)" % (name, b, op), A.where(fn))
            continue
        args = [A.ident(A.strip(a)) for a in fb["args"][:2]]
        if args != params[:2]:
            rule.bad("binary|%s|order" % b, "Context::%s(%s) builds the node with operands (%s)" % (name, ", ".join(params[:2]), ", ".join(map(str, args))), A.where(fn, fb))
        else:
            rule.ok("Context::%s builds BinaryOpcode::%s(%s)" % (name, b, ", ".join(args)), file=CTX, line=fb["ln"])
    # folding goes through the opcode's own eval, operands in order (however the constant test is written)
    def op_of(fn_, e):
        """which parameter's Op does `e` denote (`*self.get_op(p).ok_or(BadNode)?` possibly through a local)"""
        e = A.strip(e)
        if A.ident(e):
            lets = [s_ for s_ in A.find(fn_["body"], "Let") if A.binding_name(s_["pat"]) == A.ident(e) and s_.get("init") is not None]
            if len(lets) == 1:
                e = A.strip(lets[0]["init"])
        for c in A.find(e, "MethodCall"):
            if c["method"] == "get_op" and len(c["args"]) == 1:
                return A.ident(A.strip(c["args"][0]))
        return None

    def const_bindings(fn_, ctx):
        """{parameter: name bound to its constant payload} from the patterns on the way to a leaf"""
        out = {}
        for pat, scr in ctx:
            pats = pat["elems"] if pat.get("k") == "PTuple" else [pat]
            scrs = A.strip(scr)["elems"] if A.strip(scr).get("k") == "Tuple" else [scr]
            for p_, s_ in zip(pats, scrs):
                segs, subs = A.pat_variant(p_) if p_.get("k") == "PTupleStruct" else (None, None)
                if segs and segs[-2:] == ["Op", "Const"] and subs:
                    out[op_of(fn_, s_)] = A.binding_name(subs[0])
        return out

    for fname, nargs, ctor in (("op_unary", 1, "Unary"), ("op_binary", 2, "Binary")):
        fn = cfn(fname, root)
        params = [A.binding_name(i_["pat"]) for i_ in fn["sig"]["inputs"] if isinstance(i_, dict) and "pat" in i_]
        vals = []
        for s_ in A.find(fn["body"], "Let"):
            if s_.get("init") is not None and A.strip(s_["init"]).get("k") in ("If", "Match"):
                vals = A.branch_leaves(s_["init"])
        if not vals:
            tail = A.stmt_expr(fn["body"]["stmts"][-1])
            vals = A.branch_leaves(tail) if tail else []
        fold = intern = False
        for leaf, ctx in vals:
            lt = str(A.ftxt(leaf))
            cb = const_bindings(fn, ctx)
            if lt.startswith("self.constant(op.eval("):
                want = "self.constant(op.eval(%s))" % ",".join("%s.0" % cb.get(p) for p in params[:nargs])
                fold = fold or lt == want
            elif lt == "self.ops.insert(Op::%s(op,%s))" % (ctor, ",".join(params[:nargs])):
                intern = True
            elif A.strip(leaf).get("k") not in ("Return", "Macro"):
                # the generic builder is where *every* node of that arity is made: a rewrite here is not one of
                # the vetted per-opcode identities (R1) and applies to every caller, import included
                rule.bad("%s|rewrite|%s" % (fname, lt[:40]), "%s builds `%s` for some operands instead of folding or interning Op::%s(op, ..): an algebraic rewrite in the generic builder is outside the vetted identities (e.g. sqrt(square(x)) is not |x| when x*x underflows)" % (fname, A.unparse(leaf)[:60], ctor), A.where(fn, leaf))
        if fold and intern:
            rule.ok("%s folds constants with op.eval (operands in order) and otherwise interns Op::%s(op, ..)" % (fname, ctor))
        else:
            rule.bad(fname, "%s must fold with `op.eval(%s)` on its operands' constants in order and intern `Op::%s(op, %s)`" % (fname, ", ".join("%s.0" % p for p in params[:nargs]), ctor, ", ".join(params[:nargs])), A.where(fn))
    fn = cfn("op_binary_commutative", root)
    tl = A.unblock(A.inline_lets_deep(fn["body"]))
    params = [A.binding_name(i_["pat"]) for i_ in fn["sig"]["inputs"] if isinstance(i_, dict) and "pat" in i_]
    a_, b_ = params[0], params[1]
    if str(A.ftxt(tl)) in ("self.op_binary(%s.min(%s),%s.max(%s),op)" % (a_, b_, a_, b_), "self.op_binary(%s.min(%s),%s.max(%s),op)" % (b_, a_, b_, a_)) or _canonical_order(fn, a_, b_):
        rule.ok("op_binary_commutative orders operands canonically (min, max)")
    else:
        rule.bad("op_binary_commutative", "op_binary_commutative must be op_binary(a.min(b), a.max(b), op)", A.where(fn))
    from .C01 import commutative_set

    comm = commutative_set(root)
    if comm == {"Add", "Mul", "Min", "Max"}:
        rule.ok("operand reordering is used exactly for Add, Mul, Min, Max")
    else:
        rule.bad("commutative-set", "op_binary_commutative is used for %s; only Add, Mul, Min, Max commute" % sorted(comm), "")
    # every node creation is hash-consed
    d = A.load(CTX, root)
    ins = [c for c in A.find(d["items"], "MethodCall") if c["method"] in ("insert", "push", "insert_full") and A.ftxt(c["recv"]) == "self.ops"]
    bad = [c for c in ins if c["method"] != "insert"]
    if ins and not bad:
        rule.ok("all %d node creations go through the deduplicating arena insert" % len(ins))
    else:
        rule.bad("arena", "a node is created without `self.ops.insert(..)` (deduplication)", "")


def _pushes_pops(block, todo="todo", stack="stack"):
    """names pushed as Action::Down(x) and names popped from the stack, in order"""
    downs = []
    pops = []
    for s in A.stmts_of(block):
        e = A.strip(A.stmt_expr(s) or {}) if s.get("k") != "Let" else None
        if e is not None and e.get("k") == "For" and A.strip(e["iter"]).get("k") == "Array" and A.binding_name(e["pat"]):
            # `for c in [x, y, z] { todo.push(Action::Down(c)); }` is the three pushes in that order
            inner = A.stmts_of(e["body"])
            ie = A.strip(A.stmt_expr(inner[0]) or {}) if len(inner) == 1 else {}
            if ie.get("k") == "MethodCall" and ie["method"] == "push" and A.ident(A.strip(ie["recv"])) == todo:
                a = A.strip(ie["args"][0])
                if a.get("k") == "Call" and (A.path_segs(a["func"]) or [])[-1:] == ["Down"] and A.ident(A.strip(a["args"][0])) == A.binding_name(e["pat"]):
                    downs += [A.ftxt(A.strip(x)).lstrip("*") for x in A.strip(e["iter"])["elems"]]
            continue
        if e is not None and e.get("k") == "MethodCall" and e["method"] == "push" and A.ident(A.strip(e["recv"])) == todo:
            a = A.strip(e["args"][0])
            if a.get("k") == "Call" and (A.path_segs(a["func"]) or [])[-1:] == ["Down"]:
                downs.append(A.ftxt(A.strip(a["args"][0])).lstrip("*"))
        if s.get("k") == "Let" and s.get("init") is not None and A.ftxt(s["init"]) == "%s.pop().unwrap()" % stack:
            pops.append(A.binding_name(s["pat"]))
    return downs, pops


def r3_stack_discipline(rule, root=None):
    for fname, enum in (("import", "TreeOp"), ("export", "Op")):
        fn = cfn(fname, root)
        # the match over the popped work item, whatever it is called
        ms = [m for m in A.find(fn["body"], "Match") if {(A.pat_variant(a["pat"])[0] or [None])[-1] for a in m["arms"]} >= {"Down", "Up"} and A.ident(A.strip(m["e"]))]
        if len(ms) != 1:
            rule.lost("match t { Action::Down .. } in Context::%s" % fname)
            continue
        down = up = None
        for arm in ms[0]["arms"]:
            segs, _ = A.pat_variant(arm["pat"])
            if segs and segs[-1] == "Down":
                down = arm
            if segs and segs[-1] == "Up":
                up = arm
        if down is None or up is None:
            rule.lost("Action::Down / Action::Up arms in Context::%s" % fname)
            continue
        pushes = {}
        for m in A.find(down["body"], "Match"):
            for variant, subs, arm in O.arms_by_variant(m, enum):
                if variant is None:
                    continue
                d, _p = _pushes_pops(arm["body"])
                if d:
                    pushes[variant] = (d, arm)
        pops = {}
        for m in A.find(up["body"], "Match"):
            for variant, subs, arm in O.arms_by_variant(m, enum):
                if variant is None:
                    continue
                _d, p = _pushes_pops(arm["body"])
                if not p and variant == "RemapAxes":
                    from . import C13 as C13_

                    order = C13_.remap_axes_pop_order(arm)
                    if order is not None:
                        # the k-th pop becomes the component it is stored in
                        inv = {pop_i: "xyz"[pos] for pos, pop_i in enumerate(order)}
                        p = [inv.get(k_) for k_ in range(3)]
                if p:
                    pops[variant] = (p, arm)
        for v in sorted(set(pushes) | set(pops)):
            if v == "RemapAffine":
                continue
            d = pushes.get(v, ([], None))[0]
            p = pops.get(v, ([], None))[0]
            # children are pushed after Up in order c1..cn; the LIFO todo and LIFO value stack reverse twice
            dn = [x for x in d if x != "target"]
            if dn == p and dn:
                rule.ok("Context::%s %s::%s: children pushed %s, results popped %s" % (fname, enum, v, dn, p), file=CTX, line=(pops[v][1] or {}).get("ln"))
            else:
                arm = (pops.get(v) or pushes.get(v))[1]
                rule.bad("%s|%s" % (fname, v), "Context::%s %s::%s pushes children %s but pops results as %s: operands would be exchanged" % (fname, enum, v, dn, p), A.where(fn, arm))
        t = A.ftxt(fn["body"])
        if "assert_eq!(stack.len(),1)" in t:
            rule.ok("Context::%s ends with exactly one value on the stack" % fname)
        else:
            rule.bad("%s|final" % fname, "Context::%s must end with exactly one value" % fname, A.where(fn))
    # import: opcode -> builder dispatch
    fn = cfn("import", root)
    ms = O.match_on(fn, "BinaryOpcode", min_arms=6)
    if len(ms) != 1:
        rule.lost("match op { BinaryOpcode::.. } in Context::import")
    else:
        inv = {v: k for k, v in BIN_NAME.items()}
        seen = set()
        for variant, _s, arm in O.arms_by_variant(ms[0], "BinaryOpcode"):
            if variant is None:
                rule.bad("import|wildcard", "catch-all arm in import's opcode dispatch", A.where(fn, arm))
                continue
            seen.add(variant)
            b = A.strip(arm["body"])
            ok = b.get("k") == "MethodCall" and A.ident(A.strip(b["recv"])) == "self" and b["method"] == inv.get(variant) and [A.ident(A.strip(a)) for a in b["args"]] == ["lhs", "rhs"]
            if ok:
                rule.ok("import: BinaryOpcode::%s -> self.%s(lhs, rhs)" % (variant, inv[variant]), file=CTX, line=arm["ln"])
            else:
                rule.bad("import|%s" % variant, "import rebuilds BinaryOpcode::%s with `%s`, expected self.%s(lhs, rhs)" % (variant, A.unparse(b), inv.get(variant)), A.where(fn, arm))
        _u, binary = O.ctx_opcodes(root)
        for b in binary:
            if b not in seen:
                rule.bad("import|%s|missing" % b, "import has no arm for BinaryOpcode::%s" % b, A.where(fn, ms[0]))
    t = A.ftxt(fn["body"])
    if "letout=self.op_unary(arg,*op).unwrap();" in t:
        rule.ok("import: unary nodes are rebuilt with their own opcode")
    else:
        rule.bad("import|unary", "import must rebuild a unary node with op_unary(arg, *op)", A.where(fn))
    # export rebuilds with the same opcode and operand order
    fn = cfn("export", root)
    t = A.ftxt(fn["body"])
    if "TreeOp::Binary(op,lhs.arc().clone(),rhs.arc().clone())" in t and "TreeOp::Unary(op,arg.arc().clone())" in t:
        rule.ok("export rebuilds Binary(op, lhs, rhs) / Unary(op, arg)")
    else:
        rule.bad("export|rebuild", "export must rebuild TreeOp::Binary(op, lhs, rhs) and TreeOp::Unary(op, arg)", A.where(fn))


def _tree_impl_fn(trait, name, root=None):
    return A.find_fn(TREE, name, self_ty="TreeOp", trait=trait, root=root)


def r6_tree_eq_hash_drop(rule, root=None):
    eq = _tree_impl_fn("PartialEq", "eq", root)
    hs = _tree_impl_fn("std::hash::Hash", "hash", root)
    # hash: one loop, no skipping
    loops = list(A.find(hs["body"], "While"))
    if len(loops) != 1:
        rule.lost("the work-list loop in Hash for TreeOp")
    else:
        body = loops[0]["body"]
        skips = [n for n in A.walk(body) if n.get("k") in ("Continue", "Break", "Return")]
        ifs = [n for n in A.walk(body) if n.get("k") == "If"]
        if skips or ifs:
            n = (skips + ifs)[0]
            rule.bad("hash|skip", "Hash for TreeOp skips nodes conditionally (`%s`): the hash must depend only on structure, or equal trees with different sharing hash differently" % A.unparse(n)[:50], A.where(hs, n))
        else:
            rule.ok("hash visits every node unconditionally", file=TREE, line=hs["ln"])
        t = A.ftxt(body)
        mt = t.fmatch("std::mem::discriminant($T).hash(state)")
        if mt is not None and (t.fmatch("todo.extend($T.iter_children().map(|$C|$C.as_ref()))", bind=mt) is not None or t.fmatch("for$C in$T.iter_children(){todo.push($C.as_ref());}".replace(" ", ""), bind=mt) is not None):
            rule.ok("hash mixes the variant tag and walks iter_children")
        else:
            rule.bad("hash|walk", "Hash for TreeOp must hash the discriminant and walk iter_children()", A.where(hs))
        ptr = [c for c in A.find(hs["body"], "Cast") if "*const" in c["ty"]] + [c for c in A.find(hs["body"], "Call") if "ptr" in A.unparse(c["func"])]
        if ptr:
            rule.bad("hash|ptr", "Hash for TreeOp uses pointer identity", A.where(hs, ptr[0]))
    ms = [m for m in A.find(hs["body"], "Match") if A.ident(A.strip(m["e"])) == "t"]
    want_hash = {
        "Input": "i.hash(state)", "Const": "OrderedFloat(*v).hash(state)", "Binary": "op.hash(state)", "Unary": "op.hash(state)",
        "RemapAxes": "()", "RemapAffine": "mat.matrix().iter().for_each(|f|OrderedFloat(*f).hash(state))",
    }
    if len(ms) == 1:
        for variant, subs, arm in O.arms_by_variant(ms[0], "TreeOp"):
            got = A.ftxt(arm["body"])
            names = [n for n in A.pat_names(arm["pat"]) if not n.startswith("_")]
            w = want_hash.get(variant, "?")
            # rename the single binding to the expected one
            g2 = str(A.ftxt(A.unblock(arm["body"])))
            if len(names) == 1:
                for cand in ("i", "v", "op", "mat"):
                    if cand in w:
                        g2 = g2.replace(names[0], cand)
            if variant == "RemapAffine":
                bt_ = A.ftxt(arm["body"])
                if bt_.fmatch("%s.matrix().iter().for_each(|$F|OrderedFloat(*$F).hash(state))" % (names[0] if names else "mat")) is not None or bt_.fmatch("for$Fin%s.matrix().iter(){OrderedFloat(*$F).hash(state);}" % (names[0] if names else "mat")) is not None:
                    g2 = w
            if g2 == w:
                rule.ok("hash(TreeOp::%s) covers its payload" % variant, file=TREE, line=arm["ln"])
            else:
                rule.bad("hash|%s" % variant, "Hash for TreeOp::%s hashes `%s`; eq compares this payload as `%s`" % (variant, got, w), A.where(hs, arm))
    else:
        rule.lost("match t in Hash for TreeOp")
    # eq: per variant comparisons
    ms = [m for m in A.find(eq["body"], "Match") if A.ftxt(m["e"]) == "(a,b)"]
    if len(ms) != 1:
        rule.lost("match (a, b) in PartialEq for TreeOp")
    else:
        seen = {}
        for arm in ms[0]["arms"]:
            p = arm["pat"]
            if p.get("k") == "PWild":
                b = A.ftxt(arm["body"])
                if b == "returnfalse":
                    rule.ok("eq: different variants are unequal")
                else:
                    rule.bad("eq|default", "eq's default arm must return false", A.where(eq, arm))
                continue
            vs = []
            for el in p.get("elems", []):
                segs, _ = A.pat_variant(el)
                vs.append(segs[-1] if segs else None)
            if len(vs) == 2 and vs[0] == vs[1]:
                seen[vs[0]] = arm
            else:
                rule.bad("eq|mixed", "eq arm compares different variants %s" % vs, A.where(eq, arm))

        def first_bindings(arm):
            """the names bound to the first payload field on either side (None when nothing is bound)"""
            out = []
            for el in arm["pat"]["elems"]:
                if el.get("k") == "PTupleStruct":
                    _segs, subs = A.pat_variant(el)
                    out.append(A.binding_name(subs[0]) if subs and subs[0].get("k") != "PRest" else None)
                elif el.get("k") == "PStruct":
                    b = [A.binding_name(f["pat"]) for f in el["fields"] if f["name"] == "mat"]
                    out.append(b[0] if b else None)
                else:
                    out.append(None)
            return out

        def unwrap_of(e):
            """`OrderedFloat(*x)` -> ('of', x) ; `*x` / `x` -> ('', x)"""
            e = A.strip(e)
            if e.get("k") == "Call" and A.is_path(e["func"], "OrderedFloat") and len(e["args"]) == 1:
                return "of", A.ident(A.strip(e["args"][0]))
            return "", A.ident(e)

        def returns_false(blk):
            st = A.stmts_of(blk)
            if len(st) != 1:
                return False
            r = A.strip(A.stmt_expr(st[0]) or {})
            v = A.strip(r.get("e") or {}) if r.get("k") == "Return" else {}
            return v.get("k") == "Lit" and v.get("ty") == "bool" and v.get("v") == "false"

        for v in ("Input", "Const", "Unary", "Binary", "RemapAxes", "RemapAffine"):
            if v not in seen:
                rule.bad("eq|%s|missing" % v, "eq has no arm for a pair of TreeOp::%s" % v, A.where(eq))
                continue
            arm = seen[v]
            g = A.ftxt(A.inline_lets_deep(arm["body"]))
            names = first_bindings(arm)
            st = A.stmts_of(arm["body"])
            if v == "RemapAxes":
                ok = len(st) == 0
            elif v == "RemapAffine":
                ok = (
                    None not in names
                    and g.fmatch("%s.matrix().iter().zip(%s.matrix().iter()).any(|($P,$Q)|(OrderedFloat(*$P)!=OrderedFloat(*$Q)))" % tuple(names)) is not None
                    and "returnfalse" in g
                )
            else:
                ok = False
                if len(st) == 1 and None not in names:
                    i_ = A.strip(A.stmt_expr(st[0]) or {})
                    c = A.strip(i_.get("cond") or {}) if i_.get("k") == "If" and not i_.get("else") else {}
                    if c.get("k") == "Binary" and c.get("op") == "!=" and returns_false(i_["then"]):
                        l, r = unwrap_of(c["left"]), unwrap_of(c["right"])
                        wrap = "of" if v == "Const" else ""
                        ok = {l[1], r[1]} == set(names) and l[0] == r[0] == wrap
            if ok:
                rule.ok("eq(TreeOp::%s) compares its payload" % v)
            else:
                rule.bad("eq|%s" % v, "eq for TreeOp::%s is `%s`" % (v, g[:80]), A.where(eq))
        t = A.ftxt(eq["body"])
        if t.fmatch("todo.extend(a.iter_children().zip(b.iter_children()).map(|($P,$Q)|($P.as_ref(),$Q.as_ref())))") is not None or t.fmatch("for($P,$Q)ina.iter_children().zip(b.iter_children()){todo.push(($P.as_ref(),$Q.as_ref()));}") is not None:
            rule.ok("eq recurses over iter_children pairwise on the heap")
        else:
            rule.bad("eq|walk", "eq must walk both trees' iter_children() pairwise", A.where(eq))
        # inside the work-list loop nothing can decide "equal": a pair that matches
        # (same pointer, same payload) only lets the walk go on
        loops = [n for n in A.walk(eq["body"]) if n.get("k") in ("While", "Loop", "For")]
        early = []
        for lp in loops:
            for n in A.walk(lp["body"]):
                if n.get("k") == "Return":
                    v = A.strip(n.get("e")) if n.get("e") else None
                    if not (v and v.get("k") == "Lit" and v.get("ty") == "bool" and v.get("v") == "false"):
                        early.append(n)
                elif n.get("k") == "Break":
                    early.append(n)
        if not loops:
            rule.bad("eq|loop", "eq has no work-list loop", A.where(eq))
        elif early:
            rule.bad("eq|early", "eq leaves its work-list loop with `%s`: only a mismatch (`return false`) may end the walk before every pair was compared" % A.unparse(early[0])[:40], A.where(eq, early[0]))
        else:
            rule.ok("eq: the walk ends early only with `return false`")
    # iter_children / iter_children_mut list every Arc field
    e = A.find_item(TREE, "EnumDef", "TreeOp", root)
    arcs = {}
    for v in e["variants"]:
        arcs[v["name"]] = [f["name"] for f in v["fields"] if "Arc<TreeOp>" in f["ty"].replace(" ", "")]
    for fname in ("iter_children", "iter_children_mut"):
        fn = A.find_fn(TREE, fname, self_ty="TreeOp", root=root)
        ms = list(A.find(fn["body"], "Match"))
        for variant, subs, arm in O.arms_by_variant(ms[0], "TreeOp") if ms else []:
            if variant is None:
                continue
            somes = []
            for c in A.find(arm["body"], "Call"):
                if A.is_path(c["func"], "Some"):
                    somes.append(A.ident(A.strip(c["args"][0])))
            names = A.pat_names(arm["pat"])
            n_arc = len(arcs.get(variant, []))
            if len(somes) == n_arc and len(set(somes)) == n_arc:
                rule.ok("%s(TreeOp::%s) yields its %d children" % (fname, variant, n_arc))
            else:
                rule.bad("%s|%s" % (fname, variant), "%s yields %s for TreeOp::%s, which has %d subtree fields" % (fname, somes, variant, n_arc), A.where(fn, arm))
    # Drop: iterative
    dr = _tree_impl_fn("Drop", "drop", root)
    t = A.ftxt(dr["body"])
    md = t.fmatch("for$Cin$T.iter_children_mut(){") if hasattr(t, "fmatch") else None
    need = ["ifself.eligible_for_fast_drop(){return;}", "for$Cin$T.iter_children_mut(){", "todo.extend(Arc::into_inner($A))", "let$A=std::mem::replace($C,empty.clone());"]
    miss = []
    bnd = {}
    for n in need:
        r_ = t.fmatch(n, bind=bnd) if "$" in n else ({} if n in t else None)
        if r_ is None:
            miss.append(n)
        else:
            bnd.update(r_)
    if miss:
        rule.bad("drop|loop", "Drop for TreeOp must dismantle children on a heap work-list (missing %s)" % miss, A.where(dr))
    else:
        rule.ok("Drop dismantles children iteratively", file=TREE, line=dr["ln"])
    f1 = A.find_fn(TREE, "eligible_for_fast_drop", self_ty="TreeOp", root=root)
    t1 = A.ftxt(f1["body"])
    if t1 == "{self.iter_children().all(|c|c.does_not_recurse())}" or _all_children(f1) == ("self.iter_children()", "does_not_recurse"):
        rule.ok("the recursive (stack) drop is taken only when every child is a leaf")
    else:
        rule.bad("drop|fast", "eligible_for_fast_drop is `%s`; the stack-recursive drop is only safe when every child is a leaf" % t1, A.where(f1))
    f2 = A.find_fn(TREE, "does_not_recurse", self_ty="TreeOp", root=root)
    t2 = A.ftxt(f2["body"])
    if t2 in ("{matches!(self,TreeOp::Const(..) | TreeOp::Input(..))}", "{matches!(self,TreeOp::Const(..)|TreeOp::Input(..))}") or _true_variants(f2, root) == {"Const", "Input"}:
        rule.ok("leaves are exactly Const and Input")
    else:
        rule.bad("drop|leaf", "does_not_recurse is `%s`" % t2, A.where(f2))


def _all_children(fn):
    """`it.all(|c| c.p())` or `!it.any(|c| !c.p())` as the whole body -> (iterator text, p)"""
    e = A.unblock(fn["body"])
    neg = False
    while e.get("k") == "Unary" and e["op"] == "!":
        neg = not neg
        e = A.unblock(e["e"])
    if e.get("k") != "MethodCall" or e["method"] not in ("all", "any") or len(e["args"]) != 1 or e["args"][0].get("k") != "Closure":
        return None
    cl = e["args"][0]
    if len(cl.get("inputs", [])) != 1:
        return None
    c = A.binding_name(cl["inputs"][0])
    p = A.unblock(cl["body"])
    pneg = False
    while p.get("k") == "Unary" and p["op"] == "!":
        pneg = not pneg
        p = A.unblock(p["e"])
    if not (p.get("k") == "MethodCall" and not p["args"] and A.ident(A.strip(p["recv"])) == c):
        return None
    # all(P) <=> !any(!P)
    if (e["method"] == "all" and not neg and not pneg) or (e["method"] == "any" and neg and pneg):
        return (str(A.ftxt(A.strip(e["recv"]))), p["method"])
    return None


def _true_variants(fn, root=None):
    """the TreeOp variants for which a `&self -> bool` classifier is true: `matches!(self, A | B)` or a
    `match self` with literal arms (a wildcard arm stands for the variants not listed)"""
    import re as _re

    e = A.unblock(fn["body"])
    allv = set(O.enum_variants(TREE, "TreeOp", root))
    if e.get("k") == "Macro" and e.get("name") == "matches":
        t = A.unparse(e).replace(" ", "")
        if not t.startswith("matches!(self,") or "if" in _re.findall(r"\bif\b", t):
            return None
        return set(_re.findall(r"TreeOp::(\w+)", t))
    if e.get("k") == "Match" and A.ident(A.strip(e["e"])) in ("self",) or (e.get("k") == "Match" and str(A.ftxt(A.strip(e["e"]))) == "*self"):
        true, seen = set(), set()
        for arm in e["arms"]:
            if arm.get("guard") is not None:
                return None
            b = A.unblock(arm["body"])
            if not (b.get("k") == "Lit" and b.get("ty") == "bool"):
                return None
            val = b["v"] == "true"
            pats = arm["pat"]["cases"] if arm["pat"].get("k") == "POr" else [arm["pat"]]
            for p in pats:
                if p.get("k") == "PWild":
                    names = allv - seen
                else:
                    segs, _subs = A.pat_variant(p)
                    if not segs or segs[-1] not in allv:
                        return None
                    names = {segs[-1]}
                names -= seen
                seen |= names
                if val:
                    true |= names
        return true if seen == allv else None
    return None


def r7_no_recursion(rule, root=None):
    """the deep-tree entry points do not call themselves (directly or through a local helper)"""
    targets = [
        (TREE, "eq", "TreeOp", "PartialEq"), (TREE, "hash", "TreeOp", "std::hash::Hash"), (TREE, "drop", "TreeOp", "Drop"),
        (CTX, "import", "Context", None), (CTX, "export", "Context", None), (CTX, "deriv", "Context", None),
        ("fidget-core/src/compiler/ssa_tape.rs", "new", "SsaTape", None),
    ]
    for path, name, ty, tr in targets:
        fn = A.find_fn(path, name, self_ty=ty, trait=tr, root=root)
        selfcalls = []
        for c in A.find(fn["body"], "MethodCall"):
            if c["method"] == name and A.ident(A.strip(c["recv"])) == "self" and name not in ("hash", "eq"):
                selfcalls.append(c)
        for c in A.find(fn["body"], "Call"):
            segs = A.path_segs(c["func"]) or []
            if name == "drop" and len(segs) == 1:
                continue  # std::mem::drop of an already dismantled node
            if segs[-1:] == [name] and (len(segs) == 1 or segs[-2] in (ty, "Self")):
                selfcalls.append(c)
        nested = [f for f in A.find(fn["body"], "Fn")]
        rec_nested = [f for f in nested if any((A.path_segs(c["func"]) or [])[-1:] == [f["name"]] for c in A.find(f["body"], "Call"))]
        if selfcalls or rec_nested:
            n = (selfcalls + rec_nested)[0]
            rule.bad("%s::%s" % (ty, name), "%s::%s recurses on the call stack (`%s`): arbitrarily deep expressions would overflow it" % (ty, name, A.unparse(n)[:40]), A.where(fn, n))
        else:
            rule.ok("%s::%s is not recursive" % (ty, name), file=path, line=fn["ln"])
        if name in ("eq", "hash", "import", "export", "deriv", "new"):
            if not (list(A.find(fn["body"], "While")) or list(A.find(fn["body"], "Loop"))):
                rule.bad("%s::%s|loop" % (ty, name), "%s::%s has no work-list loop" % (ty, name), A.where(fn))


from .. import factrules as FR


def r_constant_verbatim(rule, root=None):
    """`Context::constant(f)` interns exactly the value it was given: every constant (typed by the user, imported from a
    tree, or produced by folding) passes through it, and the rewrite rules then test it with `== 0.0` / `== 1.0` - a
    value altered on the way in (flushed, rounded, canonicalised) makes those rules fire on the wrong constant"""
    fn = A.find_fn(CTX, "constant", self_ty="Context", root=root)
    params = [A.binding_name(i_["pat"]) for i_ in fn["sig"]["inputs"] if isinstance(i_, dict) and "pat" in i_]
    if not params:
        rule.lost("Context::constant(f)")
        return
    f = params[0]
    shadows = [l_ for l_ in A.find(fn["body"], "Let") if A.binding_name(l_["pat"]) == f]
    consts = [c for c in A.find(fn["body"], "Call") if (A.path_segs(c["func"]) or [])[-2:] == ["Op", "Const"]]
    if shadows:
        rule.bad("constant|altered", "Context::constant rebinds its argument (`%s`) before interning it: constants must enter the arena bit for bit" % A.unparse(shadows[0])[:70], A.where(CTX, shadows[0]))
    elif len(consts) == 1 and str(A.ftxt(consts[0]["args"][0])) in ("OrderedFloat(%s)" % f, "%s.into()" % f, "OrderedFloat::from(%s)" % f):
        rule.ok("Context::constant interns Op::Const of its argument unchanged", file=CTX, line=fn["ln"])
    else:
        rule.bad("constant|value", "Context::constant must intern `Op::Const(OrderedFloat(%s))` of its own argument" % f, A.where(CTX, fn))


def r_clear_covers_fields(rule, root=None):
    """`Context::clear()` forgets everything: node handles are plain indices into `ops`, so any other table that holds
    them (memoised axes, derivative caches) must be emptied with it, or it hands out indices into the *next* graph"""
    d = A.load(CTX, root)
    st = [it for it in A.find(d, "StructDef") if it.get("name") == "Context"]
    fn = A.find_fn(CTX, "clear", self_ty="Context", root=root)
    if not st or not isinstance(st[0].get("fields"), list):
        rule.lost("struct Context")
        return
    t = str(A.ftxt(fn["body"]))
    whole = "*self=" in t
    for f in st[0]["fields"]:
        n = f.get("name")
        if whole or ("self.%s.clear()" % n) in t or ("self.%s=" % n) in t or ("self.%s.fill(" % n) in t or ("self.%s.take()" % n) in t:
            rule.ok("Context::clear resets `%s`" % n, file=CTX, line=fn["ln"])
        else:
            rule.bad("clear|%s" % n, "Context::clear() leaves the field `%s` as it is: after a clear it still refers to nodes of the discarded graph, and the indices it holds alias whatever is built next" % n, A.where(CTX, fn))



def r8_tree_builders(rule, root=None):
    """the Tree builder API (what shapes, scripts and users write expressions with): every method builds its
    namesake opcode on (self, other) in that order; the operator impls keep source order, also with the number
    on the left"""
    NAMES = {"modulo": "Mod", "atan2": "Atan"}
    for hname, want in (("op_unary", "Tree(Arc::new(TreeOp::Unary($O,$A.0)))"), ("op_binary", "Tree(Arc::new(TreeOp::Binary($O,$A.0,$B.0)))")):
        fn = A.find_fn(TREE, hname, self_ty="Tree", root=root)
        ps = [A.binding_name(p["pat"]) for p in fn["sig"]["inputs"] if "pat" in p]
        t = str(A.ftxt(A.inline_lets_deep(fn["body"]))).strip("{}")
        exp = want.replace("$O", ps[-1]).replace("$A", ps[0]).replace("$B", ps[1] if len(ps) > 2 else "")
        if t == exp:
            rule.ok("Tree::%s stores (opcode, operands in parameter order)" % hname, file=TREE, line=fn["ln"])
        else:
            rule.bad("tree|%s" % hname, "Tree::%s must build `%s`; found `%s`" % (hname, exp, t), A.where(fn))
    n_un = n_bin = 0
    for fn in A.fns(TREE, root):
        ow = fn.get("_owner") or {}
        if A.strip_generics(ow.get("self_ty") or "") != "Tree" or ow.get("trait") or not dict.get(fn, "body"):
            continue
        t = str(A.ftxt(fn["body"]))
        m = re.fullmatch(r"\{(?:Self|Tree)::op_(unary|binary)\((.*),(Unary|Binary)Opcode::(\w+)\)\}", t)
        if not m and fn["name"] not in ("op_unary", "op_binary") and fn.get("vis"):
            # through a private helper of the same impl (`self.binary_with(other, BinaryOpcode::Max)`): read expanded
            try:
                t = str(A.ftxt(A.inline_helpers(fn)))
            except Exception:  # noqa: BLE001
                pass
            m = re.fullmatch(r"\{(?:Self|Tree)::op_(unary|binary)\((.*),(Unary|Binary)Opcode::(\w+)\)\}", t)
            if not m:
                # expanded all the way down to the node constructor
                m2 = re.fullmatch(r"\{*Tree\(Arc::new\(TreeOp::(Unary|Binary)\((Unary|Binary)Opcode::(\w+),(.*)\)\)\)\}*", t)
                if m2:
                    args_ = ",".join(a_[:-2] if a_.endswith(".0") else a_ + "?" for a_ in m2.group(4).split(","))
                    m = re.fullmatch(r"(unary|binary)\|(.*)\|(Unary|Binary)\|(\w+)", "%s|%s|%s|%s" % (m2.group(1).lower(), args_, m2.group(2), m2.group(3)))
        if not m:
            continue
        kind, args, kind2, variant = m.group(1), m.group(2), m.group(3), m.group(4)
        name = fn["name"]
        want_v = NAMES.get(name, name[:1].upper() + name[1:])
        ps = [A.binding_name(p["pat"]) for p in fn["sig"]["inputs"] if "pat" in p]
        want_args = "self.clone()" if kind == "unary" else "self.clone(),%s.into()" % (ps[0] if ps else "other")
        if kind.capitalize() != kind2 or variant != want_v:
            rule.bad("tree|%s|opcode" % name, "Tree::%s builds %sOpcode::%s; its name says %s" % (name, kind2, variant, want_v), A.where(fn))
        elif args != want_args:
            rule.bad("tree|%s|operands" % name, "Tree::%s passes `%s`; the receiver is the first operand and the argument the second (`%s`)" % (name, args, want_args), A.where(fn))
        else:
            rule.ok("Tree::%s -> %sOpcode::%s(%s)" % (name, kind2, variant, "self" if kind == "unary" else "self, other"), file=TREE, line=fn["ln"])
            if kind == "unary":
                n_un += 1
            else:
                n_bin += 1
    if n_un < 15 or n_bin < 8:
        rule.lost("Tree's named builder methods (found %d unary, %d binary; 20 / 9 known)" % (n_un, n_bin))
    for ax in "xyz":
        fn = A.find_fn(TREE, ax, self_ty="Tree", root=root)
        if str(A.ftxt(fn["body"])) == "{Tree(Arc::new(TreeOp::Input(Var::%s)))}" % ax.upper():
            rule.ok("Tree::%s() is the input Var::%s" % (ax, ax.upper()), file=TREE, line=fn["ln"])
        else:
            rule.bad("tree|axis|%s" % ax, "Tree::%s() must be TreeOp::Input(Var::%s)" % (ax, ax.upper()), A.where(fn))
    d = A.load(TREE, root)
    mdefs = {m["def"]: m for m in A.find(d["items"], "Macro") if m.get("def")}
    if "impl_binary" not in mdefs:
        rule.lost("macro impl_binary! in tree.rs")
        return
    from .C17 import tok

    body = tok(mdefs["impl_binary"]["tokens"])
    ln = mdefs["impl_binary"]["ln"]
    facts = [
        ("Tree op x builds op(self, x)", "tree-op", r"impl<A:Into<Tree>>std::ops::\$op<A>forTree\{typeOutput=Self;fn\$base_fn\(self,(?P<o>\w+):A\)->Self\{Self::op_binary\(self,(?P=o)\.into\(\),BinaryOpcode::\$op\)\}\}"),
        ("Tree op= x rebuilds self as op(self, x)", "tree-assign", r"fn\$assign_fn\(&mutself,(?P<o>\w+):A\)\{(?:usestd::ops::\$op;letmut(?P<n>\w+)=self\.clone\(\)\.\$base_fn\((?P=o)\.into\(\)\);std::mem::swap\(self,&mut(?P=n)\);|(?:usestd::ops::\$op;)?\*self=(?:self\.clone\(\)\.\$base_fn\((?P=o)\.into\(\)\)|(?:Tree|Self)::op_binary\(self\.clone\(\),(?P=o)\.into\(\),BinaryOpcode::\$op,?\));)\}"),
        ("number op Tree builds op(number, tree): the float stays on the left", "f32-op", r"implstd::ops::\$op<Tree>forf32\{typeOutput=Tree;fn\$base_fn\(self,(?P<o>\w+):Tree\)->Tree\{(?:Tree::op_binary\((?:self\.into\(\)|Tree::constant\(self\)|Tree::from\(self\)),(?P=o),BinaryOpcode::\$op\)|let(?P<l>\w+)(?::Tree)?=(?:self\.into\(\)|Tree::constant\(self\)|Tree::from\(self\));Tree::op_binary\((?P=l),(?P=o),BinaryOpcode::\$op\))\}\}"),
    ]
    for what, key, rx in facts:
        if re.search(rx, body):
            rule.ok("impl_binary!: %s" % what, file=TREE, line=ln)
        else:
            rule.bad("tree|impl_binary|%s" % key, "impl_binary!: %s (operands in source order; `1.0 - x` is Sub(1, x))" % what, "%s:%s" % (TREE, ln))
    inv = sorted(tok(m["tokens"]) for m in A.find(d["items"], "Macro") if m.get("name") == "impl_binary" and not m.get("def"))
    want = sorted(["Add,AddAssign,add,add_assign", "Sub,SubAssign,sub,sub_assign", "Mul,MulAssign,mul,mul_assign", "Div,DivAssign,div,div_assign"])
    if inv == want:
        rule.ok("+ - * / (and their assigning forms) are implemented for Add / Sub / Mul / Div", file=TREE)
    else:
        rule.bad("tree|impl_binary|table", "impl_binary! is invoked as %s; expected %s" % (inv, want), TREE)
    ng = [i for i in A.find_impls(TREE, self_ty="Tree", root=root) if (i.get("trait") or "").replace(" ", "").endswith("ops::Neg")]
    ngt = str(A.ftxt([x for x in ng[0]["items"] if x.get("k") == "Fn"][0]["body"])) if len(ng) == 1 else ""
    if ngt in ("{Tree::op_unary(self,UnaryOpcode::Neg)}", "{Self::op_unary(self,UnaryOpcode::Neg)}", "{Tree(Arc::new(TreeOp::Unary(UnaryOpcode::Neg,self.0)))}", "{TreeOp::Unary(UnaryOpcode::Neg,self.0).into()}") or re.fullmatch(r"\{letTree\((\w+)\)=self;(?:TreeOp::Unary\(UnaryOpcode::Neg,\1\)\.into\(\)|Tree\(Arc::new\(TreeOp::Unary\(UnaryOpcode::Neg,\1\)\)\))\}", ngt):
        rule.ok("-tree is Neg(tree)", file=TREE)
    else:
        rule.bad("tree|neg", "`-tree` must build UnaryOpcode::Neg of the tree", TREE)

def run(ctx):
    r = ctx.rule("R1", "constructor rewrites are identities over the reals under their premises", 20)
    ctx.guarded(r, r1_rewrites)
    r = ctx.rule("R1b", "comparison / logic constructors meet their truth tables on every ordering of operands", 24)
    ctx.guarded(r, r1b_truth_tables)
    r = ctx.rule("R2", "constructors build their namesake opcode in operand order; folding uses the opcode's eval; nodes are interned", 35)
    ctx.guarded(r, r2_namesakes)
    # constant folding is `op.eval(a, b)`: the folded constant is right only if eval is the opcode's meaning
    from .C01 import r_reference_eval

    r = ctx.rule("R2b", "the opcode evaluators that constant folding applies compute their namesake operator", 30)
    ctx.guarded(r, r_reference_eval)
    r = ctx.rule("R2d", "Context::clear() resets every field of Context", 1)
    ctx.guarded(r, r_clear_covers_fields)
    r = ctx.rule("R2c", "constants enter the arena bit for bit: Context::constant interns its argument unchanged", 1)
    ctx.guarded(r, r_constant_verbatim)
    r = ctx.rule("R3", "import/export push and pop operands in matching order and rebuild with the same opcode", 21)
    ctx.guarded(r, r3_stack_discipline)
    from . import C13 as C13_

    r = ctx.rule("R3c", "the importer's identity-keyed cache is keyed by (frame, node address), reused only for operator nodes, and starts empty in every call (addresses are only meaningful while the imported tree is alive)", 4)
    ctx.guarded(r, C13_.r4_cache_keys)
    r = ctx.rule("R6", "TreeOp eq / hash cover the same payload, walk the same children; drop is iterative", 32)
    ctx.guarded(r, r6_tree_eq_hash_drop)
    r = ctx.rule("R7", "deep-tree entry points are loops, not recursion", 7)
    ctx.guarded(r, r7_no_recursion)
    r = ctx.rule("R7f", "[resolved program] deep-tree entry points are in no call-graph cycle", 7)
    ctx.guarded(r, FR.no_recursion, ctx)
    r = ctx.rule("R8", "the Tree builder API builds its namesake opcodes on (self, other) in order; operator impls keep source order, also with the number on the left", 36)
    ctx.guarded(r, r8_tree_builders)
    # "importing an exported node yields the original node": the importer's frame handling is C13's subject, and a
    # slip there (C12j-1: the affine frame built from the outermost axes) changes what an imported tree means
    ctx.include('C13', 'import must preserve the meaning of remapped subtrees', only=('R3', 'R4', 'R5'))
