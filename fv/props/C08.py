"""C08 - meshes are closed, oriented and enclose the volume (structural part)."""
import re

from .. import ast as A
from .. import dualwalk as DW

OCT = "fidget-mesh/src/octree.rs"


def txt(n):
    return A.ftxt(n)


def builder_fn(name, root=None):
    return A.find_fn(OCT, name, self_ty="OctreeBuilder", root=root)


def _own_trace(fn, tv):
    """the one `eval.simplify(T, ..)` takes T from `Some(T)` of this cell's own trace option, and every other
    value of that choice is the parent handle `eval` unchanged"""
    calls = [c for c in A.find(fn["body"], "MethodCall") if c["method"] == "simplify" and A.ident(A.strip(c["recv"])) == "eval" and c["args"]]
    if len(calls) != 1:
        return False
    c = calls[0]
    tname = A.ident(A.strip(c["args"][0]))
    srcs = []
    for pat, scr in A.enclosing_patterns(fn["body"], c) or []:
        srcs += A.some_sources(pat, scr)
    if (tname, tv) not in srcs:
        return False
    # the outermost choice that is still a *value* (stops at the let / statement that takes it)
    cands = [cand for cand in list(A.find(fn["body"], "If")) + list(A.find(fn["body"], "Match")) if any(n is c for n in A.walk(cand))]
    lets = [l for l in A.find(fn["body"], "Let") if l.get("init") is not None and any(n is c for n in A.walk(l["init"]))]
    if lets:
        inner = min(lets, key=lambda l: sum(1 for _ in A.walk(l)))
        cands = [cand for cand in cands if any(n is cand for n in A.walk(inner["init"]))]
    if not cands:
        return False
    holder = max(cands, key=lambda x: sum(1 for _ in A.walk(x)))
    others = [l for l, _cx in A.branch_leaves(holder) if not any(n is c for n in A.walk(l))]
    return bool(others) and all(A.ident(A.strip(A.unblock(l))) == "eval" for l in others)


def r3_cells(rule, root=None):
    """region classification and leaf corner sampling"""
    from .. import raster as R

    fn = builder_fn("recurse", root)
    ivar = R._interval_var.__wrapped__(fn) if hasattr(R._interval_var, "__wrapped__") else None
    # interval variable: `let (i, r) = match self.eval_interval.eval_raw(..)`
    iv = tv = None
    for s in A.find(fn["body"], "Let"):
        if s.get("init") is not None and "eval_interval" in txt(s["init"]) and s["pat"].get("k") == "PTuple":
            iv, tv = [A.binding_name(x) for x in s["pat"]["elems"]]
    if iv is None:
        rule.lost("`let (i, r) = ..eval_interval..` in OctreeBuilder::recurse")
        return
    full = [p for p in A.find(fn["body"], "Path") if p["segs"] == ["Cell", "Full"]]
    empty = [p for p in A.find(fn["body"], "Path") if p["segs"] == ["Cell", "Empty"]]
    for nodes, want, what in ((full, "(%s.upper()<0.0)" % iv, "full"), (empty, "(%s.lower()>0.0)" % iv, "empty")):
        if len(nodes) != 1:
            rule.bad("recurse|%s|count" % what, "expected exactly one Cell::%s site in recurse" % what.capitalize(), A.where(fn))
            continue
        conds = R.cond_chain(fn, nodes[0]) or []
        if want in conds:
            rule.ok("a cell is declared %s only under %s" % (what, want), file=OCT, line=nodes[0]["ln"])
        else:
            rule.bad("recurse|%s" % what, "a cell is declared %s under `%s`; only `%s` justifies it" % (what, " && ".join(conds), want), A.where(fn, nodes[0]))
    t = txt(fn["body"])
    if "cell.bounds[crate::types::X],cell.bounds[crate::types::Y],cell.bounds[crate::types::Z],self.world_to_model,self.vars" in t:
        rule.ok("the cell's box is evaluated as (X, Y, Z) bounds through the mesh transform")
    else:
        rule.bad("recurse|bounds", "the interval evaluation must receive cell.bounds[X], [Y], [Z] in that order, the transform and the vars", A.where(fn))
    if "ifletSome(trace)=%s.as_ref(){eval.simplify(trace,&mutself.workspace,&mutself.shape_storage,&mutself.tape_storage)}else{eval}" % tv in t or _own_trace(fn, tv):
        rule.ok("children use the handle simplified with this cell's own trace")
    else:
        rule.bad("recurse|trace", "simplification must use the trace returned by this cell's interval evaluation", A.where(fn))
    uses = [c for c in A.find(fn["body"], "MethodCall") if c["method"] in ("recurse", "leaf") and A.ident(A.strip(c["recv"])) == "self"]
    if uses and all(txt(c["args"][0]) == "sub_tape" for c in uses):
        rule.ok("leaves and children are evaluated with sub_tape")
    else:
        rule.bad("recurse|subtape", "leaf / child evaluation must use sub_tape", A.where(fn))
    if "letindex=self.octree.cells.len();self.octree.cells.push([Cell::Invalid;8]);" in t and "foriinCorner::<3>::iter(){letcell=cell.child(index,i);" in t and "&muthermite_child[i.index()]" in t:
        rule.ok("all 8 children are created at the freshly reserved index, each with its own hermite slot")
    else:
        rule.bad("recurse|children", "recurse must reserve 8 cells at the end of the array and visit every corner's child with its own hermite slot", A.where(fn))
    if "if(cell.depth==(self.max_depthasusize))" in t:
        rule.ok("leaves are built exactly at the requested depth")
    else:
        rule.bad("recurse|depth", "leaves must be built exactly when cell.depth == max_depth", A.where(fn))
    lf = builder_fn("leaf", root)
    t = txt(lf["body"])
    need = [
        ("corner i's (x, y, z) go to slot i of (xs, ys, zs)", "foriinCorner::<3>::iter(){let[x,y,z]=cell.corner(i);xs[i.index()]=x;ys[i.index()]=y;zs[i.index()]=z;}"),
        ("corner batch evaluated as (xs, ys, zs) through the transform", "eval.f_tape(&mutself.tape_storage),&xs,&ys,&zs,self.world_to_model,"),
        ("bit i of the mask is set iff corner i is inside (value < 0)", [
            "letmask=out.iter().enumerate().filter(|($J,$V)|(**$V<0.0)).fold(0,|$A,($I,$W)|($A|(1<<$I)));",
            "letmutmask=0;for($I,$V)inout.iter().enumerate(){if(*$V<0.0){(mask|=(1<<$I));}}",
            "letmask=out.iter().enumerate().fold(0,|$A,($I,$V)|if(*$V<0.0){($A|(1<<$I))}else{$A});",
        ]),
        ("no corner inside: Empty; all inside: Full", "if(mask==0){returnCell::Empty;}elseif(mask==255){returnCell::Full;}"),
    ]
    for what, frag in need:
        alts = frag if isinstance(frag, list) else [frag]
        if any((f_ in t) if "$" not in f_ else (t.fmatch(f_) is not None) for f_ in alts):
            rule.ok("leaf: %s" % what, file=OCT, line=lf["ln"])
        else:
            rule.bad("leaf|%s" % what[:24], "leaf: %s (`%s` not found)" % (what, alts[0][:60]), A.where(lf))


def _merge_remap(rule, fn):
    """the index shift applied to a task's cells, wherever it is written (closure, nested fn, inline): a Leaf's
    vertex index moves by vert_offsets[i], a Branch's cell index by cell_offsets[i], Full / Empty stay; it is
    applied to every cell of the task and to the task's root, which goes to the slot it was built for"""
    from .. import effects as E

    view = A.inline_helpers(fn)
    ms = []
    in_items = set()
    for it in A.find(view, "Fn"):
        for n_ in A.walk(it):
            if isinstance(n_, dict):
                in_items.add(id(n_))
    # a closure that is also passed by name (`cs.map(remap_cell)`) stays a closure: its parameters are the cell
    closures = {}
    for s_ in A.find(view, "Let"):
        i_ = A.strip(s_.get("init")) if s_.get("init") is not None else None
        if i_ is not None and i_.get("k") == "Closure" and A.binding_name(s_["pat"]):
            closures[A.binding_name(s_["pat"])] = i_
    for m in A.find(view, "Match"):
        if id(m) in in_items:
            continue  # the definition of a nested fn: read where it is called (inlined)
        arms = {}
        for arm in m["arms"]:
            for p_ in A.flatten_or(arm["pat"]):
                segs, _subs = A.pat_variant(p_) if p_.get("k") in ("PTupleStruct", "PStruct", "PPath", "PIdent") else (None, None)
                if segs and segs[0] == "Cell" or (segs and len(segs) >= 2 and segs[-2] == "Cell"):
                    arms[segs[-1]] = arm
        if {"Leaf", "Branch"} <= set(arms) and all(any(b_["op"] == "+" for b_ in A.find(arms[k_]["body"], "Binary")) for k_ in ("Leaf", "Branch")):
            ms.append((m, arms))
    if not ms:
        rule.lost("the Leaf / Branch index shift in build_inner_mt")
        return
    facts = {"leaf": True, "branch": True, "same": True}
    why = {}
    for m, arms in ms:
        env = E.env_at(view, m)
        for kind_, arm, want in (("leaf", arms["Leaf"], "vert_offsets[i]"), ("branch", arms["Branch"], "cell_offsets[i]")):
            adds = [b_ for b_ in A.find(arm["body"], "Binary") if b_["op"] == "+"]
            ok_ = False
            for b_ in adds:
                l_, r_ = E.canon(b_["left"], env), E.canon(b_["right"], env)
                if {l_, r_} == {"index", want}:
                    ok_ = True
            built = [s_ for s_ in list(A.find(arm["body"], "Struct")) + list(A.find(arm["body"], "Call")) if ((A.path_segs(s_.get("path") or s_.get("func")) or [None])[-1]) in ("Leaf", "Branch")]
            if not ok_ or not built:
                facts[kind_] = False
                why[kind_] = str(txt(arm["body"]))[:80]
        for k_ in ("Full", "Empty"):
            if k_ in arms:
                body_ = str(txt(A.unblock(arms[k_]["body"])))
                if body_ != str(txt(A.strip(m["e"]))) and body_ not in ("c", "*c"):
                    facts["same"] = False
    for key, what in (("leaf", "leaf vertex indices shift by this task's vertex offset only"), ("branch", "branch indices shift by this task's cell offset only"), ("same", "full / empty cells are unchanged")):
        if facts[key]:
            rule.ok("mt merge: %s" % what, file=OCT, line=fn["ln"])
        else:
            rule.bad("merge|%s" % what[:28], "multithreaded merge: %s (found `%s`)" % (what, why.get(key, "?")), A.where(fn))
    tv = str(txt(view))
    if "root.cells.extend(o.octree.cells.into_iter().map(" in tv and "root.verts.extend(o.octree.verts)" in tv and tv.index("root.cells.extend(o.octree.cells") < tv.index("root.verts.extend(o.octree.verts)"):
        rule.ok("mt merge: every cell of the task is remapped and appended, then its vertices", file=OCT, line=fn["ln"])
    else:
        rule.bad("merge|every cell of the task is re", "multithreaded merge: every cell of the task must be remapped and appended to root.cells, then its vertices to root.verts", A.where(fn))
    roots = [a for a in A.find(view, "Assign") if str(txt(a["left"])) == "root[o.cell]"]
    def applies_shift(e):
        if any(any(n is m for n in A.walk(e)) for m, _a in ms):
            return True
        e_ = A.strip(e)
        if e_.get("k") == "Call" and A.ident(A.strip(e_["func"])) in closures:
            return any(any(n is m for n in A.walk(closures[A.ident(A.strip(e_["func"]))])) for m, _a in ms)
        return False

    if len(roots) == 1 and applies_shift(roots[0]["right"]) and "o.octree.root" in str(txt(roots[0]["right"])):
        rule.ok("mt merge: the task's root goes to the slot of the cell it was built for", file=OCT, line=fn["ln"])
    else:
        rule.bad("merge|the task's root goes to the ", "multithreaded merge: the task's (remapped) root must be stored at root[o.cell]", A.where(fn))


def r2_merge_offsets(rule, root=None):
    fn = A.find_fn(OCT, "build_inner_mt", self_ty="Octree", root=root)
    t = txt(fn["body"])
    # each fact: alternatives, each a list of fragments that must all be present (`$X` stands for any local)
    need = [
        ("cell offsets are prefix sums starting after the root's own cells", [
            ["letmutcell_offsets=vec!(root.cells.len());"],
            ["letmut$CT=root.cells.len();", "letmutcell_offsets=vec!($CT);"],
        ]),
        ("vertex offsets are prefix sums starting at 0", [
            ["letmutvert_offsets=vec!(0);"],
            ["letmut$VT=0;", "letmutvert_offsets=vec!($VT);"],
        ]),
        ("each task adds its own cell count", [
            ["letc=(cell_offsets.last().unwrap()+o.octree.cells.len());cell_offsets.push(c);"],
            ["let$C=(cell_offsets.last().unwrap()+o.octree.cells.len());cell_offsets.push($C);"],
            ["($CT+=o.octree.cells.len());cell_offsets.push($CT);", "letmutcell_offsets=vec!($CT);"],
        ]),
        ("each task adds its own vertex count", [
            ["letv=(vert_offsets.last().unwrap()+o.octree.verts.len());vert_offsets.push(v);"],
            ["let$V=(vert_offsets.last().unwrap()+o.octree.verts.len());vert_offsets.push($V);"],
            ["($VT+=o.octree.verts.len());vert_offsets.push($VT);", "letmutvert_offsets=vec!($VT);"],
        ]),
        ("offsets are tied to the arrays as they grow", [
            ["assert_eq!(cell_offsets[i],root.cells.len());assert_eq!(vert_offsets[i],root.verts.len());"],
            ["let$CO=cell_offsets[i];", "let$VO=vert_offsets[i];", "assert_eq!($CO,root.cells.len());assert_eq!($VO,root.verts.len());"],
        ]),
        ("hermite data returns to the slot of the task's cell", [["let(i,j)=o.cell.index.unwrap();hermites[i][(jasusize)]=o.hermite;"]]),
        ("merging walks back up in reverse creation order", [["for(cell,index)infixup.into_iter().rev()"]]),
    ]
    _merge_remap(rule, fn)
    for what, alts in need:
        hit = False
        for frags in alts:
            bind = {}
            ok_ = True
            for fr in frags:
                if "$" not in fr:
                    if fr not in t:
                        ok_ = False
                        break
                    continue
                m_ = t.fmatch(fr, bind=bind or None)
                if m_ is None:
                    ok_ = False
                    break
                bind = m_
            if ok_:
                hit = True
                break
        if hit:
            rule.ok("mt merge: %s" % what, file=OCT, line=fn["ln"])
        else:
            rule.bad("merge|%s" % what[:28], "multithreaded merge: %s (`%s` not found)" % (what, alts[0][0][:60]), A.where(fn))



def r4_collapse_guards(rule, root=None):
    """what keeps collapsing from producing non-manifold or NaN output: a child leaf with more than one
    dual vertex is never collapsed; an edge crossing with a NaN gradient (any lane) never enters the QEF
    and marks the leaf with the very sentinel that `merge` refuses"""
    fn = A.find_fn(OCT, "collapsible", self_ty="Octree", root=root)
    hit = None
    for m in A.find(fn["body"], "Match"):
        for arm in m["arms"]:
            segs, _ = A.pat_variant(arm["pat"])
            if segs and segs[-2:] == ["Cell", "Leaf"]:
                hit = txt(arm["body"]).fmatch("if(CELL_TO_VERT_TO_EDGES[$M.index()].len()>1){returnNone;}")
                if hit is not None:
                    names = {n["name"] for n in A.walk(arm["pat"]) if n.get("k") == "PIdent"} | {f.get("name") for n in A.walk(arm["pat"]) if n.get("k") == "PStruct" for f in n.get("fields", [])}
                    if hit["$M"] not in names:
                        hit = None
    if hit is not None:
        rule.ok("collapsible: a child leaf with more than one dual vertex is never collapsed", file=OCT, line=fn["ln"])
    else:
        rule.bad("collapse|multi-vertex child", "Octree::collapsible must return None as soon as a child leaf has more than one dual vertex (CELL_TO_VERT_TO_EDGES[mask].len() > 1): two sheets would share the parent's single vertex", A.where(fn))
    leaf = A.find_fn(OCT, "leaf", self_ty="OctreeBuilder", root=root)
    body = leaf["body"]
    marks = [a for a in A.find(body, "Assign") if str(txt(a["left"])).endswith(".qef_err") and re.fullmatch(r"[A-Z][A-Z_0-9]*", str(txt(a["right"])))]
    adds = [c for c in A.find(body, "MethodCall") if c["method"] == "add_intersection"]
    ok = False
    why = "no assignment to qef_err / no qef.add_intersection in OctreeBuilder::leaf"
    sentinel = None
    if len(marks) == 1 and len(adds) == 1:
        conds = A.enclosing_conds(body, marks[0]) or []
        sentinel = str(txt(marks[0]["right"]))
        g = A.ident(A.strip(adds[0]["args"][1])) if len(adds[0]["args"]) == 2 else None
        nan_any = [c for c in conds if re.fullmatch(r"%s\.iter\(\)\.any\(\|(\w+)\|\1\.is_nan\(\)\)" % re.escape(g or "?"), c)]
        add_conds = A.enclosing_conds(body, adds[0]) or []
        # the mark sits in a branch that leaves the loop before the QEF sees the sample
        br = [i for i in A.find(body, "If") if any(n is marks[0] for n in A.walk(i["then"]))]
        leaves = bool(br) and any(A.strip(A.stmt_expr(s_) or {}).get("k") in ("Break", "Continue", "Return") for s_ in br[-1]["then"]["stmts"])
        if not nan_any:
            why = "the sample is rejected under `%s`; it must be `%s.iter().any(|f| f.is_nan())`: one NaN lane is enough to poison the QEF" % (" && ".join(conds), g)
        elif any(c in add_conds for c in nan_any):
            why = "qef.add_intersection is still reached for a NaN gradient"
        elif not leaves or br[-1]["ln"] > adds[0]["ln"]:
            why = "the NaN branch must leave the loop before qef.add_intersection"
        else:
            ok = True
    if ok:
        rule.ok("leaf: a crossing with a NaN gradient lane never enters the QEF", file=OCT, line=leaf["ln"])
    else:
        rule.bad("collapse|nan-guard", "OctreeBuilder::leaf: %s" % why, A.where(leaf))
    merge = A.find_fn(OCT, "merge", self_ty="LeafHermiteData", root=root)
    m = txt(merge["body"]).fmatch("ifleafs.iter().any(|$V|($V.qef_err==$S)){returnNone;}".replace("$S", sentinel or "QEF_ERR_INVALID"))
    consts = {c["name"]: str(txt(c.get("e") or c.get("init") or {})) for c in A.find_items(OCT, "Const", root=root) if c.get("name", "").startswith("QEF_ERR")}
    if m is not None and sentinel and len(set(consts.values())) == len(consts) and sentinel in consts:
        rule.ok("the NaN branch marks the leaf with `%s`, the value LeafHermiteData::merge refuses to collapse" % sentinel, file=OCT, line=merge["ln"])
    else:
        rule.bad("collapse|sentinel", "the NaN-gradient branch marks the leaf with `%s`, but LeafHermiteData::merge refuses to collapse only leaves marked with the sentinel it tests (QEF_ERR_INVALID); such a leaf would be merged with half-recorded intersections" % sentinel, A.where(merge))


def r4b_error_flow(rule, root=None):
    """the collapse test compares a parent's QEF error with the errors its children recorded
    (`new_err >= hermite.qef_err * 2`); that only rejects anything if every solved vertex stores its error:
    each `let (pos, err) = <qef>.solve()` must put `err` into a `.qef_err` (a leaf), or compare it with one
    and store it (a collapse)"""
    n = 0
    for fname, ty in (("leaf", "OctreeBuilder"), ("try_collapse", "Octree")):
        try:
            fn = A.find_fn(OCT, fname, self_ty=ty, root=root)
        except A.AnchorLost:
            continue
        for l in A.find(fn["body"], "Let"):
            init = A.strip(l.get("init") or {})
            p = l["pat"]["pat"] if l["pat"].get("k") == "PType" else l["pat"]
            if not (init.get("k") == "MethodCall" and init["method"] == "solve" and not init["args"] and p.get("k") == "PTuple" and len(p["elems"]) == 2):
                continue
            n += 1
            err = A.binding_name(p["elems"][1])
            stored = [a for a in A.find(fn["body"], "Assign") if str(txt(a["left"])).endswith(".qef_err") and A.ident(A.strip(a["right"])) == err] if err else []
            if stored:
                rule.ok("%s: the solved vertex's error `%s` is recorded in qef_err" % (fname, err), file=OCT, line=l["ln"])
            else:
                rule.bad("collapse|error-flow|%s" % fname, "%s solves a QEF but does not record the error in `.qef_err` (bound as `%s`): the parent's collapse test `new_err >= qef_err * 2` then compares against the 'not populated' sentinel and can never reject a collapse, so two sheets of the surface end up sharing one vertex" % (fname, A.unparse(p["elems"][1])), A.where(fn, l))
    if n < 2:
        rule.lost("the two `let (pos, err) = ..solve()` sites (leaf, try_collapse) in octree.rs (found %d)" % n)


def r5_model_space(rule, root=None):
    """the evaluators see the cell through `world_to_model` as a projective map (Transformable divides by w);
    the finished vertices must go back through the same map, `transform_point`, which divides by w too - a
    bare matrix product keeps w and scales every vertex by it when the matrix has a perspective row"""
    writes = []
    for name in ("build", "build_inner", "build_inner_mt"):
        fn = A.find_fn(OCT, name, self_ty="Octree", root=root)
        body = A.inline_helpers(fn)
        for a in A.find(body, "Assign"):
            if str(txt(a["left"])).endswith(".pos") and "world_to_model" in str(txt(A.value_view(body))):
                writes.append((fn, body, a))
    if not writes:
        rule.lost("the loop that moves the finished vertices back to model space (`v.pos = ..world_to_model..`)")
        return
    for fn, body, a in writes:
        from .. import effects as E

        val = E.canon(a["right"], E.env_at(body, a))
        if "world_to_model.transform_point(" in val:
            rule.ok("vertices return to model space through world_to_model.transform_point (with the homogeneous divide)", file=OCT, line=a["ln"])
        elif "world_to_model" in val:
            rule.bad("model-space|divide", "Octree::%s moves a vertex with `%s`: a matrix product without the division by w, while the evaluators place the surface with the full projective map - under a perspective transform every vertex is scaled by its own w" % (fn["name"], val[:80]), A.where(fn, a))


def r6_orientation(rule, root=None):
    """triangles come out of the lattice walk wound outward *in the octree's own frame*; the vertices are then
    mapped through `world_to_model`.  A map with a negative determinant (a mirror) reverses the orientation of
    every triangle, so something must look at the sign of the determinant and swap two indices per triangle
    (or the mesh is inside-out: signed volume -0.53 for a sphere of radius 0.5 under scale(-1, 1, 1))."""
    hits = []
    for f in ("octree.rs", "builder.rs", "lib.rs", "dc.rs"):
        path = "fidget-mesh/src/%s" % f
        try:
            d = A.load(path, root)
        except Exception:  # noqa: BLE001
            continue
        for fn in d["_fns"]:
            if fn.get("_test") or fn.get("body") is None:
                continue
            for c in A.find(fn["body"], "MethodCall"):
                if c["method"] == "determinant" and "world_to_model" in str(txt(c["recv"])):
                    hits.append((path, fn, c))
    moved = []
    for name in ("build", "build_inner", "build_inner_mt"):
        fn = A.find_fn(OCT, name, self_ty="Octree", root=root)
        body = A.inline_helpers(fn)
        if any(str(txt(a["left"])).endswith(".pos") for a in A.find(body, "Assign")) and "world_to_model" in str(txt(A.value_view(body))):
            moved.append(fn)
    if not moved:
        rule.lost("the loop that moves the finished vertices back to model space")
        return
    if not hits:
        rule.bad("orientation|mirror", "Octree::%s maps the finished vertices through world_to_model, but nothing in fidget-mesh looks at the sign of its determinant: under an orientation-reversing transform (a mirror, e.g. scale(-1, 1, 1)) every triangle comes out wound inward - a sphere of radius 0.5 meshes with signed volume -0.53" % moved[0]["name"], A.where(moved[0]))
        return
    # the sign must reach the triangle order: a negative-determinant test that guards (or is stored in a flag that guards) a swap of two indices
    path, fn, c = hits[0]
    conds = [x for x in A.find(fn["body"], "Binary") if x["op"] in ("<", ">", "<=", ">=") and any(n is c for n in A.walk(x))]
    wd = A.find_fn(OCT, "walk_dual", self_ty="Octree", root=root)
    t_all = str(txt(wd["body"])) + str(txt(fn["body"]))
    swaps = re.search(r"swap_rows\(|\.swap\(|mem::swap\(|Vector3::new\((\w+)\.x,\1\.z,\1\.y\)|Vector3::new\((\w+)\.y,\2\.x,\2\.z\)|Vector3::new\((\w+)\[0\],\3\[2\],\3\[1\]\)", t_all)
    if conds and swaps:
        rule.ok("a negative determinant of world_to_model flips the winding of every triangle", file=path, line=c["ln"])
    else:
        rule.bad("orientation|unused", "the determinant of world_to_model is computed in %s but no triangle's index order depends on its sign" % fn["name"], A.where(fn, c))


def r8_edge_search(rule, root=None):
    """the N-ary search along a sign-changing cell edge: sample j of N lies at start + (end - start) * j / (N - 1)
    (so sample 0 is the inside end and sample N - 1 the outside end); the bracket is narrowed to the samples on either
    side of the first non-negative value with the *same* interpolation; the intersection is the bracket's midpoint;
    its gradient is taken with unit seeds in axis order.  Expressions are interpreted on symbols (vectors act
    component-wise, so one symbol stands for a position)."""
    import sympy as sp

    from .. import qef as QF

    fn = builder_fn("leaf", root)
    s_, e_, j_, N_, fr = sp.symbols("start end j N frac", real=True)
    want = lambda t: (s_ * (N_ - 1 - t) + e_ * t) / (N_ - 1)  # noqa: E731

    class VI(QF.TInterp):
        def ev(self, e):
            if e.get("k") == "MethodCall" and e["method"] == "map" and len(e["args"]) == 1 and A.strip(e["args"][0]).get("k") == "Closure":
                recv = self.ev(e["recv"])
                if not isinstance(recv, (list, tuple)):
                    clo = A.strip(e["args"][0])
                    sub = VI(self.env)
                    sub.bind(clo.get("inputs", clo.get("params"))[0], recv)
                    return sub.ev(clo["body"])
            return super().ev(e)

    env = {"start": s_, "end": e_, "j": j_, "EDGE_SEARCH_SIZE": N_, "frac": fr}
    # 1. the sampling position
    pos = None
    for f_ in A.find(fn["body"], "For"):
        if A.binding_name(f_["pat"]) == "j" and "EDGE_SEARCH_SIZE" in txt(f_["iter"]):
            for l_ in A.find(f_["body"], "Let"):
                if l_.get("init") is not None and "start" in txt(l_["init"]) and "end" in txt(l_["init"]):
                    pos = l_
                    break
    if pos is None:
        rule.lost("the sample position `pos` of the edge search (for j in 0..EDGE_SEARCH_SIZE)")
    else:
        try:
            got = VI(env).ev(pos["init"])
            if sp.simplify(got - want(j_)) == 0:
                rule.ok("sample j of an edge lies at start + (end - start) j / (N - 1)", file=OCT, line=pos["ln"])
            else:
                rule.bad("search|sample", "sample j of the edge search lies at `%s`; the search needs start + (end - start) j / (N - 1), with sample 0 at the inside end and sample N - 1 at the outside end" % sp.simplify(got), A.where(OCT, pos))
        except Exception as ex:  # noqa: BLE001
            rule.skip("edge search sample position", "outside the interpreted subset: %s" % ex, count=True)
    # 2. the narrowing
    clos = [l_ for l_ in A.find(fn["body"], "Let") if l_.get("init") is not None and A.strip(l_["init"]).get("k") == "Closure" and "start" in txt(l_["init"]) and "end" in txt(l_["init"]) and "EDGE_SEARCH_SIZE" in txt(l_["init"])]
    if not clos:
        rule.skip("edge search narrowing", "no interpolation closure found", count=True)
    else:
        c = A.strip(clos[0]["init"])
        fname = A.binding_name(clos[0]["pat"])
        try:
            sub = VI(env)
            p0 = c.get("inputs", c.get("params"))[0]
            t = sp.Symbol("t", real=True)
            sub.bind(p0, t)
            got = sub.ev(c["body"])
            if sp.simplify(got - want(t)) == 0:
                rule.ok("the bracket is narrowed with the sampling interpolation", file=OCT, line=clos[0]["ln"])
            else:
                rule.bad("search|narrow", "the bracket is narrowed with `%s`, the samples were taken at `%s`: the new end points are not the sampled positions" % (sp.simplify(got), want(t)), A.where(OCT, clos[0]))
        except Exception as ex:  # noqa: BLE001
            rule.skip("edge search narrowing", "outside the interpreted subset: %s" % ex, count=True)
        # a = f(frac - 1) -> start, b = f(frac) -> end
        calls = {}
        for l_ in A.find(fn["body"], "Let"):
            i_ = A.strip(l_["init"]) if l_.get("init") is not None else None
            if i_ is not None and i_.get("k") == "Call" and A.path_segs(i_["func"]) == [fname] and len(i_["args"]) == 1:
                calls[A.binding_name(l_["pat"])] = txt(i_["args"][0]).replace("(", "").replace(")", "")
        body_t = txt(fn["body"])
        lo = [n for n, a in calls.items() if a == "frac-1"]
        hi = [n for n, a in calls.items() if a == "frac"]
        if lo and hi and ("*start=%s.map(" % lo[0]) in body_t and ("*end=%s.map(" % hi[0]) in body_t:
            rule.ok("the new inside end is sample frac - 1, the new outside end sample frac", file=OCT, line=clos[0]["ln"])
        else:
            rule.bad("search|bracket", "the narrowed bracket must run from sample frac - 1 (inside) to sample frac (outside); found %s" % (calls,), A.where(OCT, clos[0]))
    # 3. frac = first non-negative sample
    fr_l = [l_ for l_ in A.find(fn["body"], "Let") if A.binding_name(l_["pat"]) == "frac" and l_.get("init") is not None]
    if not fr_l:
        rule.skip("edge search bracket index", "no `frac`", count=True)
    else:
        t = txt(fr_l[0]["init"])
        if ".find(|(_i,v)|(**v>=0.0))" in t or ".position(|v|(*v>=0.0))" in t or ".find(|(_,v)|(**v>=0.0))" in t or ".position(|&v|(v>=0.0))" in t or ".find(|(_i,v)|!(**v<0.0))" in t:
            rule.ok("frac is the first sample that is not inside (>= 0, as in the corner mask's `< 0`)", file=OCT, line=fr_l[0]["ln"])
        else:
            rule.bad("search|frac", "frac must be the index of the first sample with value >= 0 (the corner mask calls `< 0` inside); found `%s`" % t[:90], A.where(OCT, fr_l[0]))
    # 4. the intersection is the midpoint
    mid = [l_ for l_ in A.find(fn["body"], "Let") if A.binding_name(l_["pat"]) == "intersections" and l_.get("init") is not None]
    if not mid:
        rule.skip("edge intersections", "no `intersections`", count=True)
    else:
        mp = [m for m in A.find(mid[0]["init"], "MethodCall") if m["method"] == "map" and A.strip(m["args"][0]).get("k") == "Closure" and len(A.strip(m["args"][0]).get("inputs", [])) == 1]
        ok_ = False
        src_ok = "start.iter().zip(end.iter())" in txt(mid[0]["init"]) or "start.iter().zip(end)" in txt(mid[0]["init"])
        for m in mp:
            c = A.strip(m["args"][0])
            p0 = c["inputs"][0]
            try:
                sub = VI({})
                a_, b_ = sp.symbols("a b", real=True)
                sub.bind(p0, (a_, b_))
                got = sub.ev(c["body"])
                if sp.simplify(got - (a_ + b_) / 2) == 0:
                    ok_ = True
                    break
            except Exception:  # noqa: BLE001
                continue
        if ok_ and src_ok:
            rule.ok("an edge's intersection is the midpoint of its final bracket", file=OCT, line=mid[0]["ln"])
        elif not mp:
            rule.skip("edge intersections", "not a map over (start, end) pairs", count=True)
        else:
            rule.bad("search|midpoint", "an edge's intersection must be the midpoint (a + b) / 2 of its own final bracket (start zipped with end)", A.where(OCT, mid[0]))


def r8b_edge_endpoints(rule, root=None):
    """a sign-changing edge runs along one axis; its search starts at the end the table calls `start` (inside):
    along the edge's axis the start is at 0 exactly when the end corner has that axis bit set, and across it both
    ends share the start corner's other two coordinates (coordinate k from bit k).  Read with naming lets folded,
    so `let t = axis.trailing_zeros()` or `let i = (t + 1) % 3` are the expressions they name."""
    fn = builder_fn("leaf", root)
    body = fn["body"]
    # names for the edge's own axis index and for the two other coordinates read as what they name
    for _round in range(3):
        for l_ in A.find(body, "Let"):
            nm = A.binding_name(l_["pat"])
            it_ = str(txt(l_["init"])) if l_.get("init") is not None else ""
            if nm and not l_["pat"].get("mut") and nm != "axis" and re.fullmatch(r"axis\.trailing_zeros\(\)|\(\(axis\.trailing_zeros\(\)\+[12]\)%3\)", it_):
                body = A._subst(body, nm, l_["init"])
    t = txt(body)
    AX = "axis.trailing_zeros()"
    m = None
    for pat in ("let($A,$B)=if((e.end().index()&axis)!=0){(0,u16::MAX)}else{(u16::MAX,0)};",
                "let($A,$B)=if((e.end().index()&axis)==0){(u16::MAX,0)}else{(0,u16::MAX)};",
                "let($A,$B)=if((e.start().index()&axis)==0){(0,u16::MAX)}else{(u16::MAX,0)};",
                "let($A,$B)=if((e.start().index()&axis)!=0){(u16::MAX,0)}else{(0,u16::MAX)};"):
        m = t.fmatch(pat)
        if m is not None:
            break
    if m is None:
        rule.bad("endpoints|along", "along its axis a search edge must start at 0 when the end corner has the axis bit set (and at the far side otherwise)", A.where(OCT, fn))
    else:
        rule.ok("along the edge's axis the inside end is opposite the outside corner's bit", file=OCT, line=fn["ln"])
        m2 = t.fmatch("v[(%sasusize)]=$A;start[edge_count]=v;v[(%sasusize)]=$B;end[edge_count]=v;" % (AX, AX), bind=m)
        if m2 is None:
            rule.bad("endpoints|store", "the first coordinate of the pair goes to `start`, the second to `end`, both along `axis.trailing_zeros()`", A.where(OCT, fn))
        else:
            rule.ok("start takes the inside coordinate, end the outside one", file=OCT, line=fn["ln"])
    n = 0
    for off in (1, 2):
        k = "((%s+%d)%%3)" % (AX, off)
        if ("v[(%sasusize)]=if(e.start()&Axis::new((1<<%s))){u16::MAX}else{0};" % (k, k)) in t:
            n += 1
            rule.ok("coordinate (axis + %d) mod 3 comes from the same bit of the start corner" % off, file=OCT, line=fn["ln"])
        elif ("v[(%sasusize)]=" % k) in t:
            rule.bad("endpoints|across|%d" % off, "coordinate (axis + %d) mod 3 of a search edge must be u16::MAX exactly when the start corner has that same bit set" % off, A.where(OCT, fn))
    if n == 0 and "%s+1" % AX not in t:
        rule.skip("edge endpoints across the axis", "the other two coordinates are not derived as (axis + 1) % 3 / (axis + 2) % 3", count=True)


def run(ctx):
    r = ctx.rule("R1", "dual walk: every recursive face/edge call is geometrically consistent on the sub-cell lattice; frames are right-handed rotations", 39)
    ctx.guarded(r, DW.r1_dual_walk)
    r = ctx.rule("R2", "multithreaded merge: leaf indices shift by the vertex offset, branch indices by the cell offset, offsets are prefix sums", 12)
    ctx.guarded(r, r2_merge_offsets)
    r = ctx.rule("R3", "cells are full/empty only under strict interval guards; leaf corners sampled by identity; mask bit i = corner i inside", 11)
    ctx.guarded(r, r3_cells)
    r = ctx.rule("R4", "collapse guards: multi-vertex children, NaN gradients kept out of the QEF, sentinel agreement with merge", 3)
    ctx.guarded(r, r4_collapse_guards)
    r = ctx.rule("R4b", "every solved QEF vertex records its error, which is what the collapse test compares", 2)
    ctx.guarded(r, r4b_error_flow)
    r = ctx.rule("R5", "finished vertices go back to model space through the same projective map the evaluators used", 1)
    ctx.guarded(r, r5_model_space)
    from .. import round8 as R8_

    r = ctx.rule("R5b", "the evaluators get no transform exactly when world_to_model is the identity", 1)
    ctx.guarded(r, R8_.r_transform_option)
    r = ctx.rule("R6", "an orientation-reversing world_to_model flips the winding (sign of the determinant reaches the triangle order)", 1)
    ctx.guarded(r, r6_orientation)
    from .. import qef as QF

    r = ctx.rule("R7", "QEF algebra: add_intersection accumulates n n^T, n (n . p), (n . p)^2 and (p, 1) for the unit normal; merged solvers add; solve minimises about the mass point (right-hand side A^T b - A^T A c, position = solution + c) and reports E(x) at the position it returns", 12)
    ctx.guarded(r, QF.r_qef_algebra)
    r = ctx.rule("R8", "edge search: samples interpolate inside end -> outside end, the bracket narrows to the samples around the first non-negative value with the same interpolation, the intersection is the bracket's midpoint; edge end points from the corner bits", 8)
    ctx.guarded(r, r8_edge_search)
    ctx.guarded(r, r8b_edge_endpoints)
    from .. import meshcell as MC

    r = ctx.rule("R9", "index vocabulary folded over its finite domains: axis bits, Axis::next and the frames are the right-handed rotation, the Corner / Axis / CellMask operators are the bit operations, to_undirected() is the documented packing and Edge::corners() its inverse", 55)
    ctx.guarded(r, MC.r9_vocabulary)
    r = ctx.rule("R10", "generated connectivity table: build.rs files every inside -> outside cell edge once, under the slot to_undirected() reads, with vertex / crossing offsets in the order OctreeBuilder::leaf, the collapse and the dual walk lay out and read a leaf's vertices", 18)
    ctx.guarded(r, MC.r10_table)
    r = ctx.rule("R11", "cell geometry: child bounds halve the parent on the corner's side of each axis, corner positions, Cell::corner signs, CellIndex::child, relative positions, containment", 10)
    ctx.guarded(r, MC.r11_cell_geometry)
    r = ctx.rule("R12", "collapse safety test: for all 12 coarse edges, 6 faces and the cube, the sign consulted is the one at that element's midpoint (child and corner folded over the three frames) and a disagreement with every corner blocks the collapse", 22)
    ctx.guarded(r, MC.r12_collapsible)
    # this property quantifies over every shape and both backends, so it needs the evaluators it consults to be right
    ctx.include('C03', 'cells are declared full / empty on interval evidence', skip=('R6',))
    ctx.include('C04', 'cells are meshed with simplified tapes', skip=())
    ctx.include('C20', "the trace a cell hands down must be the evaluation's own record", skip=())
    ctx.include('C01', 'corners and edge searches are evaluated by the tape evaluators', skip=())
    ctx.include('C02', 'corners and edge searches are evaluated by the native evaluators', skip=())
    ctx.include('C05', 'vertex placement uses the gradient evaluators', skip=())
    ctx.include('C14', 'cell corners, edge searches and gradients are sampled through world_to_model', only=('R4',))
