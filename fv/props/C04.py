"""C04 - simplification preserves values (structural part)."""
from .. import ast as A
from .. import simplify as S
from .. import terms as T
from .. import vmloops as V
from .. import asmchecks as AC
from .. import renderhandle as RH


def r2c_tracing_operand_order(rule, root=None):
    """in the interpreter tracing loops the choice is taken from
    `<first operand>.<op>_choice(<second operand>)`, so that Left/Right mean what simplify assumes"""
    from .C20 import _Null

    for label in ("interval", "point"):
        info = []
        V.check_loop(_Null(), label, root, want_choice_info=info)
        for variant, subs, arm, inf, fn in info:
            base, form = T.split_variant(variant)
            if base not in T.CHOICE_BASES or form not in ("RegReg", "RegImm", "ImmReg"):
                continue
            val = inf.get("value")
            exp = V.expected_value(variant) or []
            if val is None or val not in exp:
                rule.bad("%s|%s" % (label, variant), "%s arm %s takes its value/choice from `%s`; Left must denote the first operand, i.e. `%s`" % (label, variant, T.show(val) if val else "?", T.show(exp[0]) if exp else "?"), A.where(fn, arm))
            else:
                rule.ok("%s:%s = %s" % (label, variant, T.show(val)), file=V.VM, line=arm["ln"])


def run(ctx):
    r = ctx.rule("R1", "simplify consumes exactly one choice per choice op on every path", 52 + 1)
    ctx.guarded(r, lambda rule: S.r1_choice_consumption(rule))
    r = ctx.rule("R2", "Left keeps the first operand, Right the second, Both keeps the op", 8)
    ctx.guarded(r, S.r2_left_right)
    r = ctx.rule("R2c", "tracing loops take each choice from first.op_choice(second) (Left = first operand)", 16)
    ctx.guarded(r, r2c_tracing_operand_order)
    r = ctx.rule("R2b", "every surviving op renames its output and all register operands", 44)
    ctx.guarded(r, S.r_renaming)
    r = ctx.rule("R3", "order parity: evaluators walk the reversed tape, simplify the choices backwards", 4)
    ctx.guarded(r, S.r3_order_parity)
    r = ctx.rule("R5", "loop tail, op accounting and the result struct (shared vars, recounted choices)", 6)
    ctx.guarded(r, S.r_tail)
    r = ctx.rule("R7", "native tracing assemblers follow the choice protocol simplify relies on", 2 * 26)
    for kind in AC.TRACING:
        ctx.guarded(r, AC.check_choice_protocol, kind)
    r = ctx.rule("R4", "a cached simplification is reused only for the same trace; new children are keyed by a copy of their trace", 11)
    ctx.guarded(r, RH.r_cache_key)
