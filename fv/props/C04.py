"""C04 - simplification preserves values (structural part)."""
import re
from .. import ast as A
from .. import simplify as S
from .. import terms as T
from .. import vmloops as V
from .. import asmchecks as AC
from .. import renderhandle as RH


def r2c_tracing_operand_order(rule, root=None):
    """in the interpreter tracing loops the choice is taken from
    `<first operand>.<op>_choice(<second operand>)`, so that Left/Right mean what simplify assumes"""
    from .C20 import _Null

    for label in ("interval", "point"):
        info = []
        V.check_loop(_Null(), label, root, want_choice_info=info)
        for variant, subs, arm, inf, fn in info:
            base, form = T.split_variant(variant)
            if base not in T.CHOICE_BASES or form not in ("RegReg", "RegImm", "ImmReg"):
                continue
            val = inf.get("value")
            exp = V.expected_value(variant) or []
            if val is None or val not in exp:
                rule.bad("%s|%s" % (label, variant), "%s arm %s takes its value/choice from `%s`; Left must denote the first operand, i.e. `%s`" % (label, variant, T.show(val) if val else "?", T.show(exp[0]) if exp else "?"), A.where(fn, arm))
            else:
                rule.ok("%s:%s = %s" % (label, variant, T.show(val)), file=V.VM, line=arm["ln"])



IVAL = "fidget-core/src/types/interval.rs"


def r6_interval_choice(rule, root=None):
    """Interval::min_choice / max_choice decide Left / Right only when the operands are *strictly*
    separated (touching intervals tie, and on a tie the point evaluators return the other operand:
    +0.0 vs -0.0).  Read as a set of (smaller, larger) strict orderings, however each is spelled."""
    want = {
        "min_choice": {"Left": ("self.upper", "rhs.lower"), "Right": ("rhs.upper", "self.lower")},
        "max_choice": {"Left": ("rhs.upper", "self.lower"), "Right": ("self.upper", "rhs.lower")},
    }
    for name, w in want.items():
        fn = A.find_fn(IVAL, name, self_ty="Interval", root=root)
        got = {}
        for n in A.walk(fn["body"]):
            segs = A.path_segs(n) if n.get("k") == "Path" else None
            if segs and segs[0] == "Choice" and segs[-1] in ("Left", "Right"):
                conds = A.enclosing_conds(fn["body"], n) or []
                got.setdefault(segs[-1], []).append(conds)
        for side in ("Left", "Right"):
            cl = got.get(side, [])
            if len(cl) != 1 or not cl[0]:
                rule.bad("%s|%s|shape" % (name, side), "Interval::%s: Choice::%s must be decided under one comparison of the operands' bounds (found %s)" % (name, side, cl), A.where(fn))
                continue
            c = cl[0][-1]  # the innermost condition decides this side; outer ones are negated earlier tests
            m = re.fullmatch(r"\(?([a-z_.]+)(<|>|<=|>=)([a-z_.]+)\)?", c)
            if not m:
                rule.bad("%s|%s|cond" % (name, side), "Interval::%s decides Choice::%s under `%s`, not a comparison of bounds" % (name, side, c), A.where(fn))
                continue
            l, op, r = m.groups()
            order = (l, r) if op in ("<", "<=") else (r, l)
            if op in ("<=", ">="):
                rule.bad("%s|%s|strict" % (name, side), "Interval::%s decides Choice::%s under `%s`: touching intervals must stay Choice::Both (on a tie the point evaluators return the other operand, e.g. +0.0 vs -0.0)" % (name, side, c), A.where(fn))
            elif order != w[side]:
                rule.bad("%s|%s|bounds" % (name, side), "Interval::%s decides Choice::%s when %s < %s; it is only right when %s < %s" % (name, side, order[0], order[1], w[side][0], w[side][1]), A.where(fn))
            else:
                rule.ok("Interval::%s: %s iff %s < %s (strict)" % (name, side, order[0], order[1]), file=IVAL, line=fn["ln"])



FLOAT_RS = "fidget-core/src/types/float.rs"


def r_scalar_choices(rule, root=None):
    """f32 min / max / and / or choice functions: the value reported together with Left is the left operand itself
    (`self`, bit for bit - and(-0.0, y) is -0.0), with Right the right operand: simplification replaces the clause
    by exactly that operand"""
    n = 0
    for name in ("min_choice", "max_choice", "and_choice", "or_choice"):
        cands = [f for f in A.fns(FLOAT_RS, root) if f["name"] == name and (f.get("_owner") or {}).get("self_ty") == "f32" and dict.get(f, "body")]
        if len(cands) != 1:
            rule.lost("fn %s of `impl FloatExt for f32`" % name)
            continue
        fn = cands[0]
        ps = [A.binding_name(p["pat"]) for p in fn["sig"]["inputs"] if "pat" in p]
        other = ps[0] if ps else "other"
        seen = set()
        for leaf, cs in A.result_cases(A.inline_lets_deep(fn["body"])):
            l = A.strip(leaf)
            if l.get("k") != "Tuple" or len(l["elems"]) != 2:
                continue
            val, ch = str(A.ftxt(l["elems"][0])), str(A.ftxt(l["elems"][1]))
            want = {"Choice::Left": "self", "Choice::Right": other}.get(ch)
            if want is None:
                continue
            seen.add(ch)
            if val == want:
                n += 1
                rule.ok("f32::%s: %s comes with `%s`" % (name, ch, want), file=FLOAT_RS, line=fn["ln"])
            else:
                rule.bad("f32|%s|%s" % (name, ch.split("::")[-1]), "f32::%s reports %s together with the value `%s`; the simplified tape computes `%s` there, which differs in the bits of a zero (and(-0.0, y) must stay -0.0)" % (name, ch, val, want), A.where(fn))
        if seen != {"Choice::Left", "Choice::Right"}:
            rule.bad("f32|%s|cases" % name, "f32::%s must have a Left and a Right result (found %s)" % (name, sorted(seen)), A.where(fn))

def run(ctx):
    r = ctx.rule("R1", "simplify consumes exactly one choice per choice op on every path", 52 + 1)
    ctx.guarded(r, lambda rule: S.r1_choice_consumption(rule))
    r = ctx.rule("R2", "Left keeps the first operand, Right the second, Both keeps the op", 8)
    ctx.guarded(r, S.r2_left_right)
    r = ctx.rule("R2c", "tracing loops take each choice from first.op_choice(second) (Left = first operand)", 16)
    ctx.guarded(r, r2c_tracing_operand_order)
    r = ctx.rule("R2b", "every surviving op renames its output and all register operands", 44)
    ctx.guarded(r, S.r_renaming)
    r = ctx.rule("R3", "order parity: evaluators walk the reversed tape, simplify the choices backwards", 4)
    ctx.guarded(r, S.r3_order_parity)
    r = ctx.rule("R5", "loop tail, op accounting and the result struct (shared vars, recounted choices)", 6)
    ctx.guarded(r, S.r_tail)
    r = ctx.rule("R7", "native tracing assemblers follow the choice protocol simplify relies on", 2 * 26)
    for kind in AC.TRACING:
        ctx.guarded(r, AC.check_choice_protocol, kind)
    r = ctx.rule("R6", "interval min/max choices are Left / Right only for strictly separated operands", 4)
    ctx.guarded(r, r6_interval_choice)
    from .. import x86pw as PW86

    r = ctx.rule("R0", "the choice byte's encoding: Unknown = 0, Both = Left | Right, Left = 1 / Right = 2 as the computed bytes assume, CHOICE_* are the enum's values", 5)
    ctx.guarded(r, PW86.r_choice_encoding)
    r = ctx.rule("R7v", "x86_64 tracing min / max / and / or record Left / Right exactly on the order types where the interpreter does (a choice decided too eagerly simplifies away an operand that still matters)", 8)
    for kind in AC.TRACING:
        ctx.guarded(r, PW86.check_piecewise, kind, only=PW86.CHOICE_OPS)
    r = ctx.rule("R4", "a cached simplification is reused only for the same trace; new children are keyed by a copy of their trace", 11)
    ctx.guarded(r, RH.r_cache_key)
    # CopyReg / CopyImm exist only on simplified tapes (a decided choice that keeps a shared operand alive),
    # so nothing but a simplified tape ever runs these arms and builders
    r = ctx.rule("R8", "the copy ops that only simplification produces are implemented by every evaluator (value copied whole, in the right direction)", 12)
    for label in ("point", "interval", "float_slice", "grad_slice"):
        ctx.guarded(r, lambda rule, label=label: V.check_loop(rule, label, only=("CopyReg", "CopyImm")))
    for kind in AC.ALL:
        ctx.guarded(r, AC.check_simple_builders, kind, only=("build_copy",))
    # a trace entry says Left / Right about the op's operands *as the register tape orders them* and sits in
    # the slot the choice pointer named when the op ran: simplification reads both in SSA order, so the
    # allocator must keep operand order and native helpers must hand the choice pointer back unchanged
    from .. import allocproto as AP_
    from .. import asmcopy as AK_

    r = ctx.rule("R9", "register allocation keeps each op's operand order (Left / Right mean the same before and after)", 21)
    ctx.guarded(r, AP_.r4_protocol)
    r = ctx.rule("R7b", "native call helpers of the tracing assemblers save and restore the choice pointer around every call", 4)
    for kind in AC.TRACING:
        for n in ("call_fn_unary", "call_fn_binary"):
            ctx.guarded(r, AK_.check_call_helper, kind, n)
    from .. import a64checks as XC

    r = ctx.rule("R7c", "aarch64 tracing assemblers follow the choice protocol simplify relies on (byte loaded, one choice ORed, flag iff decided, stored back with x1 += 1, value = chosen operand)", 26 + 28 + 8)
    for kind in XC.TRACING:
        ctx.guarded(r, XC.check_choice_protocol, kind)
    ctx.guarded(r, XC.check_strictness)
    from . import C05 as C05_

    r = ctx.rule("R10", "a decided choice op is its selected operand for every value type: Grad min / max / and / or return that operand whole (value and derivatives), so a simplified tape has the original's gradient", 14)
    ctx.guarded(r, C05_.r3_piecewise)
    r = ctx.rule("R10f", "the f32 choice functions return the selected operand itself with Left / Right (bit for bit, the sign of a zero included)", 8)
    ctx.guarded(r, r_scalar_choices)
    from .. import round8 as R8_

    r = ctx.rule("R10n", "f32 min / max of an undecided pair is NaN when either operand is NaN", 2)
    ctx.guarded(r, R8_.r_scalar_nan_both)
    # a decided `and` / `or` is replaced by one operand because the traced evaluator saw the other one's zero test come
    # out one way; every evaluator that later runs the parent or the child must apply the *same* zero test
    # (float ==: -0.0 is zero, NaN is not), or parent and child part ways exactly at such an operand
    from .. import x86sem as XS86_
    from .. import a64sem as XS64_

    r = ctx.rule("R11", "every native evaluator tests the operand of and / or / not with the interpreter's zero test: float compares only (no integer compare on tape data), masks and selects give the opcode's value lane by lane", 23 + 8 + 39 + 12)
    for kind in AC.ALL:
        ctx.guarded(r, AC.check_int_compare, kind)
        ctx.guarded(r, XS86_.check_mask_logic, kind)
    for kind in XC.KINDS if hasattr(XC, "KINDS") else ("point", "interval", "float_slice", "grad_slice"):
        ctx.guarded(r, XC.check_int_compare, kind)
        ctx.guarded(r, XS64_.check_mask_logic, kind)
    ctx.include('C02', 'every choice op of the tape must reach the clause that records its choice', only=('R1',))
