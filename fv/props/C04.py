"""C04 - simplification preserves values (structural part)."""
from .. import ast as A
from .. import simplify as S


def run(ctx):
    r = ctx.rule("R1", "simplify consumes exactly one choice per choice op on every path", 52 + 1)
    ctx.guarded(r, lambda rule: S.r1_choice_consumption(rule))
    r = ctx.rule("R2", "Left keeps the first operand, Right the second, Both keeps the op", 8)
    ctx.guarded(r, S.r2_left_right)
    r = ctx.rule("R2b", "every surviving op renames its output and all register operands", 44)
    ctx.guarded(r, S.r_renaming)
    r = ctx.rule("R3", "order parity: evaluators walk the reversed tape, simplify the choices backwards", 4)
    ctx.guarded(r, S.r3_order_parity)
    r = ctx.rule("R5", "loop tail, op accounting and the result struct (shared vars, recounted choices)", 6)
    ctx.guarded(r, S.r_tail)
