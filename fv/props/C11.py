"""C11 - evaluation is total on finite inputs (structural part)."""
import re
from .. import ast as A
from .. import nanflow as N
from .. import shapecore as SC
from . import C10
from .C03 import r2_nanflow

VM = "fidget-core/src/vm/mod.rs"
JIT = "fidget-jit/src/lib.rs"
IV = N.IV

EVALS = [
    (VM, "VmIntervalEval", "TracingEvaluator", "check_tracing_arguments"),
    (VM, "VmPointEval", "TracingEvaluator", "check_tracing_arguments"),
    (VM, "VmFloatSliceEval", "BulkEvaluator", "check_bulk_arguments"),
    (VM, "VmGradSliceEval", "BulkEvaluator", "check_bulk_arguments"),
    (JIT, "JitIntervalEval", "TracingEvaluator", "check_tracing_arguments"),
    (JIT, "JitPointEval", "TracingEvaluator", "check_tracing_arguments"),
    (JIT, "JitFloatSliceEval", "BulkEvaluator", "check_bulk_arguments"),
    (JIT, "JitGradSliceEval", "BulkEvaluator", "check_bulk_arguments"),
]


def r1_checks_dominate(rule, root=None):
    for path, ty, tr, chk in EVALS:
        fn = A.find_fn(path, "eval", self_ty=ty, trait=tr, root=root)
        first = fn["body"]["stmts"][0]
        t = A.ftxt(first)
        if t == "tape.vars().%s(vars)?;" % chk:
            rule.ok("%s::eval checks its arguments first and propagates the error" % ty, file=path, line=first["ln"])
        else:
            rule.bad("%s|first" % ty, "%s::eval must begin with `tape.vars().%s(vars)?;` so that a short or ragged argument list is an error value, not an out-of-bounds access; found `%s`" % (ty, chk, t[:60]), A.where(fn, first))
        # nothing reads `vars` in a way that could index before the check: the check is statement 0
    SC.r_arg_checks(rule, root)


# panic-capable sites allowed in the per-op data cone: (file suffix, function label) -> {kind: count}
PANIC_INVENTORY = {
    ("types/interval.rs", "Interval::new"): ({"assert": 1}, "the constructor's well-formedness assertion; R2 shows no analysed caller can trip it on NaN asymmetry"),
    ("types/interval.rs", "Interval::quadrant"): ({"unreachable": 1}, "default arm of a match on floor(..).rem_euclid(4.0) as u8, which is 0..=3 (checked by R2b)"),
    ("types/grad.rs", "Grad::d"): ({"panic": 1}, "index outside 0..=2 is a caller bug; the only non-test caller passes gi % 3"),
}
PANIC_MACROS = {"panic", "unreachable", "assert", "assert_eq", "assert_ne", "unimplemented", "todo"}
CONE = ["fidget-core/src/types/interval.rs", "fidget-core/src/types/grad.rs", "fidget-core/src/types/float.rs"]


def r3_panic_inventory(rule, root=None):
    seen = set()
    for path in CONE:
        d = A.load(path, root)
        for f in d["_fns"]:
            if f["_test"] or f.get("body") is None:
                continue
            if any("eval-tests" in a for a in (f.get("attrs") or [])):
                continue  # test-support helpers compiled only for tests
            kinds = {}
            for m in A.find(f["body"], "Macro"):
                if m["name"] in PANIC_MACROS:
                    kinds[m["name"]] = kinds.get(m["name"], 0) + 1
            for c in A.find(f["body"], "MethodCall"):
                if c["method"] in ("unwrap", "expect") and "partial_cmp" not in A.unparse(c["recv"]):
                    kinds[c["method"]] = kinds.get(c["method"], 0) + 1
            lab = A.fn_label(f)
            key = (path.split("src/")[-1], lab)
            allowed = PANIC_INVENTORY.get(key, ({}, ""))[0]
            for k, n in kinds.items():
                if n > allowed.get(k, 0):
                    rule.bad("%s|%s|%s" % (key[0], lab, k), "%s has %d `%s` site(s) in the per-op data path (%d justified): a finite input reaching it crashes the evaluator instead of yielding NaN" % (lab, n, k, allowed.get(k, 0)), A.where(path, f))
                else:
                    rule.ok("%s: %d `%s` site(s), justified: %s" % (lab, n, k, PANIC_INVENTORY[key][1]), file=path, line=f["ln"])
            if key in PANIC_INVENTORY:
                seen.add(key)
    for key in PANIC_INVENTORY:
        if key not in seen:
            rule.skip("%s %s" % key, "listed site no longer exists")
    # extern "sysv64" callbacks must not contain panicking macros (a panic cannot unwind into JIT code)
    from .. import jit as J

    n = 0
    for path in J.X86:
        d = A.load(path, root)
        for f in d["_fns"]:
            if f["sig"].get("abi") == "sysv64" and f.get("body") is not None:
                n += 1
                bad = [m["name"] for m in A.find(f["body"], "Macro") if m["name"] in PANIC_MACROS] + [c["method"] for c in A.find(f["body"], "MethodCall") if c["method"] in ("unwrap", "expect")]
                if bad:
                    rule.bad("%s|%s|callback" % (path.split("/")[-1], f["name"]), "extern callback %s contains %s: a panic here aborts the process from inside generated code" % (f["name"], bad), A.where(path, f))
    if n >= 40:
        rule.ok("%d extern callbacks contain no panicking construct of their own" % n)
    else:
        rule.bad("callbacks|count", "expected 40 extern callbacks, found %d" % n, "")


def r2b_unreachable_ranges(rule, root=None):
    """a `match (..) as uN { 0 => .., 1 => .., _ => unreachable!() }` is justified only when the scrutinee is
    `<integer-valued>.rem_euclid(N)` with exactly the values 0..N-1 matched"""
    n = 0
    for path in CONE:
        d = A.load(path, root)
        for f in d["_fns"]:
            if f["_test"] or f.get("body") is None:
                continue
            for m in A.find(f["body"], "Match"):
                dflt = [a for a in m["arms"] if a["pat"].get("k") == "PWild" and A.strip(a["body"]).get("k") == "Macro" and A.strip(a["body"])["name"] == "unreachable"]
                if not dflt:
                    continue
                n += 1
                lits = sorted(int(A.lit_value(a["pat"]["lit"])) for a in m["arms"] if a["pat"].get("k") == "PLit")
                scr = m["e"]
                while scr.get("k") == "Paren":
                    scr = scr["e"]
                ok = False
                why = "scrutinee is not `(..) as <int>`"
                s0 = A.strip(scr)
                if s0.get("k") == "MethodCall" and s0["method"] in ("rem_euclid", "rem") and any(c_.get("k") == "Cast" for c_ in A.walk(s0["recv"])):
                    why = "the value is narrowed with `as` *before* the range reduction: a float-to-integer cast saturates, so every angle beyond the integer type's range lands in one class (reduce in f32 first: `.floor().rem_euclid(N) as uN`)"
                if scr.get("k") == "Cast":
                    inner = A.strip(scr["e"])
                    if inner.get("k") == "MethodCall" and inner["method"] == "rem_euclid" and len(inner["args"]) == 1:
                        k = A.lit_value(inner["args"][0])
                        base = A.strip(inner["recv"])
                        integral = base.get("k") == "MethodCall" and base["method"] in ("floor", "ceil", "round", "trunc") and not base["args"]
                        if not integral:
                            why = "`%s` is not integer-valued before rem_euclid: a non-integer remainder can round up to %s itself, which no arm matches" % (A.unparse(base)[:40], k)
                        elif k is None or lits != list(range(int(k))):
                            why = "arms match %s but rem_euclid(%s) yields 0..%s" % (lits, k, k)
                        else:
                            ok = True
                    else:
                        why = "scrutinee is not a rem_euclid of an integer-valued expression"
                if ok:
                    rule.ok("%s: unreachable default justified (floor -> rem_euclid(%d) -> arms %s)" % (A.fn_label(f), len(lits), lits), file=path, line=m["ln"])
                else:
                    rule.bad("%s|unreachable" % A.fn_label(f), "%s: the `unreachable!()` default is reachable: %s" % (A.fn_label(f), why), A.where(path, m))
    if n == 0:
        rule.lost("the quadrant match with an unreachable default")


from .. import factrules as FR



def r2c_nan_skipping_folds(rule, root=None):
    """`f32::min` / `f32::max` skip NaN operands.  A bound of an Interval::new that is accumulated with
    them from a *constant* seed (+/-INFINITY, MAX, MIN) stays at the seed when every datum is NaN, and
    Interval::new(+inf, -inf) fails its assertion (a panic where the NaN interval is owed).  Bounds must be
    seeded from the data itself."""
    IV = "fidget-core/src/types/interval.rs"
    SEEDS = ("f32::INFINITY", "f32::NEG_INFINITY", "f32::MAX", "f32::MIN", "-f32::INFINITY", "-f32::MAX", "std::f32::INFINITY", "std::f32::NEG_INFINITY")
    n = 0
    for fn in A.fns(IV, root):
        if fn.get("body") is None:
            continue
        news = [c for c in A.find(fn["body"], "Call") if (A.path_segs(c["func"]) or [])[-2:] == ["Interval", "new"] and len(c["args"]) == 2]
        for c in news:
            n += 1
            bad = None
            for a in c["args"]:
                nm = A.ident(A.strip(a))
                defs = [a] if nm is None else [l_["init"] for l_ in A.find(fn["body"], "Let") if A.binding_name(l_["pat"]) == nm and l_.get("init") is not None]
                for d_ in defs:
                    dt = A.unparse(d_).replace(" ", "")
                    for m_ in A.find(d_, "MethodCall"):
                        if m_["method"] in ("fold", "reduce") and m_["args"] and A.unparse(m_["args"][0]).replace(" ", "") in SEEDS and ("min" in A.unparse(m_["args"][-1]) or "max" in A.unparse(m_["args"][-1])):
                            bad = "`%s` folds min/max from the constant %s" % (nm or dt[:30], A.unparse(m_["args"][0]))
                    if nm and dt in SEEDS:
                        upd = [x for x in A.find(fn["body"], "Assign") if A.ident(A.strip(x["left"])) == nm and (".min(" in A.unparse(x["right"]) or ".max(" in A.unparse(x["right"]))]
                        # data that cannot be NaN: produced only by NaN-free functions of operands the function
                        # has already screened with has_nan()
                        def nan_free(x):
                            r_ = A.strip(x["right"])
                            arg = A.strip(r_["args"][0]) if r_.get("k") == "MethodCall" and r_["args"] else None
                            if arg is None:
                                return False
                            src = A.resolve_locals(fn["body"], arg)
                            screened = "has_nan()" in A.unparse(fn["body"])
                            only = re.fullmatch(r"[\w.]+\.(atan2|atan|abs|signum)\([\w.,]*\)", src) is not None
                            return screened and only
                        if upd and not all(nan_free(x) for x in upd):
                            bad = "`%s` starts at the constant %s and is updated with min/max" % (nm, dt)
            if bad:
                rule.bad("nanfold|%s" % A.fn_label(fn), "%s: %s; when every datum is NaN the bound stays at its seed and Interval::new panics on (+inf, -inf) - seed the accumulation from the data" % (A.fn_label(fn), bad), A.where(fn, c))
            else:
                rule.ok("%s: Interval::new bounds are not min/max-accumulated from a constant seed" % A.fn_label(fn), file=IV, line=c["ln"])
    if n < 20:
        rule.lost("Interval::new sites in interval.rs (found %d)" % n)


def r_interval_wellformed(rule, root=None):
    """`Interval::new` is the one place that builds an interval from two bounds (it asserts lower <= upper or both NaN,
    and every call site is decided by R2); a struct literal elsewhere skips both.  And `has_nan` - what every operation
    uses to decide "this operand is the NaN interval" - looks at both bounds: the ways a half-NaN interval can arise
    (native code, sums of infinities) are exactly the cases it has to catch."""
    d = A.load(IV, root)
    n = 0
    for f in d["_fns"]:
        if f["_test"] or f.get("body") is None:
            continue
        ow = f.get("_owner") or {}
        if ow.get("self_ty") != "Interval":
            continue
        for st in A.find(f["body"], "Struct"):
            nm = (A.path_segs(st.get("path")) or [None])[-1]
            if nm not in ("Interval", "Self"):
                continue
            n += 1
            lab = A.fn_label(f)
            if f["name"] == "new" and not ow.get("trait"):
                rule.ok("Interval::new builds the struct (behind its assertion)", file=IV, line=st["ln"])
            else:
                rule.bad("literal|%s" % lab, "%s builds `%s` directly: the bounds skip Interval::new's well-formedness assertion and the NaN-asymmetry analysis of its call sites" % (lab, A.unparse(st)[:60]), A.where(IV, st))
    if n == 0:
        rule.lost("the struct literal inside Interval::new")
    hn = A.find_fn(IV, "has_nan", self_ty="Interval", root=root)
    t = str(A.ftxt(hn["body"])).strip("{}")
    if t in ("(self.lower.is_nan()||self.upper.is_nan())", "(self.upper.is_nan()||self.lower.is_nan())", "self.lower.is_nan()||self.upper.is_nan()", "!(self.lower==self.lower&&self.upper==self.upper)"):
        rule.ok("Interval::has_nan looks at both bounds", file=IV, line=hn["ln"])
    else:
        rule.bad("has_nan", "Interval::has_nan is `%s`; it must hold when *either* bound is NaN (a half-NaN interval is what it exists to catch)" % t[:70], A.where(IV, hn))


def run(ctx):
    r = ctx.rule("R1", "all eight evaluators check their arguments first and return the error; the checks cover every supplied slice", 12)
    ctx.guarded(r, r1_checks_dominate)
    r = ctx.rule("R2", "no Interval::new site can receive one NaN and one non-NaN bound (float-class abstract interpretation)", 50)
    ctx.guarded(r, r2_nanflow)
    r = ctx.rule("R2c", "no Interval::new bound is a min/max accumulation from a constant seed (min/max skip NaN)", 40)
    ctx.guarded(r, r2c_nan_skipping_folds)
    r = ctx.rule("R2b", "unreachable!() defaults are justified by the range of their scrutinee", 1)
    ctx.guarded(r, r2b_unreachable_ranges)
    r = ctx.rule("R3", "panic-capable sites in the per-op data path are exactly the justified inventory; callbacks cannot panic", 4)
    ctx.guarded(r, r3_panic_inventory)
    r = ctx.rule("R4", "buffers handed to native code / indexed by the loops are sized to the tape first; shape scratch is resized per call", 22)
    ctx.guarded(r, C10.r1_buffers)
    ctx.guarded(r, SC.r_shape_scratch)
    ctx.guarded(r, C10.r4_pointer_lists)
    from .. import jitdriver as JD_

    r = ctx.rule("R4b", "native code addresses its input / output tables with the strides of their element types", 10)
    ctx.guarded(r, JD_.r_strides)
    # "the NaN interval ..., which downstream consumers treat as undecided": every consumer decides a
    # region only under a strict comparison that a NaN bound fails (the rules are C06's, C07's and C08's)
    from .. import raster as RA_
    from . import C08 as C08_

    r = ctx.rule("R5", "consumers of box results decide a tile / cell only under strict comparisons, so a NaN interval stays undecided", 17)
    ctx.guarded(r, RA_.r_fill_sign_pixel)
    ctx.guarded(r, RA_.r_fill_sign_voxel)
    ctx.guarded(r, C08_.r3_cells)
    # native code returns normally only if the pointers it writes through survive its own helper calls
    from .. import asmcopy as AK_
    from .. import asmchecks as AC_

    r = ctx.rule("R6", "native call helpers restore every pointer the generated code later reads or writes through", 8)
    for kind in AC_.ALL:
        for n_ in ("call_fn_unary", "call_fn_binary"):
            ctx.guarded(r, AK_.check_call_helper, kind, n_)
    # building or simplifying a tape must not panic either: an uncommitted local label collides with the next
    # builder's ("invalid forward relocation"), and a choice slot that some path leaves untouched is
    # `Choice::Unknown`, which simplify() answers with a panic
    r = ctx.rule("R7", "native builders commit their local labels; every path of a tracing choice clause records a choice", 21 + 52)
    for kind in AC_.ALL:
        ctx.guarded(r, AC_.check_labels, kind)
    for kind in AC_.TRACING:
        ctx.guarded(r, AC_.check_choice_protocol, kind)
    r = ctx.rule("R3f", "[resolved program] panic-capable MIR sites of the per-op data types are within the justified inventory", 60)
    ctx.guarded(r, FR.data_cone_panics, ctx)
    from .. import a64 as X64
    from .. import a64checks as XC

    r = ctx.rule("R6b", "aarch64: call helpers restore x0-x3 and every tape register; branches stay inside their clause; callee-saved registers are back at `ret`", 8 + 21 + 4)
    for kind in X64.KINDS:
        ctx.guarded(r, XC.check_call_helpers, kind)
        ctx.guarded(r, XC.check_branches, kind)
        ctx.guarded(r, XC.check_frame, kind)
    r = ctx.rule("R6c", "aarch64: the fixed save slots end below the first spill slot and do not overlap", 4)
    for kind in X64.KINDS:
        ctx.guarded(r, XC.check_fixed_area, kind)
    # a simplified tape is evaluated like any other: its advertised choice count sizes the choice array the
    # tracing loops and the native code walk, so a surviving choice op that is not counted makes the next
    # evaluation run off the end of that array (`choices.next().unwrap()` / a stray byte store)
    from .. import simplify as S_

    r = ctx.rule("R8", "simplification recounts its choices: every choice op that survives (Both) adds one to the new tape's choice count, decided ones add none; op accounting and the result struct", 8 + 6)
    ctx.guarded(r, S_.r2_left_right)
    ctx.guarded(r, S_.r_tail)
    r = ctx.rule("R4c", "native loads and stores of inputs, outputs and spill slots move exactly one element of the evaluator's type (a wider access reads or writes past the caller's slice)", 16)
    for kind in AC_.ALL:
        ctx.guarded(r, AC_.check_simple_builders, kind, only=("build_input", "build_output", "build_load", "build_store"))
    from .. import nanspread as NS

    r = ctx.rule("R2j", "native interval add / sub: a result with one NaN bound (infinities of opposite sign) becomes the NaN interval before anything else sees it (NaN-lane abstraction of the x86_64 and aarch64 clauses)", 2 + 3)
    for arch in ("x86_64", "aarch64"):
        ctx.guarded(r, NS.check_nan_spread, arch)
    r = ctx.rule("R2k", "intervals are built from two bounds only in Interval::new; has_nan looks at both bounds", 2)
    ctx.guarded(r, r_interval_wellformed)
    # a reciprocal taken with a bound exactly at the pole builds reversed bounds, which Interval::new refuses (a panic)
    ctx.include('C03', 'interval operations must not build bounds that Interval::new rejects', only=('R5r',))
    # "mismatched slice lengths, missing bound variables are reported as error values": the shape evaluators' own checks
    ctx.include('C14', 'argument errors of the shape evaluators are error values', only=('R3c', 'R3d'))
