"""C20 - traces and outputs are well formed (structural part)."""
from .. import ast as A
from .. import opcodes as O
from .. import terms as T
from .. import vmloops as V
from .. import asmchecks as AC
from .. import jitdriver as JD

CHOICE_BASES = T.CHOICE_BASES


def r1_choice_recording(rule, root=None):
    for label in ("interval", "point"):
        info = []
        dummy = _Null()
        try:
            fn, m = V.check_loop(dummy, label, root, want_choice_info=info)
        except A.AnchorLost as e:
            rule.lost("%s: %s" % (label, e.what))
            continue
        # names of the iterator and the flag
        it_name = flag_name = None
        for s in A.find(fn["body"], "Let"):
            n = A.binding_name(s["pat"])
            init = A.ftxt(s.get("init")) if s.get("init") else ""
            if n and "choices" in init and "iter_mut()" in init:
                it_name, it_let = n, s
            if n and init == "false":
                flag_name = n
        if it_name is None or flag_name is None:
            rule.lost("%s: `let mut choices = ...iter_mut()` / `let mut simplify = false`" % label)
            continue
        t = A.ftxt(it_let["init"])
        if ".rev()" in t or "self.0.choices" not in t:
            rule.bad("%s|iter" % label, "the choice iterator must walk the evaluator's own choice array front to back, found `%s`" % t, A.where(fn, it_let))
        else:
            rule.ok("%s: choices iterate self.0.choices forward" % label)
        for variant, subs, arm, inf, _fn in info:
            base, form = T.split_variant(variant)
            oreqs = inf.get("oreq_nodes", [])
            is_choice = base in CHOICE_BASES and form in ("RegReg", "RegImm", "ImmReg")
            key = "%s|%s" % (label, variant)
            touches = [
                n for n in A.walk(arm["body"]) if n.get("k") == "Path" and n["segs"] in ([it_name], [flag_name])
            ]
            if not is_choice:
                if oreqs or touches:
                    rule.bad(key, "%s arm %s is not a choice op but touches the choice iterator / simplify flag" % (label, variant), A.where(fn, arm))
                else:
                    rule.ok("%s:%s leaves choices alone" % (label, variant))
                continue
            val = inf.get("value")
            probs = []
            rec = []
            flag = []
            for _k, left, right, node, env in oreqs:
                l = A.strip(left)
                lt = A.ftxt(l)
                if lt == "%s.next().unwrap()" % it_name:
                    rec.append((right, env))
                elif A.ident(l) == flag_name:
                    flag.append((right, env))
                else:
                    probs.append("unexpected `|=` target `%s`" % lt)
            if len(rec) != 1:
                probs.append("must record exactly one choice with `*%s.next().unwrap() |= choice` (found %d)" % (it_name, len(rec)))
            else:
                ct = T.norm(rec[0][0], rec[0][1])
                if not (ct[0] == "choice" and val is not None and val[0] == "val" and ct[1] == val[1]):
                    probs.append("the recorded choice `%s` is not the choice half of the call whose value is stored (%s)" % (T.show(ct), T.show(val) if val else "?"))
            exp = V.expected_value(variant) or []
            if val is not None and val not in exp:
                probs.append("the choice comes from `%s`; for %s Left must mean the first operand and Right the second, i.e. `%s`" % (T.show(val), variant, T.show(exp[0]) if exp else "?"))
            if len(rec) == 1 and len([c for c in A.calls_in(arm["body"], method="next") if A.ident(A.strip(c["recv"])) == it_name]) != 1:
                probs.append("the choice iterator is advanced more than once")
            if len(flag) != 1:
                probs.append("must update the simplify flag exactly once (found %d)" % len(flag))
            else:
                ft = T.norm(flag[0][0], flag[0][1])
                want_choice = T.norm(rec[0][0], rec[0][1]) if len(rec) == 1 else None
                if not (ft[0] == "bin" and ft[1] == "!=" and ft[2] == want_choice and ft[3] == ("var", "Choice::Both")):
                    probs.append("the simplify flag must be `%s |= choice != Choice::Both`, found `%s`" % (flag_name, T.show(ft)))
            if probs:
                for p in probs:
                    rule.bad("%s|%s" % (key, p[:40]), "%s arm %s: %s" % (label, variant, p), A.where(fn, arm))
            else:
                rule.ok("%s:%s records its choice once and updates the flag" % (label, variant), file=V.VM, line=arm["ln"])


class _Null:
    def ok(self, *a, **k):
        pass

    def bad(self, *a, **k):
        pass

    def lost(self, *a, **k):
        pass


def _flag_name(fn):
    """the boolean set from the choices (`let mut simplify = false`), whatever it is called"""
    for s_ in A.find(fn["body"], "Let"):
        p = s_["pat"]["pat"] if s_["pat"].get("k") == "PType" else s_["pat"]
        init = A.strip(s_.get("init") or {})
        if p.get("k") == "PIdent" and p.get("mut") and init.get("k") == "Lit" and init.get("ty") == "bool" and init.get("v") == "false":
            return p["name"]
    return "simplify"


def r3_trace_iff_flag(rule, root=None):
    for label in ("interval", "point"):
        fn, _ = V.loop_fn(label, root)
        tail = fn["body"]["stmts"][-1]
        e = A.strip(A.stmt_expr(tail) or {})
        ok = False
        why = "the function must end with Ok((&self.0.out, if simplify { Some(&self.0.choices) } else { None }))"
        flag = _flag_name(fn)
        if e.get("k") == "Call" and A.is_path(e["func"], "Ok") and len(e["args"]) == 1:
            tup = A.strip(e["args"][0])
            if tup.get("k") == "Tuple" and len(tup["elems"]) == 2:
                o = A.ftxt(A.strip(tup["elems"][0]))
                second = A.strip(tup["elems"][1])
                if A.ident(second):
                    # a local naming the trace: read what it was bound to
                    lets = [s_ for s_ in A.find(fn["body"], "Let") if A.binding_name(s_["pat"]) == A.ident(second) and s_.get("init") is not None]
                    if len(lets) == 1:
                        second = lets[0]["init"]
                cases = [(str(A.ftxt(leaf)), cs) for leaf, cs in A.value_cases(second)]
                some = [cs for v, cs in cases if v == "Some(&self.0.choices)"]
                none = [cs for v, cs in cases if v == "None"]
                if o != "self.0.out":
                    why = "outputs returned are `%s`, not the evaluator's output array" % o
                elif len(cases) != 2 or len(some) != 1 or len(none) != 1:
                    why = "the trace component is %s" % cases
                elif some[0] != [flag] or none[0] != ["!" + flag]:
                    why = "the trace is returned under `%s`, not under the simplify flag `%s`" % (" && ".join(some[0]), flag)
                else:
                    ok = True
        if ok:
            rule.ok("%s: trace returned iff the flag is set" % label, file=V.VM, line=tail["ln"])
        else:
            rule.bad("%s|return" % label, "%s eval: %s" % (label, why), A.where(fn, tail))
        # no early successful return
        rets = [r for r in A.find(fn["body"], "Return")]
        if rets:
            rule.bad("%s|early-return" % label, "%s eval has an early return" % label, A.where(fn, rets[0]))


INTERVAL_RS = "fidget-core/src/types/interval.rs"


def r_nan_undecided(rule, root=None):
    """the four interval choice functions decide nothing when either operand holds a NaN: the very first test is
    `self.has_nan() || rhs.has_nan()` and it yields (NaN, Both).  The native interval clauses make the same
    test before anything else, so a function that decides first (say, on its left operand alone) records a
    choice - and reports a trace - where the JIT records `Both`."""
    from .. import effects as E

    for name in ("min_choice", "max_choice", "and_choice", "or_choice"):
        fn = A.find_fn(INTERVAL_RS, name, self_ty="Interval", root=root)
        body = A.value_view(fn["body"])
        stmts = body.get("stmts") or []
        first = A.strip(A.stmt_expr(stmts[0])) if stmts and A.stmt_expr(stmts[0]) is not None else None
        ok = False
        why = "its first statement is not a test"
        if first is not None and first.get("k") == "If":
            c = E.canon(first["cond"])
            either = "(rhs.has_nan()||self.has_nan())"
            neither = "(!rhs.has_nan()&&!self.has_nan())"
            br = first["then"] if c == either else (first.get("else") if c == neither else None)
            if br is None:
                why = "its first test is `%s`, not `self.has_nan() || rhs.has_nan()`" % A.unparse(first["cond"])
            else:
                vals = [t_ for t_ in A.find(br, "Tuple") if len(t_["elems"]) == 2]
                tl = [t_ for t_ in vals if E.canon(t_["elems"][0]) in ("f32::NAN", "NAN", "f32::NAN.into()") and E.canon(t_["elems"][1]) == "Choice::Both"]
                if len(vals) == 1 and len(tl) == 1:
                    ok = True
                else:
                    why = "the NaN branch does not yield (NaN, Choice::Both)"
        if ok:
            rule.ok("Interval::%s: a NaN in either operand is (NaN, Both) before anything is decided" % name, file=INTERVAL_RS, line=fn["ln"])
        else:
            rule.bad("nan-first|%s" % name, "Interval::%s must answer (NaN, Choice::Both) for a NaN in either operand before it decides anything (%s): the native interval clause tests both operands first, so the interpreter would record a decided choice where the JIT records Both" % (name, why), A.where(fn))


def run(ctx):
    r = ctx.rule("R1", "interpreter tracing loops record one choice per choice op and set the flag from it", 2 * 54 + 2)
    ctx.guarded(r, r1_choice_recording)
    r = ctx.rule("R3", "the trace is returned iff the simplify flag is set", 2)
    ctx.guarded(r, r3_trace_iff_flag)
    r = ctx.rule("R2", "native choice protocol: one OR into [rsi], one advance, flag iff decided, value = chosen operand", 2 * 26)
    for kind in AC.TRACING:
        ctx.guarded(r, AC.check_choice_protocol, kind)
    r = ctx.rule("R2s", "native min/max branch on strict comparisons like the interpreter's choice functions", 14)
    ctx.guarded(r, AC.check_strictness)
    from .. import x86pw as PW86

    r = ctx.rule("R0", "the choice byte's encoding: Unknown = 0, Both = Left | Right, Left = 1 / Right = 2 as the computed bytes assume, CHOICE_* are the enum's values", 5)
    ctx.guarded(r, PW86.r_choice_encoding)
    r = ctx.rule("R2v", "x86_64 tracing min / max / and / or: on every order type of the operands (values / interval bounds) the selected path records the interpreter's choice once, sets the flag iff it is decided and advances the pointer once", 8)
    for kind in AC.TRACING:
        ctx.guarded(r, PW86.check_piecewise, kind, only=PW86.CHOICE_OPS)
    r = ctx.rule("R2n", "interval choice functions leave a NaN operand undecided before anything else, as the native clauses do; `contains` includes both bounds", 5)
    ctx.guarded(r, r_nan_undecided)
    from . import C03 as C03_

    ctx.guarded(r, C03_.r_contains)
    from .. import quadrant as QD_

    r = ctx.rule("R2d", "the interval choice functions decide Left / Right exactly as the bounds imply, whatever their magnitude (evaluated under f32 semantics on a grid with tiny, huge, zero and infinite bounds)", 4)
    ctx.guarded(r, QD_.r_choice_decisions)
    from .. import asmcopy as AK

    r = ctx.rule("R2e", "the tracing assemblers' call helpers restore the choice pointer (rsi) and the flag pointer (rdx) with every live register", 4)
    for kind in AC.TRACING:
        for n in ("call_fn_unary", "call_fn_binary"):
            ctx.guarded(r, AK.check_call_helper, kind, n)
    from . import C10

    r = ctx.rule("R5", "output / choice buffers are sized to the tape's counts before every evaluation", 19)
    ctx.guarded(r, C10.r1_buffers)
    r = ctx.rule("R4", "every advertised size / variable map / output count is copied from or delegated to its namesake", 29)
    ctx.guarded(r, JD.r_constructors)
    r = ctx.rule("R4b", "bulk results expose exactly n samples per output (driver arithmetic)", 11)
    ctx.guarded(r, JD.r_bulk_driver)
    from .. import a64checks as XC

    r = ctx.rule("R2a", "aarch64 choice protocol: byte loaded from [x1], one choice ORed, flag through x2 iff decided, stored back with x1 += 1, value = chosen operand; strict branches", 26 + 28 + 8)
    for kind in XC.TRACING:
        ctx.guarded(r, XC.check_choice_protocol, kind)
    ctx.guarded(r, XC.check_strictness)
    # a choice clause records its entry only if the tape's op reaches that clause: the shared lowering loop must hand
    # every min / max / and / or to its own builder (C20j-3: a `lhs == rhs` peephole emitting a plain copy)
    ctx.include('C02', 'every choice op of the tape must reach the clause that records its choice', only=('R1',))
