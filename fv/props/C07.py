"""C07 - 3D rendering equals the brute-force heightmap (structural part)."""
from .. import raster as R
from .. import shapecore as SC


def run(ctx):
    r = ctx.rule("R1", "a tile is full only under upper() < 0 and empty only under lower() > 0; children use this tile's trace", 6)
    ctx.guarded(r, R.r_fill_sign_voxel)
    ctx.guarded(r, R.r_trace_use, R.VOX, "voxel")
    r = ctx.rule("R1b", "tiles cover the grid: root grid, children, tile-size list", 10)
    ctx.guarded(r, R.r_root_tiles)
    ctx.guarded(r, R.r_children, R.VOX, "voxel", 3)
    ctx.guarded(r, R.r_tile_sizes)
    r = ctx.rule("R2", "every z iteration is descending and the first-hit search / index flip agree with it", 2)
    ctx.guarded(r, R.r_zorder_root)
    r = ctx.rule("R3", "voxel samples, depth = index + 1, unchecked writes behind length assertions, unit gradient seeds", 20)
    ctx.guarded(r, R.r_samples_voxel)
    r = ctx.rule("R4", "tile merge: bounds, greater depth wins, clamp compares with and assigns the grid depth", 6)
    ctx.guarded(r, R.r_assembly_voxel)
    r = ctx.rule("R5", "the tile's box goes through the view as an interval: Transformable for Interval is the homogeneous interval transform, and samples / normals go through its f32 / Grad siblings", 4)
    ctx.guarded(r, lambda rule: SC.r_transformable(rule, ("Interval", "f32", "Grad")))
    r = ctx.rule("R6", "voxel positions follow the documented screen-to-world map", 6)
    ctx.guarded(r, R.r_view_convention)
    from .. import simplify as S_

    r = ctx.rule("R7", "tile simplification is sound: one choice consumed per choice op, Left / Right keep the first / second operand, survivors are renamed through the remap table", 53 + 8 + 44)
    ctx.guarded(r, lambda rule: S_.r1_choice_consumption(rule))
    ctx.guarded(r, S_.r2_left_right)
    ctx.guarded(r, S_.r_renaming)
    r = ctx.rule("R8", "axis roles: the x offset split from a linear tile index goes with the tile's x corner, the image width and the first vector position; the y offset with corner[1], the height, the second position", 1)
    ctx.guarded(r, R.r_axis_roles, R.VOX, "voxel")
    r = ctx.rule("R9", "render_tile_recurse stops the descent through a column of root tiles (`false`) only for a filled tile; an empty tile keeps going, and the z loop stops on `false` only", 3)
    ctx.guarded(r, R.r_keep_going)
    # this property quantifies over every shape and both backends, so it needs the evaluators it consults to be right
    ctx.include('C03', 'tiles are skipped on interval evidence', skip=('R6',))
    ctx.include('C04', 'tiles are rendered with simplified tapes', skip=())
    ctx.include('C20', "the trace a tile hands down must be the evaluation's own record", skip=())
    ctx.include('C01', 'voxels are evaluated by the tape evaluators', skip=())
    ctx.include('C02', 'voxels are evaluated by the native evaluators', skip=())
    ctx.include('C05', "normals are the gradient evaluators' output", skip=())
