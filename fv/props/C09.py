"""C09 - parallel execution and cancellation are unobservable (structural part)."""
import re

from .. import ast as A
from .. import raster as R
from .C08 import r2_merge_offsets

OCT = "fidget-mesh/src/octree.rs"
CFG = "fidget-core/src/render/config.rs"
JIT = "fidget-jit/src/lib.rs"
MMAP = "fidget-jit/src/mmap.rs"
SCOPE = ("fidget-core/", "fidget-jit/", "fidget-raster/", "fidget-mesh/")


def txt(n):
    return A.ftxt(n)


def r1_cancellation(rule, root=None):
    R.r_cancel_tiles(rule, root)
    # mesh: recurse aborts only under is_cancelled or a child's abort
    fn = A.find_fn(OCT, "recurse", self_ty="OctreeBuilder", root=root)
    rets = [r for r in A.find(fn["body"], "Return") if txt(r["e"]) == "false"]
    for r in rets:
        conds = R.cond_chain(fn, r) or []
        c = conds[-1] if conds else ""
        if c == "self.cancel.is_cancelled()":
            rule.ok("mesh: a cell aborts when the token is set", file=OCT, line=r["ln"])
        elif c.startswith("!self.recurse("):
            rule.ok("mesh: an aborted child aborts its parent", file=OCT, line=r["ln"])
        else:
            rule.bad("mesh|abort-origin", "OctreeBuilder::recurse returns false under `%s`; an abort may only originate from the cancel token or propagate from a child" % c, A.where(fn, r))
    if len(rets) != 2:
        rule.bad("mesh|abort-count", "expected two abort sites in recurse (token, child), found %d" % len(rets), A.where(fn))
    first = fn["body"]["stmts"][0]
    if txt(first) == "ifself.cancel.is_cancelled(){returnfalse;}":
        rule.ok("mesh: the token is polled on entry to every cell")
    else:
        rule.bad("mesh|poll", "recurse must poll the cancel token first", A.where(fn, first))
    if txt(fn["body"]["stmts"][-1]) == "true":
        rule.ok("mesh: a cell that was not cancelled always completes")
    else:
        rule.bad("mesh|complete", "recurse must end with `true`", A.where(fn))
    b = A.find_fn(OCT, "build_inner", self_ty="Octree", root=root)

    def resolved(fn_, c):
        """condition text with a plain local replaced by what it was bound to"""
        neg = c.startswith("!")
        core = c[1:] if neg else c
        for s_ in A.find(fn_["body"], "Let"):
            if A.binding_name(s_["pat"]) == core and s_.get("init") is not None:
                core = A.norm_cond(A.unparse(s_["init"]).replace(" ", ""))
        return ("!" if neg else "") + core

    cases = [(str(txt(leaf)), [resolved(b, A.norm_cond(c)) for c in cs]) for leaf, cs in A.result_cases(b["body"])]
    rec_true = [cs for v, cs in cases if v.startswith("Some(") and v.endswith(".octree)") and any(c.startswith("out.recurse(") or c.startswith(v[5:-8] + ".recurse(") for c in cs)]
    rec_false = [cs for v, cs in cases if v == "None" and any(c.startswith("!") and ".recurse(" in c for c in cs)]
    if rec_true and rec_false and not [1 for v, cs in cases if v.startswith("Some(") and any(c.startswith("!") and ".recurse(" in c for c in cs)]:
        rule.ok("mesh (single thread): the octree is returned iff the root was not aborted")
    else:
        rule.bad("mesh|st-result", "build_inner must return Some(octree) exactly when recurse returned true (cases: %s)" % cases[:4], A.where(b))
    m = A.find_fn(OCT, "build_inner_mt", self_ty="Octree", root=root)
    t = txt(m["body"])
    ok_mt = False
    for c in A.find(m["body"], "MethodCall"):
        if c["method"] == "map_init" and len(c["args"]) == 2 and c["args"][1].get("k") == "Closure":
            cl = c["args"][1]
            cc = [(str(txt(leaf))[:12], [A.norm_cond(x) for x in cs]) for leaf, cs in A.result_cases(cl["body"])]
            nones = [cs for v, cs in cc if v == "None"]
            somes = [cs for v, cs in cc if v.startswith("Some(")]
            if nones and somes and all(any(x.startswith("!") and ".recurse(" in x for x in cs) for cs in nones) and all(any((not x.startswith("!")) and ".recurse(" in x for x in cs) for cs in somes):
                ok_mt = True
    if ok_mt and ".collect::<Option<Vec<_>>>()})?;" in t:
        rule.ok("mesh (pool): any aborted task turns the whole build into None")
    else:
        rule.bad("mesh|mt-result", "build_inner_mt must map an aborted task to None and collect into Option<Vec<_>> propagated with `?`", A.where(m))
    # CancelToken
    for name, frag in (("cancel", "self.0.store(true,Ordering::Relaxed)"), ("is_cancelled", "self.0.load(Ordering::Relaxed)")):
        f = A.find_fn(CFG, name, self_ty="CancelToken", root=root)
        if frag in txt(f["body"]):
            rule.ok("CancelToken::%s is an atomic %s of the shared flag" % (name, "store" if name == "cancel" else "load"))
        else:
            rule.bad("token|%s" % name, "CancelToken::%s must %s the shared flag" % (name, frag), A.where(f))


def r2_shared_state(rule, root=None):
    unsafe_impls, interior, statics, tls = [], [], [], []
    for ent in A.index(root):
        p = ent.get("file")
        if not p or not p.startswith(SCOPE) or "/tests/" in p or "/benches/" in p:
            continue
        d = A.load(p, root)

        def rec(items, test):
            for it in items or []:
                t = test or A.is_test_attrs(it)
                if it.get("k") == "Mod":
                    rec(it.get("items"), t)
                    continue
                if t:
                    continue
                if it.get("k") == "Impl" and it.get("unsafe") and (it.get("trait") or "").replace(" ", "") in ("Send", "Sync"):
                    unsafe_impls.append((p, it["trait"].replace(" ", ""), A.strip_generics(it["self_ty"].replace(" ", "")), it))
                if it.get("k") == "StructDef":
                    for f in it["fields"]:
                        if re.search(r"\b(RefCell|UnsafeCell|Mutex|RwLock|Atomic\w+|OnceCell|OnceLock|LazyLock)\b|\bCell<(?!\d)", f["ty"].replace(" ", "")):
                            interior.append((p, it["name"], f["name"], f["ty"].replace(" ", "")))
                if it.get("k") == "Static":
                    statics.append((p, it["name"], it.get("mut")))
                if it.get("k") == "Macro" and it.get("name") == "thread_local":
                    tls.append((p, it["ln"]))

        rec(d["items"], False)
        # ... and inside function bodies (a `thread_local!` can be declared next to its only use)
        for f_ in d["_fns"]:
            if f_["_test"] or f_.get("body") is None:
                continue
            for m_ in A.find(f_["body"], "Macro"):
                if m_.get("name") == "thread_local":
                    tls.append((p, m_["ln"]))
    vetted = {
        ("fidget-jit/src/lib.rs", "Send", "JitTracingFn"), ("fidget-jit/src/lib.rs", "Sync", "JitTracingFn"),
        ("fidget-jit/src/lib.rs", "Send", "JitBulkFn"), ("fidget-jit/src/lib.rs", "Sync", "JitBulkFn"),
        ("fidget-jit/src/lib.rs", "Send", "JitBulkEval"), ("fidget-jit/src/lib.rs", "Sync", "JitBulkEval"),
        ("fidget-jit/src/mmap.rs", "Send", "Mmap"),
    }
    got = {(p, tr, ty) for p, tr, ty, _ in unsafe_impls}
    for x in sorted(got - vetted):
        rule.bad("unsafe-impl|%s|%s" % (x[1], x[2]), "new `unsafe impl %s for %s` in %s: every hand-asserted thread-safety claim must be vetted (the seven existing ones rest on immutable handles over Arc<Mmap>)" % (x[1], x[2], x[0]), x[0])
    for x in sorted(got & vetted):
        rule.ok("unsafe impl %s for %s (vetted)" % (x[1], x[2]), file=x[0])
    want_int = {("fidget-core/src/render/config.rs", "CancelToken", "0")}
    for p, st, f, ty in interior:
        if (p, st, f) in want_int:
            rule.ok("interior mutability: %s.%s: %s (the cancel flag)" % (st, f, ty), file=p)
        else:
            rule.bad("interior|%s.%s" % (st, f), "%s.%s in %s has interior mutability (%s): shared evaluator / tape state must stay immutable" % (st, f, p, ty), p)
    for p, n, mut in statics:
        if mut:
            rule.bad("static-mut|%s" % n, "`static mut %s` in %s" % (n, p), p)
    for p, ln in tls:
        rule.bad("thread_local|%s" % p, "thread_local! in %s: results must not depend on which pool thread runs a task" % p, "%s:%d" % (p, ln))
    rule.ok("no static mut and no thread_local in core / jit / raster / mesh (%d statics examined)" % len(statics))
    # the JIT handles really are immutable: no method takes &mut self / assigns a field
    d = A.load(JIT, root)
    for ty in ("JitTracingFn", "JitBulkFn"):
        muts = []
        for f in d["_fns"]:
            ow = f.get("_owner") or {}
            if A.strip_generics(ow.get("self_ty") or "") != ty or f["_test"]:
                continue
            s0 = f["sig"]["inputs"][0].get("self") if f["sig"]["inputs"] else None
            if s0 and "mut" in s0:
                muts.append(f["name"])
        if muts:
            rule.bad("handle|%s|mut" % ty, "%s has &mut self methods %s; its Send/Sync claim rests on being immutable after construction" % (ty, muts), JIT)
        else:
            rule.ok("%s has no mutating method" % ty, file=JIT)
        rec_ = [f for f in d["_fns"] if f["name"] == "recycle" and A.strip_generics((f.get("_owner") or {}).get("self_ty") or "") == ty]
        if rec_ and txt(rec_[0]["body"]) == "{Arc::into_inner(self.mmap)}":
            rule.ok("%s::recycle hands the mapping back only when this was the last handle" % ty)
        else:
            rule.bad("handle|%s|recycle" % ty, "%s::recycle must be Arc::into_inner(self.mmap): the mapping may only be reused once no other thread holds the tape" % ty, JIT)
    # executable memory is written only through MmapWriter, which owns its Mmap by value
    st = A.find_item(MMAP, "StructDef", "MmapWriter", root)
    f = {x["name"]: x["ty"].replace(" ", "") for x in st["fields"]}
    if f.get("mmap") == "Mmap":
        rule.ok("MmapWriter owns its Mmap by value (no writer can alias a shared tape)")
    else:
        rule.bad("mmapwriter|owner", "MmapWriter.mmap must be an owned Mmap, found %s" % f.get("mmap"), A.where(MMAP, st))


def r_token_raw(rule, root=None):
    """CancelToken::into_raw hands one strong count to the raw pointer (Arc::into_raw of the owned Arc) and
    from_raw takes exactly that count back (Arc::from_raw): a pointer made without a count (Arc::as_ptr) is
    freed under the owner that still holds the token, and its flag is then another run's flag"""
    CFG = "fidget-core/src/render/config.rs"
    a = A.find_fn(CFG, "into_raw", self_ty="CancelToken", root=root)
    b = A.find_fn(CFG, "from_raw", self_ty="CancelToken", root=root)
    ta = str(txt(A.unblock(A.inline_lets_deep(a["body"]))))
    calls_b = [str(txt(c)) for c in A.find(b["body"], "Call") if (A.path_segs(c["func"]) or [])[-2:] == ["Arc", "from_raw"]]
    takes_self = bool(a["sig"]["inputs"]) and isinstance(a["sig"]["inputs"][0], dict) and a["sig"]["inputs"][0].get("self", "").replace(" ", "") in ("self", "mutself")
    if ta == "Arc::into_raw(self.0)" and takes_self:
        rule.ok("CancelToken::into_raw leaks the owned Arc's count into the pointer", file=CFG, line=a["ln"])
    else:
        rule.bad("token|into_raw", "CancelToken::into_raw must be Arc::into_raw(self.0) on the consumed token (found `%s`): from_raw reclaims a strong count, so the pointer has to carry one" % ta[:60], A.where(a))
    if len(calls_b) == 1:
        rule.ok("CancelToken::from_raw reclaims that count with Arc::from_raw", file=CFG, line=b["ln"])
    else:
        rule.bad("token|from_raw", "CancelToken::from_raw must rebuild the Arc with Arc::from_raw(ptr)", A.where(b))


def r_token_consumers(rule, root=None):
    """the cancel token is consulted only where the answer turns into an abort (recurse -> false, a tile ->
    Err(())): a poll that produces an ordinary value instead (an "empty" placeholder) ends up in a result
    that is returned as if complete"""
    n = 0
    for path in (OCT, R.LIB, R.PIX, R.VOX):
        for f in A.load(path, root)["_fns"]:
            if f["_test"] or f.get("body") is None or f["name"] == "is_cancelled":
                continue
            for c in A.find(f["body"], "MethodCall"):
                if c["method"] != "is_cancelled":
                    continue
                n += 1
                holder = None
                for i in A.find(f["body"], "If"):
                    if any(x is c for x in A.walk(i["cond"])):
                        holder = i
                if holder is None:
                    rule.bad("token|consumer|%s" % f["name"], "%s reads the cancel token outside a condition" % A.fn_label(f), A.where(f, c))
                    continue
                # which branch runs when the token is set
                cnd = A.strip(holder["cond"])
                negated = False
                while cnd.get("k") == "Unary" and cnd.get("op") == "!":
                    negated = not negated
                    cnd = A.strip(cnd["e"])
                branch = holder.get("else") if negated else holder["then"]
                if branch is None or cnd.get("k") != "MethodCall":
                    rule.bad("token|consumer|%s" % f["name"], "%s tests the cancel token in a way the checker cannot read (`%s`)" % (A.fn_label(f), A.unparse(holder["cond"])[:40]), A.where(f, holder))
                    continue
                leafs = A.branch_leaves(branch)
                bad = []
                for leaf, _cx in leafs:
                    l_ = A.strip(leaf)
                    if l_.get("k") == "Block" and l_.get("stmts"):
                        l_ = A.strip(A.stmt_expr(l_["stmts"][-1]) or l_)
                    t_ = str(txt(l_))
                    if l_.get("k") == "Return":
                        t_ = str(txt(l_.get("e") or {}))
                    if t_ not in ("false", "Err(())", "None", "returnfalse", "returnNone"):
                        bad.append(t_)
                if bad:
                    rule.bad("token|consumer|%s" % f["name"], "%s answers a set cancel token with `%s`: that is an ordinary value, and whoever receives it cannot tell a cancelled run from a finished one (a cancelled build must end as None)" % (A.fn_label(f), bad[0][:40]), A.where(f, holder))
                else:
                    rule.ok("%s turns a set token into an abort" % A.fn_label(f), file=path, line=c["ln"])
    if n < 2:
        rule.lost("the polls of the cancel token (mesh recurse, the per-tile polls), found %d" % n)


def r_pool_free_parameters(rule, root=None):
    """what is rendered does not depend on the pool: in the 2D / 3D `render` entry points nothing computed from
    `threads` (the pool, its size) flows into the tiles, tile sizes, shape or configuration handed to
    render_tiles - the pool is passed along only inside eval_config"""
    for path, label in ((R.PIX, "2D"), (R.VOX, "3D")):
        f = A.find_fn(path, "render", root=root)
        tainted = set()
        changed = True
        lets = [l for l in A.find(f["body"], "Let") if l.get("init") is not None]
        while changed:
            changed = False
            for l in lets:
                names = [n_["name"] for n_ in A.walk(l["pat"]) if n_.get("k") == "PIdent"]
                t_ = str(txt(l["init"]))
                if (re.search(r"\bthreads\b|thread_count", t_) or any(re.search(r"\b%s\b" % re.escape(x), t_) for x in tainted)) and not set(names) <= tainted:
                    tainted |= set(names)
                    changed = True
        calls = [c for c in A.find(f["body"], "Call") if (A.path_segs(c["func"]) or [None])[-1] == "render_tiles"]
        if len(calls) != 1:
            rule.lost("%s render: the call to render_tiles" % label)
            continue
        bad = []
        for a in calls[0]["args"]:
            t_ = str(txt(a))
            if t_ == "eval_config":
                continue
            if re.search(r"\bthreads\b|thread_count", t_) or any(re.search(r"\b%s\b" % re.escape(x), t_) for x in tainted):
                bad.append(t_)
        if bad:
            rule.bad("pool|parameters|%s" % label, "%s render hands `%s` to render_tiles, and that value was computed from the thread pool: the tile list / configuration - and with it the rendered data - then depends on how many threads run" % (label, bad[0][:40]), A.where(f, calls[0]))
        else:
            rule.ok("%s render: nothing derived from the pool reaches the tiling parameters" % label, file=path, line=calls[0]["ln"])


def r1c_mt_precondition(rule, root=None):
    """build_inner_mt unwraps the (parent, slot) index of every task cell; only cells created by its split loop
    have one, so the loop must run at least once for every input that reaches the function"""
    m = A.find_fn(OCT, "build_inner_mt", self_ty="Octree", root=root)
    b = A.find_fn(OCT, "build_inner", self_ty="Octree", root=root)
    unwraps = [c for c in A.find(m["body"], "MethodCall") if c["method"] == "unwrap" and txt(c["recv"]).endswith(".cell.index")]
    t = txt(m["body"])
    loop_runs = any(A.norm_cond(str(txt(A.strip(w["cond"])))) in ("todo.len()<target_count", "target_count>todo.len()") for w in A.find(m["body"], "While")) and "lettarget_count=8usize.pow((settings.depthasu32)).min((threads.thread_count()*10));" in t
    ifs = [i for i in A.find(b["body"], "If") if "build_inner_mt" in txt(i["then"])]
    guard = txt(ifs[0]["cond"]) if ifs else ""
    if not ifs:
        # the same dispatch as a guarded match arm / any other construct: the conditions the call sits under
        calls_ = [c for c in A.find(b["body"], "Call") if (A.path_segs(c["func"]) or [None])[-1] == "build_inner_mt"] + [c for c in A.find(b["body"], "MethodCall") if c["method"] == "build_inner_mt"]
        if calls_:
            guard = "&&".join(A.enclosing_conds(b["body"], calls_[0]) or [])
    if not unwraps:
        rule.ok("build_inner_mt does not assume that every task cell has a parent slot", file=OCT, line=m["ln"])
    elif "settings.depth>0" in guard or "settings.depth>=1" in guard or "settings.depth!=0" in guard:
        rule.ok("the pooled path is taken only for depth > 0, where the split loop creates every task cell (so its parent slot exists)", file=OCT, line=(ifs[0]["ln"] if ifs else b["ln"]))
    else:
        rule.bad("mesh|mt-depth0", "build_inner_mt unwraps `cell.index` of every task, but with depth 0 its split loop (while todo.len() < 8^depth.min(..)) never runs and the only task is the root cell, whose index is None: meshing at depth 0 panics with a thread pool and works without one. Guard the pooled path with depth > 0 (found `%s`)" % guard, A.where(b, ifs[0] if ifs else None))
    if not loop_runs:
        rule.skip("split loop shape", "target_count / while loop reshaped")


def r3_per_thread_state(rule, root=None):
    m = A.find_fn(OCT, "build_inner_mt", self_ty="Octree", root=root)
    t = txt(m["body"])
    need = [
        ("every pool thread gets a fresh builder and its own clone of the handle", ".map_init(||(OctreeBuilder::new(settings,vars),rh.clone()),|(builder,eval),cell|"),
        ("each task builds at local index 0", "letlocal_cell=CellIndex{index:None,..*cell};"),
        ("each task starts from an empty octree", "letoctree=std::mem::replace(&mutbuilder.octree,Octree::new());"),
        ("results carry the cell they were built for", "Some(Output{octree:octree,cell:*cell,hermite:hermite})"),
        ("the interval tape is populated before cloning", "let_=rh.i_tape(&mutvec!());"),
    ]
    for what, frag in need:
        if frag in t:
            rule.ok("mesh pool: %s" % what, file=OCT, line=m["ln"])
        else:
            rule.bad("mesh|thread|%s" % what[:24], "multithreaded meshing: %s (`%s` not found)" % (what, frag[:60]), A.where(m))
    fn = A.find_fn(R.LIB, "render_tiles", root=root)
    t = txt(fn["body"])
    if "let_=rh.i_tape(&mutvec!());" in t:
        rule.ok("raster pool: the interval tape is populated before the handle is cloned per thread")
    else:
        rule.bad("raster|thread|itape", "render_tiles must populate the interval tape before cloning the handle", A.where(fn))


from .. import factrules as FR



def r5_pool_independence(rule, root=None):
    """what keeps a pooled build's octree equal to the serial one: the pre-split never goes below the
    requested depth (strict `<` against min(8^depth, ..)), leaves are built exactly at max depth, and a
    collapsible group of cells collapses whether or not it is the tail of the cell array"""
    m = A.find_fn(OCT, "build_inner_mt", self_ty="Octree", root=root)
    t = txt(m["body"])
    ws = [w for w in A.find(m["body"], "While") if "todo.len()" in A.unparse(w["cond"])]
    if len(ws) == 1 and A.norm_cond(str(txt(A.strip(ws[0]["cond"])))) in ("todo.len()<target_count", "target_count>todo.len()") and t.fmatch("lettarget_count=8usize.pow((settings.depthasu32)).min((threads.thread_count()*10));") is not None:
        rule.ok("the work queue is split only while it is shorter than min(8^depth, 10 x threads)", file=OCT, line=ws[0]["ln"])
    else:
        rule.bad("pool|split", "build_inner_mt must stop splitting as soon as the queue has min(8^depth, 10 x threads) cells (`while todo.len() < target_count`): one split more goes below the requested depth in one corner only when a pool is used", A.where(m))
    # vertices go back to model space once everything that can still create a vertex has run: the pooled
    # path's fix-up walk (check_done -> try_collapse) adds vertices after the per-task octrees are merged
    makers = ("recurse", "check_done", "try_collapse", "leaf")
    n_tr = 0
    for name in ("build", "build_inner", "build_inner_mt"):
        f_ = A.find_fn(OCT, name, self_ty="Octree", root=root)
        seq = A.linear_calls(f_)
        tr = [c["i"] for c in seq if c["method"] == "transform_point"]
        n_tr += len(tr)
        late = [c for c in seq if tr and c["i"] > tr[0] and c["method"] in makers]
        if late:
            rule.bad("pool|model-space|%s" % name, "Octree::%s moves vertices to model space and then still calls `%s`, which can create vertices: those stay in [-1, +1] coordinates - with a pool only, since only the pooled path has a fix-up walk" % (name, late[0]["method"]), A.where(f_, late[0]["node"]))
    if n_tr == 0:
        rule.lost("the transform of the finished octree's vertices back to model space (world_to_model.transform_point)")
    else:
        rule.ok("vertices are moved to model space after the last step that can create one, on both build paths")
    rc = A.find_fn(OCT, "recurse", self_ty="OctreeBuilder", root=root)
    ifs = [i for i in A.find(rc["body"], "If") if "max_depth" in A.unparse(i["cond"])]
    if len(ifs) == 1 and A.norm_cond(str(txt(A.strip(ifs[0]["cond"])))) in ("cell.depth==self.max_depthasusize", "cell.depth==(self.max_depthasusize)", "self.max_depthasusize==cell.depth"):
        rule.ok("leaves are built exactly at max depth (a deeper cell would be a bug, not a leaf)")
    else:
        rule.bad("pool|leaf-depth", "OctreeBuilder::recurse must build leaves exactly when cell.depth == max_depth", A.where(rc))
    cd = A.find_fn(OCT, "check_done", self_ty="Octree", root=root)
    bad = []
    for r_ in A.find(cd["body"], "Return"):
        conds = A.enclosing_conds(cd["body"], r_) or []
        in_scan = any(c.startswith("match self.cells[index]") or c.startswith("match *child") or c.startswith("match child") for c in conds)
        if not in_scan:
            bad.append(r_)
    tail = A.strip(A.stmt_expr(cd["body"]["stmts"][-1]) or {})
    if not bad and A.ident(tail) is not None:
        rule.ok("check_done returns the collapsed cell wherever its children sit in the array")
    else:
        rule.bad("pool|check_done", "Octree::check_done returns `%s` early: a collapsible group must collapse whether or not it is the last entry of `cells` (only the pooled build has groups in the middle)" % (A.unparse(bad[0].get("e") or {})[:40] if bad else "?"), A.where(cd, bad[0] if bad else None))


POOL_SITES = {
    ("fidget-raster/src/lib.rs", "render_tiles"): "the tile fan-out: pooled and serial map over the same tile list, results collected in list order",
    ("fidget-raster/src/lib.rs", "apply_effect"): "per-row image effects (R3b compares the pooled and the serial chunking)",
    ("fidget-mesh/src/octree.rs", "build_inner"): "dispatch to the pooled builder",
    ("fidget-mesh/src/octree.rs", "build_inner_mt"): "the pooled octree build (R4 / R5 check its merge)",
}
_POOL_USE = re.compile(r"thread_count\(|\.run\(\|\||par_iter\(|into_par_iter\(|par_chunks|par_bridge\(|par_sort|rayon::(?:join|scope|spawn)|current_num_threads\(")
_POOL_TEST = re.compile(r"(?:iflet|match|let)Some\(\w+\)=[\w.]*threads\b(?:\(\))?|[\w.]*threads(?:\(\))?\.(?:is_some|is_none|map|map_or|and_then)\(|match[\w.]*threads(?:\(\))?\{")


def r_pool_sites(rule, root=None):
    """who may consult the pool: only the vetted fan-out sites run work on it, ask how many threads it has, or branch
    on whether there is one.  Everything else - in particular the code that assembles the image / mesh from the
    per-tile / per-cell results - is the same code with and without a pool, so it cannot make the result depend on
    the schedule.  Passing the pool along (an argument, a struct field) is not consulting it."""
    import glob as _glob
    import os as _os

    base = root or A.REPO
    seen = set()
    for crate in ("fidget-raster", "fidget-mesh"):
        for full in sorted(_glob.glob(_os.path.join(base, crate, "src", "*.rs"))):
            path = _os.path.relpath(full, base)
            if path.endswith("effects.rs"):
                continue  # screen-space effects, outside the properties' scope
            d = A.load(path, root)
            for f in d["_fns"]:
                if f["_test"] or f.get("body") is None:
                    continue
                t = str(txt(f["body"]))
                m = _POOL_USE.search(t) or _POOL_TEST.search(t)
                if not m:
                    continue
                key = (path, f["name"])
                if key in POOL_SITES:
                    seen.add(key)
                    rule.ok("%s %s consults the pool: %s" % (path, f["name"], POOL_SITES[key]), file=path, line=f["ln"])
                else:
                    rule.bad("pool|site|%s|%s" % (path.split("/")[-1], f["name"]), "%s `%s` consults the thread pool (`%s`): only the vetted fan-out sites may, because code that behaves differently with a pool - a second way of assembling the result, a chunk size taken from the thread count - makes the output depend on the configuration or the schedule" % (path, A.fn_label(f), m.group(0)[:40]), A.where(path, f))
    for key in POOL_SITES:
        if key not in seen:
            rule.skip("%s %s" % key, "vetted pool site no longer consults the pool")


def r_mirror_flag_writers(rule, root=None):
    """the winding flag belongs to the finished octree: it is written in `Octree::build`, after the serial and the
    pooled path have joined, and nowhere else - a copy made by one path only (or merged from per-task octrees) is
    lost or schedule-dependent on the other"""
    d = A.load(OCT, root)
    writers = []
    for f in d["_fns"]:
        if f["_test"] or f.get("body") is None:
            continue
        for a in A.find(f["body"], "Assign"):
            if str(txt(a["left"])).endswith(".mirrored"):
                writers.append((f, a))
        for st in A.find(f["body"], "Struct"):
            if (A.path_segs(st.get("path")) or [None])[-1] in ("Octree", "Self") and any(x["name"] == "mirrored" for x in st.get("fields", [])):
                ow = (f.get("_owner") or {}).get("self_ty")
                if not (ow == "Octree" and f["name"] == "new"):
                    writers.append((f, st))
    if not writers:
        rule.skip("Octree::mirrored", "no writer found (C08.R6 reports a missing orientation flag)", count=True)
        return
    bad = [(f, n) for f, n in writers if not ((f.get("_owner") or {}).get("self_ty") == "Octree" and f["name"] == "build")]
    if bad:
        f, n = bad[0]
        rule.bad("mirror|writer|%s" % f["name"], "`mirrored` is written in %s; it must be set once on the octree `Octree::build` returns, after the serial and pooled paths have joined (a flag carried by a builder or merged from per-task octrees differs between the two paths or between schedules)" % A.fn_label(f), A.where(OCT, n))
    else:
        rule.ok("the winding flag is written only in Octree::build, on the octree both paths return", file=OCT, line=writers[0][1]["ln"])


def r_same_tiles_both_ways(rule, root=None):
    """`render_tiles` fans out over the same tile list with and without a pool: the serial arm and the pooled arm of
    its `match threads` iterate one and the same collection (a tile numbering that is decoded separately for the pool
    is a second definition of the tile grid)"""
    fn = A.find_fn(R.LIB, "render_tiles", root=root)
    ms = [m for m in A.find(fn["body"], "Match") if "threads" in str(txt(m["e"]))]
    bodies = [arm["body"] for arm in ms[0]["arms"]] if ms else []
    if not ms:
        # `if let Some(p) = eval_config.threads() { pooled } else { serial }`
        ifs = [i_ for i_ in A.find(fn["body"], "If") if "threads()" in str(txt(i_["cond"])) and i_.get("else") is not None]
        if ifs:
            ms = ifs
            bodies = [ifs[0]["then"], ifs[0]["else"]]
    if not ms:
        rule.lost("match eval_config.threads() in render_tiles")
        return
    srcs = []
    for body_ in bodies:
        t = str(txt(body_))
        m = re.search(r"([\w.()*+\[\]]+?)\.(?:into_par_iter|par_iter|into_iter|iter)\(\)", t)
        srcs.append(m.group(1) if m else None)
    if len(srcs) == 2 and srcs[0] and srcs[0] == srcs[1]:
        rule.ok("render_tiles maps `%s` serially and on the pool" % srcs[0], file=R.LIB, line=ms[0]["ln"])
    else:
        rule.bad("pool|tiles|source", "render_tiles iterates `%s` without a pool and `%s` with one: both must walk the same tile list, or the image depends on whether a pool is configured" % (srcs[0] if srcs else None, srcs[1] if len(srcs) > 1 else None), A.where(R.LIB, ms[0]))


def r_pool_run_is_transparent(rule, root=None):
    """`ThreadPool::run(f)` runs f - on the custom pool's threads or in place - and does nothing else: no per-thread
    preparation (floating-point control bits, thread-locals) that the pool-less paths, which never call it, would lack"""
    CFG = "fidget-core/src/render/config.rs"
    fn = A.find_fn(CFG, "run", self_ty="ThreadPool", root=root)
    calls = [c["method"] for c in A.find(fn["body"], "MethodCall")] + [(A.path_segs(c["func"]) or ["?"])[-1] for c in A.find(fn["body"], "Call")]
    extra = [c for c in calls if c not in ("install", "f")]
    unsafe = list(A.find(fn["body"], "Unsafe"))
    if extra or unsafe or len(A.stmts_of(fn["body"])) != 1:
        rule.bad("pool|run|extra", "ThreadPool::run does more than run its closure (%s): anything it sets up on the pool's threads is missing when no pool is configured (and stays behind on long-lived threads)" % (", ".join(extra) or "unsafe / extra statements"), A.where(CFG, fn))
    else:
        rule.ok("ThreadPool::run only installs / calls the closure", file=CFG, line=fn["ln"])



def r3d_fresh_tile_buffer(rule, root=None):
    """a worker renders many root tiles one after another (which ones depends on the pool and on scheduling): the
    image it fills for a tile must start blank and be handed back whole - a buffer kept from an earlier tile makes a
    tile's pixels depend on what the same worker rendered before"""
    for path, label in (("fidget-raster/src/voxel.rs", "3D"), ("fidget-raster/src/pixel.rs", "2D")):
        fn = A.find_fn(path, "render_tile", self_ty="Worker", root=root)
        body = fn["body"]
        stmts = A.stmts_of(body)
        # the buffer: the self field that is assigned an Image::new(..)
        fresh = []
        for a_ in A.find(body, "Assign"):
            l_ = str(A.ftxt(a_["left"]))
            if l_.startswith("self.") and "Image::new(" in str(A.ftxt(a_["right"])):
                fresh.append((l_, a_))
        if len(fresh) != 1:
            rule.bad("%s|fresh" % label, "%s render_tile must start every tile from a new blank image (`self.<buffer> = Image::new(..)` exactly once); found %d such assignments" % (label, len(fresh)), A.where(fn))
            continue
        buf, node = fresh[0]
        conds = A.enclosing_conds(body, node) or []
        top = any((A.stmt_expr(s_) is not None and A.strip(A.stmt_expr(s_)) is node) for s_ in stmts)
        first_use = None
        for i_, s_ in enumerate(stmts):
            if A.stmt_expr(s_) is not None and A.strip(A.stmt_expr(s_)) is node:
                first_use = i_
        if conds or not top:
            rule.bad("%s|conditional" % label, "%s render_tile re-creates its tile image only under `%s`: a buffer kept from the previous tile carries that tile's pixels (and its `already filled` state) into this one" % (label, " && ".join(conds) or "a nested block"), A.where(path, node))
            continue
        # nothing that renders runs before it
        early = [c for s_ in stmts[: first_use or 0] for c in A.find(s_, "MethodCall") if c["method"].startswith("render_tile")]
        if early:
            rule.bad("%s|order" % label, "%s render_tile renders before it resets its tile image" % label, A.where(path, node))
            continue
        rule.ok("%s worker: every root tile starts from a new blank image" % label, file=path, line=node["ln"])
        res = [str(A.ftxt(l_)) for l_, _c in A.result_cases(body)]
        want = "std::mem::take(&mut%s)" % buf
        if res and all(r_ in (want, "mem::take(&mut%s)" % buf, "std::mem::replace(&mut%s,Image::default())" % buf, "std::mem::replace(&mut%s,Default::default())" % buf) for r_ in res):
            rule.ok("%s worker: the tile's image is handed back whole on every path" % label, file=path, line=fn["ln"])
        else:
            rule.bad("%s|result" % label, "%s render_tile must return the image it filled on every path (`%s`); found %s - a tile answered with an empty image loses what the interval fast paths filled in" % (label, want, res), A.where(fn))

def run(ctx):
    r = ctx.rule("R1", "an abort originates only from the cancel token (or a child's abort) and turns the whole result into None", 16)
    ctx.guarded(r, r1_cancellation)
    r = ctx.rule("R1d", "a cancel token sent through a raw pointer carries its own reference count there and back", 2)
    ctx.guarded(r, r_token_raw)
    r = ctx.rule("R1e", "the cancel token is consulted only where a set token becomes an abort", 2)
    ctx.guarded(r, r_token_consumers)
    r = ctx.rule("R3c", "nothing derived from the thread pool reaches the tiling parameters", 2)
    ctx.guarded(r, r_pool_free_parameters)
    r = ctx.rule("R3d", "only the vetted fan-out sites consult the pool (run work on it, ask its size, branch on its presence); result assembly is the same code with and without one; the winding flag is written where both meshing paths have joined; the fan-out walks one tile list both ways; ThreadPool::run only runs the closure", 4 + 1 + 2)
    ctx.guarded(r, r_pool_sites)
    ctx.guarded(r, r_mirror_flag_writers)
    ctx.guarded(r, r_same_tiles_both_ways)
    ctx.guarded(r, r_pool_run_is_transparent)
    r = ctx.rule("R1c", "the pooled meshing path is reached only with inputs for which every task has a parent slot", 1)
    ctx.guarded(r, r1c_mt_precondition)
    r = ctx.rule("R2", "shared-state inventory: vetted unsafe Send/Sync, only the cancel flag is interiorly mutable, JIT handles immutable", 14)
    ctx.guarded(r, r2_shared_state)
    r = ctx.rule("R3", "per-thread state comes from map_init; results are keyed by tile / cell, not by arrival", 6)
    ctx.guarded(r, r3_per_thread_state)
    r = ctx.rule("R3b", "pooled and serial image post-processing chunk the buffer identically", 3)
    ctx.guarded(r, R.r_effect_siblings)
    r = ctx.rule("R3e", "a render worker starts every root tile from a new blank image and hands it back whole (no buffer carried from tile to tile)", 4)
    ctx.guarded(r, r3d_fresh_tile_buffer)
    r = ctx.rule("R4", "multithreaded merge offsets (= C08.R2)", 12)
    ctx.guarded(r, r2_merge_offsets)
    r = ctx.rule("R5", "a pooled build splits and collapses exactly like the serial one (split bound, leaf depth, collapse anywhere in the array)", 3)
    ctx.guarded(r, r5_pool_independence)
    r = ctx.rule("R2f", "[resolved program] Send/Sync unsafe impls equal the vetted seven; JIT handles and VarMap are never written after construction", 8)
    ctx.guarded(r, FR.send_sync_inventory, ctx)
