"""C06 - 2D rendering equals per-pixel evaluation (structural part)."""
from .. import raster as R
from .. import shapecore as SC


def run(ctx):
    r = ctx.rule("R1", "a tile is filled inside only under upper() < 0, outside only under lower() > 0, never in pixel-perfect mode", 3)
    ctx.guarded(r, R.r_fill_sign_pixel)
    r = ctx.rule("R2", "children and pixels are evaluated with the handle simplified by this tile's own trace", 2)
    ctx.guarded(r, R.r_trace_use, R.PIX, "pixel")
    r = ctx.rule("R3", "tiles cover the image: root grid, children, tile-size list, assembly bounds", 15)
    ctx.guarded(r, R.r_root_tiles)
    ctx.guarded(r, R.r_children, R.PIX, "pixel", 2)
    ctx.guarded(r, R.r_tile_sizes)
    ctx.guarded(r, R.r_assembly_pixel)
    r = ctx.rule("R4", "pixel (i, j) is sampled at (corner.x + i, corner.y + j, slice z); tile boxes and fills cover the tile", 11)
    ctx.guarded(r, R.r_samples_pixel)
    r = ctx.rule("R5", "the tile's box goes through the view as an interval: Transformable for Interval is the homogeneous interval transform, and samples / normals go through its f32 / Grad siblings", 4)
    ctx.guarded(r, lambda rule: SC.r_transformable(rule, ("Interval", "f32")))
    r = ctx.rule("R6", "sample positions follow the documented screen-to-world map, and the 2D view is widened to 4x4 without losing an entry", 7)
    ctx.guarded(r, R.r_view_convention)
    ctx.guarded(r, R.r_widen_2d)
    # "evaluating simplified tapes inside tiles must be unobservable": the tile's simplified tape is the original
    # restricted by the trace (C04's rules, read here because a 2D render is where a wrong simplification shows)
    from .. import simplify as S_

    r = ctx.rule("R7", "tile simplification is sound: one choice consumed per choice op, Left / Right keep the first / second operand, survivors are renamed through the remap table", 53 + 8 + 44)
    ctx.guarded(r, lambda rule: S_.r1_choice_consumption(rule))
    ctx.guarded(r, S_.r2_left_right)
    ctx.guarded(r, S_.r_renaming)
    r = ctx.rule("R8", "the NaN-boxed pixel: a distance is inside exactly under `v < 0.0` (a NaN of either sign is outside), a fill by its own flag; writer and reader agree on the bit fields and the key", 6)
    ctx.guarded(r, R.r_pixel_boxing)
    # this property quantifies over every shape and both backends, so it needs the evaluators it consults to be right
    ctx.include('C03', 'tiles are skipped on interval evidence', skip=('R6',))
    ctx.include('C04', 'tiles are rendered with simplified tapes', skip=())
    ctx.include('C20', "the trace a tile hands down must be the evaluation's own record", skip=())
    ctx.include('C01', 'pixels are evaluated by the tape evaluators', skip=())
    ctx.include('C02', 'pixels are evaluated by the native evaluators', skip=())
