"""C06 - 2D rendering equals per-pixel evaluation (structural part)."""
from .. import raster as R
from .. import shapecore as SC


def run(ctx):
    r = ctx.rule("R1", "a tile is filled inside only under upper() < 0, outside only under lower() > 0, never in pixel-perfect mode", 3)
    ctx.guarded(r, R.r_fill_sign_pixel)
    r = ctx.rule("R2", "children and pixels are evaluated with the handle simplified by this tile's own trace", 2)
    ctx.guarded(r, R.r_trace_use, R.PIX, "pixel")
    r = ctx.rule("R3", "tiles cover the image: root grid, children, tile-size list, assembly bounds", 15)
    ctx.guarded(r, R.r_root_tiles)
    ctx.guarded(r, R.r_children, R.PIX, "pixel", 2)
    ctx.guarded(r, R.r_tile_sizes)
    ctx.guarded(r, R.r_assembly_pixel)
    r = ctx.rule("R4", "pixel (i, j) is sampled at (corner.x + i, corner.y + j, slice z); tile boxes and fills cover the tile", 11)
    ctx.guarded(r, R.r_samples_pixel)
    r = ctx.rule("R5", "the tile's box goes through the view as an interval: Transformable for Interval is the homogeneous interval transform, and samples / normals go through its f32 / Grad siblings", 4)
    ctx.guarded(r, lambda rule: SC.r_transformable(rule, ("Interval", "f32")))
    r = ctx.rule("R6", "sample positions follow the documented screen-to-world map, and the 2D view is widened to 4x4 without losing an entry", 7)
    ctx.guarded(r, R.r_view_convention)
    ctx.guarded(r, R.r_widen_2d)
