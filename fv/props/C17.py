"""C17 - scripts build the same expressions as the Rust API (structural part)."""
import re

from .. import ast as A

TREE = "fidget-rhai/src/tree.rs"
SHAPES = "fidget-rhai/src/shapes.rs"
TYPES = "fidget-rhai/src/types.rs"
CONSTS = "fidget-rhai/src/constants.rs"
LIB = "fidget-rhai/src/lib.rs"

OP_NAMES = {"+": "add", "-": "sub", "*": "mul", "/": "div", "%": "modulo"}
STD_OPS = {"add": "Add", "sub": "Sub", "mul": "Mul", "div": "Div"}


def txt(n):
    return A.ftxt(n)


def tok(ts):
    return A.tokens_str(ts).replace(" ", "")


def macro_invocations(path, name, root=None):
    d = A.load(path, root)
    out = []
    for m in A.find(d["items"], "Macro"):
        if m.get("name") == name and not m.get("def"):
            out.append(m)
    return out


def split_args(tokens):
    args, cur = [], []
    for t in tokens:
        if t["t"] == "p" and t["s"] == ",":
            args.append(cur)
            cur = []
        else:
            cur.append(t)
    if cur:
        args.append(cur)
    return args


def r1_operator_tables(rule, root=None):
    reg_bin = {}
    for m in macro_invocations(TREE, "register_binary_fns", root):
        a = split_args(m["tokens"])
        op = a[0][0]["s"].strip('"')
        name = a[1][0]["s"]
        reg_bin[op] = (name, m)
    reg_un = {}
    for m in macro_invocations(TREE, "register_unary_fns", root):
        a = split_args(m["tokens"])
        reg_un[a[0][0]["s"].strip('"')] = (a[1][0]["s"], m)
    if len(reg_bin) < 12 or len(reg_un) < 17:
        rule.lost("operator registrations in %s (found %d binary, %d unary)" % (TREE, len(reg_bin), len(reg_un)))
    for op, (name, m) in sorted(reg_bin.items()):
        want = OP_NAMES.get(op, op)
        if name == want:
            rule.ok('binary "%s" is registered to %s' % (op, name), file=TREE, line=m["ln"])
        else:
            rule.bad("reg|bin|%s" % op, 'the script operator/function "%s" is registered to `%s`; it must build `%s`' % (op, name, want), "%s:%d" % (TREE, m["ln"]))
    for op, (name, m) in sorted(reg_un.items()):
        want = "neg" if op == "-" else op
        if name == want:
            rule.ok('unary "%s" is registered to %s' % (op, name), file=TREE, line=m["ln"])
        else:
            rule.bad("reg|un|%s" % op, 'the script function "%s" is registered to `%s`; it must build `%s`' % (op, name, want), "%s:%d" % (TREE, m["ln"]))
    # every registered name has its module defined, with the right std::ops trait
    defs_bin = {}
    for m in macro_invocations(TREE, "define_binary_fns", root):
        a = split_args(m["tokens"])
        defs_bin[a[0][0]["s"]] = a[1][0]["s"] if len(a) > 1 else None
    defs_un = {split_args(m["tokens"])[0][0]["s"] for m in macro_invocations(TREE, "define_unary_fns", root)}
    for name in sorted({n for n, _ in reg_bin.values()}):
        if name not in defs_bin:
            rule.bad("def|bin|%s" % name, "`%s` is registered but define_binary_fns!(%s) is missing" % (name, name), TREE)
        elif defs_bin[name] != STD_OPS.get(name):
            rule.bad("def|bin|%s|op" % name, "define_binary_fns!(%s, %s): the operator trait must be %s" % (name, defs_bin[name], STD_OPS.get(name)), TREE)
        else:
            rule.ok("define_binary_fns!(%s%s)" % (name, ", " + defs_bin[name] if defs_bin[name] else ""))
    for name in sorted({n for n, _ in reg_un.values()}):
        if name in defs_un:
            rule.ok("define_unary_fns!(%s)" % name)
        else:
            rule.bad("def|un|%s" % name, "`%s` is registered but define_unary_fns!(%s) is missing" % (name, name), TREE)
    # macro bodies
    mdefs = {m["def"]: m for m in A.find(A.load(TREE, root)["items"], "Macro") if m.get("def")}
    body = tok(mdefs["define_binary_fns"]["tokens"]) if "define_binary_fns" in mdefs else ""
    # parameter / local names are free (named groups); what is fixed is which operand is coerced and
    # that the operator is applied as first.$name(second), the operands in source order
    RES = r"->Result<Tree,Box<(?:rhai::)?EvalAltResult>>"
    want_td = r"pubfntree_dyn\(ctx:NativeCallContext,(?P<a>\w+):Tree,(?P<b>\w+):rhai::Dynamic,?\)" + RES + r"\{let(?P<c>\w+)=Tree::from_dynamic\(&ctx,(?P=b),None\)\?;Ok\((?P=a)\.\$name\((?P=c)\)\)\}"
    want_dt = r"pubfndyn_tree\(ctx:NativeCallContext,(?P<a>\w+):rhai::Dynamic,(?P<b>\w+):Tree,?\)" + RES + r"\{let(?P<c>\w+)=Tree::from_dynamic\(&ctx,(?P=a),None\)\?;Ok\((?P=c)\.\$name\((?P=b)\)\)\}"
    for what, frag in (("tree_dyn(a: Tree, b: dynamic) builds a.op(b)", want_td), ("dyn_tree(a: dynamic, b: Tree) builds a.op(b) (number on the left keeps source order)", want_dt)):
        if re.search(frag, body):
            rule.ok("define_binary_fns: %s" % what, file=TREE, line=mdefs["define_binary_fns"]["ln"])
        else:
            rule.bad("macro|bin|%s" % what[:8], "define_binary_fns: %s - the overload must coerce its dynamic operand and call a.$name(b) with operands in source order" % what, "%s:%d" % (TREE, mdefs.get("define_binary_fns", {}).get("ln", 0)))
    body = tok(mdefs["define_unary_fns"]["tokens"]) if "define_unary_fns" in mdefs else ""
    if re.search(r"pubfntree\(ctx:NativeCallContext,(?P<a>\w+):rhai::Dynamic,?\)->Result<Tree,Box<(?:rhai::)?EvalAltResult>>\{let(?P<c>\w+)=Tree::from_dynamic\(&ctx,(?P=a),None\)\?;Ok\((?P=c)\.\$name\(\)\)\}", body):
        rule.ok("define_unary_fns: coerces its operand and calls a.$name()")
    else:
        rule.bad("macro|un", "define_unary_fns must coerce its operand and call a.$name()", TREE)
    reg = A.find_fn(TREE, "register", root=root)
    rb = [m for m in A.find(reg["body"], "Macro") if m.get("def") == "register_binary_fns"]
    if rb and tok(rb[0]["tokens"]).count("$engine.register_fn($op,$name::tree_dyn);$engine.register_fn($op,$name::dyn_tree);") == 1:
        rule.ok("register_binary_fns registers both overloads under the same operator")
    else:
        rule.bad("macro|reg-bin", "register_binary_fns must register $name::tree_dyn and $name::dyn_tree under $op", A.where(reg))
    # axes(): the map #{x, y, z} of the coordinate trees
    ax_calls = [c for c in A.find(reg["body"], "MethodCall") if c["method"] == "register_fn" and c["args"] and str(A.ftxt(c["args"][0])) == '"axes"']
    if len(ax_calls) != 1:
        rule.lost('the registration of "axes" in tree::register')
    else:
        ins = {}
        for c in A.find(ax_calls[0]["args"][1], "MethodCall"):
            if c["method"] == "insert" and len(c["args"]) == 2:
                k_ = re.match(r'"(\w)"', str(A.ftxt(c["args"][0])))
                v_ = re.search(r"Tree::(\w)\(\)", str(A.ftxt(c["args"][1])))
                if k_:
                    ins[k_.group(1)] = v_.group(1) if v_ else "?"
        if ins == {"x": "x", "y": "y", "z": "z"}:
            rule.ok("axes() maps x, y, z to Tree::x(), Tree::y(), Tree::z()", file=TREE, line=ax_calls[0]["ln"])
        else:
            rule.bad("axes|map", "axes() builds the map %s; each of x, y, z must be its own coordinate tree" % ins, A.where(reg, ax_calls[0]))
    # comparison ban: every comparison operator is registered to rejecting functions covering (Tree, other) and
    # (other, Tree); read from the registrations themselves, however the loop and the functions are spelled
    regs = []
    for c in A.find(reg["body"], "MethodCall"):
        if c["method"] == "register_fn" and len(c["args"]) == 2:
            ref = A.unparse(c["args"][1]).replace(" ", "")
            if ref.split("::")[0].startswith("bad_cmp"):
                regs.append((c, ref))
    if not regs:
        rule.lost("the comparison-ban registrations in tree::register")
    else:
        op_sources = set()
        for c, ref in regs:
            v = A.ident(A.strip(c["args"][0]))
            bs = [b for b in (A.enclosing_binders(reg["body"], c) or []) if b[0] == v]
            op_sources.add(bs[-1][1] if bs else "?")
        ops = None
        if len(op_sources) == 1 and "?" not in op_sources:
            src = op_sources.pop()
            m_ = re.search(r"\[([^\]]*)\]", src)
            if m_:
                ops = sorted(x.strip().strip('"') for x in m_.group(1).split(","))
            else:
                nm = re.match(r"\(?&?(\w+)", src)
                for it in A.load(TREE, root).get("items", []):
                    if nm and it.get("k") in ("Const", "Static") and it.get("name") == nm.group(1) and it.get("e") is not None:
                        arr = A.strip(it["e"])
                        while arr.get("k") == "Ref":
                            arr = A.strip(arr["e"])
                        ops = sorted(e["v"] for e in arr.get("elems", []) if e.get("k") == "Lit")
        want = sorted(["==", "!=", "<", ">", "<=", ">="])
        if ops == want:
            rule.ok("all six comparison operators are banned on trees", file=TREE, line=regs[0][0]["ln"])
        else:
            rule.bad("cmp|ops", "comparison operators registered to the rejecting functions are %s; Rhai needs exactly %s (an unregistered comparison silently evaluates to false)" % (ops, want), A.where(reg, regs[0][0]))
        pairs = []
        for c, ref in regs:
            mm = re.match(r"(\w+)(?:::<(.*)>)?$", ref)
            name = mm.group(1) if mm else ref
            targs = [t_.strip() for t_ in (mm.group(2) or "").split(",")] if mm and mm.group(2) else []
            f = A.find_fn(TREE, name, root=root)
            gen = re.findall(r"\b([A-Z]\w*)\b(?=\s*[,>:])", str(f["sig"].get("generics") or ""))
            sub = dict(zip(gen, targs))
            tys = [str(p.get("ty") or "").replace(" ", "") for p in f["sig"]["inputs"] if "pat" in p]
            tys = [sub.get(t_, t_).split("::")[-1] for t_ in tys]
            pairs.append(tuple(t_ for t_ in tys if t_ != "NativeCallContext"))
            res = A.result_cases(A.inline_helpers(f)) if f.get("body") else []
            if res and all(A.strip(v_).get("k") == "Call" and A.path_segs(A.strip(v_)["func"]) == ["Err"] for v_, _c in res):
                rule.ok("%s returns an error" % name)
            else:
                rule.bad("cmp|%s" % name, "%s must return an error" % name, A.where(f))
        if sorted(set(pairs)) == sorted([("Tree", "Dynamic"), ("Dynamic", "Tree")]) and len(pairs) == 2:
            rule.ok("both operand orders are rejected")
            rule.ok("the two rejecting overloads take (Tree, dynamic) and (dynamic, Tree): a comparison with the tree on either side is an error")
        else:
            rule.bad("cmp|signatures", "the rejecting comparison overloads registered have operand types %s; Rhai dispatches on them, so (Tree, Dynamic) and (Dynamic, Tree) must both be registered for every operator - with one missing, `0 < tree` silently evaluates to false" % sorted(pairs), "%s" % TREE)
    # Tree coercion: tree, then number -> constant, then array -> union
    d = A.load(TREE, root)
    fd = [f for f in d["_fns"] if f["name"] == "from_dynamic" and (f.get("_owner") or {}).get("self_ty") == "Tree"]
    t = txt(fd[0]["body"]) if fd else ""
    i1, i2, i3 = t.find("try_cast::<Tree>()"), t.find("Ok(Tree::constant(v))"), t.find("Ok(fidget_shapes::Union{input:v}.into())")
    if 0 <= i1 < i2 < i3:
        rule.ok("Tree::from_dynamic: a tree is itself, a number a constant, an array of trees their union")
    else:
        rule.bad("coerce|tree", "Tree::from_dynamic must try Tree, then number -> Tree::constant, then array -> Union", "%s:%s" % (TREE, fd[0]["ln"] if fd else "?"))
    for fname, z in (("remap_xyz", "z"), ("remap_xy", "Tree::z()")):
        f = A.find_fn(TREE, fname, root=root)
        if "Ok(shape.remap_xyz(x,y,%s))}" % z in txt(f["body"]):
            rule.ok("%s passes (x, y, %s) in order" % (fname, z))
        else:
            rule.bad("remap|%s" % fname, "%s must call shape.remap_xyz(x, y, %s)" % (fname, z), A.where(f))


def _field_loop(fn):
    loops = [l for l in A.find(fn["body"], "For") if txt(l["iter"]) == "shape.fields.iter().enumerate()"]
    if len(loops) != 1:
        raise A.AnchorLost("`for (i, f) in shape.fields.iter().enumerate()` in %s" % fn["name"])
    return loops[0]


def _is_tree_test(c):
    t = str(txt(A.strip(c)))
    while t.startswith("(") and t.endswith(")") and not t.startswith("matches!"):
        t = t[1:-1]
    return t in ("matches!(tag,Type::Tree)", "tag==Type::Tree", "Type::Tree==tag")


def _split_tree_branch(loop):
    """-> (statements of the Tree-field branch, statements every other field goes through): the branch is
    `if <tag is Tree> {..; continue}` followed by the rest, or `if <tag is Tree> {..} else {rest}`"""
    stmts = loop["body"]["stmts"]
    for idx, s in enumerate(stmts):
        e = A.strip(A.stmt_expr(s) or {}) if s.get("k") != "Let" else {}
        if e.get("k") == "If" and _is_tree_test(e["cond"]):
            then = list(e["then"]["stmts"])
            if e.get("else") is not None and A.strip(e["else"]).get("k") == "Block":
                return then, stmts[:idx] + list(A.strip(e["else"])["stmts"]) + stmts[idx + 1:]
            return then, stmts[:idx] + stmts[idx + 1:]
    return None, list(stmts)


def _value_steps(loop, skip_tree=False):
    """the statements that turn field f into a Value, normalised"""
    if skip_tree:
        _then, rest = _split_tree_branch(loop)
        return [txt(s) for s in rest]
    return [txt(s) for s in loop["body"]["stmts"]]


def r2_sibling_builders(rule, root=None):
    a0 = A.find_fn(SHAPES, "build_from_map", root=root)
    b0 = A.find_fn(SHAPES, "build_transform", root=root)
    # read with same-file helpers expanded in place: a shared `field_from_map` is the same steps
    a, b = dict(a0), dict(b0)
    a["body"], b["body"] = A.inline_helpers(a0, keep=("build_tagged_value",)), A.inline_helpers(b0, keep=("build_tagged_value",))
    sa = _value_steps(_field_loop(a))
    sb = _value_steps(_field_loop(b), skip_tree=True)
    if sa == sb:
        rule.ok("build_from_map and build_transform derive every non-tree field the same way (default as hint when given, default when absent, error otherwise)", file=SHAPES, line=b["ln"])
    else:
        diff = [(x, y) for x, y in zip(sa, sb) if x != y][:1]
        rule.bad("siblings|fields", "build_transform (chained / tree-first form) and build_from_map (map form) build a field differently: %s - both forms of one constructor must honour defaults identically" % (diff or [(len(sa), len(sb))]), A.where(b))
    for fn in (a, b):
        lt = txt(_field_loop(fn)["body"])
        md = lt.fmatch("let$D=f.default.map(|$F|unsafe{tag.build_from_default_fn($F)});")
        facts = [("default computed from the field's own default fn", md is not None)]
        chain = None
        if md is not None:
            for alt in (
                "ifletSome($V)=m.get(f.name).cloned(){build_tagged_value(tag,&ctx,$V,$D)?}elseifletSome($W)=$D{$W}else{returnErr(",
                "ifletSome($V)=m.get(f.name).cloned(){build_tagged_value(tag,ctx,$V,$D)}elseifletSome($W)=$D{Ok($W)}else{Err(",
                "ifletSome($V)=m.get(f.name).cloned(){build_tagged_value(tag,&ctx,$V,$D)}elseifletSome($W)=$D{Ok($W)}else{Err(",
            ):
                chain = lt.fmatch(alt, bind={"$D": md["$D"]})
                if chain is not None:
                    break
        facts.append(("a given key is converted with the default as hint; an absent key falls back to the default; neither is an error", chain is not None))
        facts.append(("the value lands in field i", lt.fmatch("builder=$X.put(builder,i);") is not None))
        for what, okf in facts:
            if okf:
                rule.ok("%s: %s" % (fn["name"], what))
            else:
                rule.bad("%s|%s" % (fn["name"], what[:20]), "%s: %s (not found in the per-field loop)" % (fn["name"], what), A.where(fn))
        tt = txt(fn["body"])
        if "forkinm.keys(){if!shape.fields.iter().any(|p|(p.name==k.as_str())){returnErr(" in tt or "forkinm.keys(){ifshape.fields.iter().all(|p|(p.name!=k.as_str())){returnErr(" in tt:
            rule.ok("%s rejects unknown keys" % fn["name"])
        else:
            rule.bad("%s|unknown" % fn["name"], "%s must reject map keys that are not fields" % fn["name"], A.where(fn))
    tt = txt(b["body"])
    try:
        then_, _rest = _split_tree_branch(_field_loop(b))
    except A.AnchorLost:
        then_ = None
    tb = "".join(str(txt(s_)) for s_ in (then_ or []))
    if tb in ("lett=t.take().unwrap();builder=builder.set_nth_field(i,t).unwrap();continue;", "lett=t.take().unwrap();builder=builder.set_nth_field(i,t).unwrap();"):
        rule.ok("build_transform puts the piped tree into the (single) Tree field")
    else:
        rule.bad("build_transform|tree", "build_transform must put its tree argument into the Tree field", A.where(b))
    # build_tagged_value: tag -> namesake Value
    f = A.find_fn(SHAPES, "build_tagged_value", root=root)
    ms = list(A.find(f["body"], "Match"))
    bad = []
    n = 0
    for arm in ms[0]["arms"] if ms else []:
        pv = txt(arm["pat"]).replace("Type::", "")
        m = re.search(r"Value::(\w+)\)", txt(arm["body"]))
        n += 1
        if not m or m.group(1) != pv:
            bad.append((pv, m.group(1) if m else None))
    if n >= 8 and not bad:
        rule.ok("build_tagged_value converts each Type tag to its namesake Value (%d tags)" % n)
    else:
        rule.bad("tagged", "build_tagged_value maps tags to other values: %s" % bad, A.where(f))
    f = A.find_fn(SHAPES, "build_binary", root=root)
    t = txt(f["body"])
    if _binary_fields(f) == {0: 0, 1: 1}:
        rule.ok("build_binary fills (a, b) into fields (0, 1) in order")
    else:
        rule.bad("build_binary", "build_binary must put its first argument into field 0 and its second into field 1", A.where(f))


def _binary_fields(f):
    """{field index: which of the two script arguments (0 / 1) is converted into it} for build_binary, however the
    builder calls are strung together; None when a store cannot be traced to one argument"""
    dyn = [A.binding_name(i["pat"]) for i in f["sig"]["inputs"] if "pat" in i and "Dynamic" in i["ty"]]
    if len(dyn) != 2:
        return None
    lets = {}
    for s_ in A.find(f["body"], "Let"):
        n = A.binding_name(s_["pat"])
        if n and s_.get("init") is not None:
            lets.setdefault(n, []).append(s_["init"])
    out = {}
    for c in A.find(f["body"], "MethodCall"):
        if c["method"] != "set_nth_field" or len(c["args"]) != 2:
            continue
        ix = A.strip(c["args"][0])
        if ix.get("k") != "Lit" or ix.get("ty") != "int":
            return None
        v = A.strip(c["args"][1])
        seen = 0
        while v.get("k") == "Path" and len(v["segs"]) == 1 and len(lets.get(v["segs"][0], [])) == 1 and seen < 4:
            v = A.strip(lets[v["segs"][0]][0])
            seen += 1
        while v.get("k") in ("Try", "Paren"):
            v = A.strip(v["e"])
        if v.get("k") != "Call" or (A.path_segs(v["func"]) or [""])[-1] != "from_dynamic" or "Tree" not in A.unparse(v["func"]) or len(v["args"]) < 2:
            return None
        src = A.ident(A.strip(v["args"][1]))
        if src not in dyn or int(str(ix["v"])) in out:
            return None
        out[int(str(ix["v"]))] = dyn.index(src)
    return out


def _pat_matches_len(p, L):
    """does a pattern over `array.len()` accept L?  -> (bool, name bound to the length or None)"""
    k = p.get("k")
    if k == "PLit":
        return A.lit_value(p["lit"]) == L, None
    if k == "POr":
        return any(_pat_matches_len(x, L)[0] for x in A.flatten_or(p)), None
    if k == "PIdent":
        if p.get("sub"):
            return _pat_matches_len(p["sub"], L)[0], p["name"]
        return True, p["name"]
    if k == "PWild":
        return True, None
    if k == "PRange":
        lo = A.lit_value(p["start"]) if p.get("start") else None
        hi = A.lit_value(p["end"]) if p.get("end") else None
        return (lo is None or lo <= L) and (hi is None or (L <= hi if p.get("closed") else L < hi)), None
    raise ValueError("pattern %s" % A.unparse(p))


def _vec_fields_for_len(fn, L):
    """{field: text of the expression that ends up in it} for an array of length L"""
    ms = [m for m in A.find(fn["body"], "Match") if str(txt(m["e"])) == "array.len()"]
    if len(ms) != 1:
        raise ValueError("no `match array.len()`")
    for arm in ms[0]["arms"]:
        okp, nm = _pat_matches_len(arm["pat"], L)
        if not okp:
            continue
        env = {nm: L} if nm else {}
        lets = {}
        for s_ in A.stmts_of(arm["body"]):
            if s_.get("k") == "Let" and A.binding_name(s_["pat"]):
                lets[A.binding_name(s_["pat"])] = s_["init"]

        def val(e):
            e = A.strip(e)
            if A.ident(e) in lets:
                return val(lets[A.ident(e)])
            if e.get("k") == "If" and e.get("else") is not None:
                c = A.strip(e["cond"])
                if c.get("k") == "Binary" and c["op"] in ("==", "!=", "<", ">", "<=", ">="):
                    l, r = A.strip(c["left"]), A.strip(c["right"])
                    lv = env.get(A.ident(l), A.lit_value(l))
                    rv = env.get(A.ident(r), A.lit_value(r))
                    if lv is None or rv is None:
                        raise ValueError("condition %s" % A.unparse(c))
                    t_ = {"==": lv == rv, "!=": lv != rv, "<": lv < rv, ">": lv > rv, "<=": lv <= rv, ">=": lv >= rv}[c["op"]]
                    br = e["then"] if t_ else e["else"]
                    br = A.strip(br)
                    if br.get("k") == "Block":
                        br = A.stmt_expr(br["stmts"][-1])
                    return val(br)
                raise ValueError("condition %s" % A.unparse(c))
            return str(txt(e))

        st = [x for x in A.find(arm["body"], "Struct") if (A.path_segs(x["path"]) or [None])[-1] in ("Vec3", "Vec2", "Self")]
        if len(st) != 1:
            raise ValueError("no single Vec literal in the arm for length %d" % L)
        return {x["name"]: val(x["e"]) for x in st[0]["fields"]}
    raise ValueError("no arm accepts length %d" % L)


def r3_coercions(rule, root=None):
    for name, comps in (("vec2_from_rhai_array", "xy"),):
        f = A.find_fn(TYPES, name, root=root)
        t = txt(f["body"])
        ok = True
        for i, c in enumerate(comps):
            if "let%s=f32::from_dynamic(ctx,array[%d].clone(),None)?;" % (c, i) not in t:
                ok = False
        if ok:
            rule.ok("%s: array element i becomes component %s" % (name, "/".join(comps)), file=TYPES, line=f["ln"])
        else:
            rule.bad("array|%s" % name, "%s must read component %s from array element %s" % (name, list(comps), list(range(len(comps)))), A.where(f))
    # vec3 from a 2- or 3-element array, per length (however the arms are split or merged):
    #   x, y from elements 0, 1; z from element 2 when there are three, from the default otherwise
    f = A.find_fn(TYPES, "vec3_from_rhai_array", root=root)
    got = {}
    for L in (2, 3):
        try:
            got[L] = _vec_fields_for_len(f, L)
        except (KeyError, ValueError, TypeError, IndexError, AttributeError) as e:
            got[L] = {"error": str(e)}
    el = lambda i: "f32::from_dynamic(ctx,array[%d].clone(),None)?" % i
    dz = re.compile(r"default\.map\(\|(\w+)\|\1\.z\)\.unwrap_or\(0\.0\)")
    ok3 = got[3].get("x") == el(0) and got[3].get("y") == el(1) and got[3].get("z") == el(2)
    ok2 = got[2].get("x") == el(0) and got[2].get("y") == el(1) and bool(dz.fullmatch(got[2].get("z", "")))
    if ok3:
        rule.ok("vec3 from a 3-element array: element i becomes component x/y/z")
    else:
        rule.bad("array|vec3|three", "a 3-element array must give (array[0], array[1], array[2]); found %s" % got[3], A.where(f))
    if ok2:
        rule.ok("a 2-element array promoted to Vec3 takes z from the field's default (else 0)")
    else:
        rule.bad("array|vec3|promote", "a 2-element array promoted to a Vec3 must take x, y from its elements and z from the default; found %s" % got[2], A.where(f))
    d = A.load(TYPES, root)
    fd = {(f.get("_owner") or {}).get("self_ty"): f for f in d["_fns"] if f["name"] == "from_dynamic" and not f["_test"]}
    v3 = fd.get("Vec3")
    t = txt(v3["body"]) if v3 else ""
    okp = False
    if v3:
        # the Vec2 -> Vec3 promotion, read with naming lets folded; `unwrap_or` / `map_or` are the same default
        for st_ in A.find(v3["body"], "Struct"):
            if (A.path_segs(st_["path"]) or [None])[-1] not in ("Vec3", "Self"):
                continue
            f_ = {x["name"]: A.resolve_locals(v3["body"], x["e"]) for x in st_["fields"]}
            pats_ = [(p_, s_) for p_, s_ in (A.enclosing_patterns(v3["body"], st_) or [])]
            zt = f_.get("z", "")
            zok = bool(re.fullmatch(r"default\.map\(\|(\w+)\|\1\.z\)\.unwrap_or\(0\.0\)", zt) or re.fullmatch(r"default\.map_or\(0\.0,\|(\w+)\|\1\.z\)", zt))
            mv = re.fullmatch(r"(\w+)\.x", f_.get("x", ""))
            if zok and mv and f_.get("y") == "%s.y" % mv.group(1):
                okp = True
        if not okp:
            # the folded copy has no scope for enclosing_patterns; accept the literal spelling too
            okp = "Ok(Vec3{x:v.x,y:v.y,z:default.map(|d|d.z).unwrap_or(0.0)})" in t
        okp = okp and "Vec2::from_dynamic(ctx,d.clone(),None)" in t
    if okp and "vec3_from_rhai_array(ctx,array,default)" in t:
        rule.ok("Vec3::from_dynamic: a Vec2 is promoted with z from the default; arrays get the default as hint")
    else:
        rule.bad("vec3|from_dynamic", "Vec3::from_dynamic must promote a Vec2 as (x, y, default.z) and pass the default on to the array conversion", A.where(v3) if v3 else TYPES)
    v4 = fd.get("Vec4")
    t = txt(v4["body"]) if v4 else ""
    if all("let%s=f32::from_dynamic(ctx,array[%d].clone(),None)?;" % (c, i) in t for i, c in enumerate("xyzw")):
        rule.ok("Vec4::from_dynamic: array element i becomes component x/y/z/w")
    else:
        rule.bad("vec4|from_dynamic", "Vec4::from_dynamic must read x, y, z, w from elements 0..3", A.where(v4) if v4 else TYPES)
    ax = fd.get("Axis")
    good = 0
    for m in A.find(ax["body"], "Match") if ax else []:
        for arm in m["arms"]:
            pats = [p for p in A.flatten_or(arm["pat"]) if p.get("k") == "PLit"]
            if not pats:
                continue
            names = {p["lit"]["v"].upper() for p in pats}
            body = txt(arm["body"])
            if len(names) == 1 and body == "Some(Axis::%s)" % names.pop():
                good += 1
            else:
                rule.bad("axis|%s" % txt(arm["pat"]), "the axis name %s maps to `%s`" % (txt(arm["pat"]), body), A.where(TYPES, arm))
    # a bare coordinate tree given as an axis: TreeOp::Input(Var::N) -> Axis::N
    var_arms = 0
    for m in A.find(ax["body"], "Match") if ax else []:
        for arm in m["arms"]:
            pt = str(txt(arm["pat"]))
            mm = re.fullmatch(r"(?:&)?TreeOp::Input\(Var::([XYZ])\)", pt)
            if not mm:
                continue
            body = str(txt(arm["body"]))
            if body == "Some(Axis::%s)" % mm.group(1):
                var_arms += 1
            else:
                rule.bad("axis|var|%s" % mm.group(1), "the coordinate variable %s given as an axis maps to `%s`, not Axis::%s" % (mm.group(1).lower(), body, mm.group(1)), A.where(TYPES, arm))
    if var_arms == 3:
        rule.ok("the coordinate variables x / y / z given as an axis map to their namesake Axis")
    elif ax is not None and "TreeOp::Input" in str(txt(ax["body"])):
        rule.bad("axis|var|table", "expected three arms mapping TreeOp::Input(Var::N) to Axis::N, found %d correct" % var_arms, A.where(ax))
    if good == 6:
        rule.ok("axis names (string and char, either case) map to their namesake Axis")
    else:
        rule.bad("axis|table", "expected six axis-name arms (x/y/z as string and char), found %d correct" % good, A.where(ax) if ax else TYPES)
    pl = fd.get("Plane")
    good = 0
    for m in A.find(pl["body"], "Match") if pl else []:
        for arm in m["arms"]:
            pats = [p for p in A.flatten_or(arm["pat"]) if p.get("k") == "PLit"]
            if not pats:
                continue
            names = {p["lit"]["v"].upper() for p in pats}
            body = txt(arm["body"])
            if len(names) == 1 and body == "Some(Plane::%s)" % names.pop():
                good += 1
            else:
                rule.bad("plane|%s" % txt(arm["pat"]), "the plane name %s maps to `%s`" % (txt(arm["pat"]), body), A.where(TYPES, arm))
    if good == 3:
        rule.ok("plane names map to their namesake Plane")
    else:
        rule.bad("plane|table", "expected three plane-name arms, found %d correct" % good, A.where(pl) if pl else TYPES)
    if pl and "ifletOk(axis)=Axis::from_dynamic(ctx,d.clone(),None){Some(Self{axis:axis,offset:0.0})}" in txt(pl["body"]):
        rule.ok("an axis given for a plane is the plane through the origin normal to it")
    else:
        rule.bad("plane|axis", "an axis given where a plane is expected must become { axis, offset: 0 }", A.where(pl) if pl else TYPES)
    # vecN(x, y[, z]) constructors keep argument order
    for name, comps in (("register_vec2", "xy"), ("register_vec3", "xyz")):
        f = A.find_fn(TYPES, name, root=root)
        t = txt(f["body"])
        params = "".join("%s:rhai::Dynamic," % c for c in comps).rstrip(",")
        if "|ctx:rhai::NativeCallContext,%s|" % params in t and "Ok(Vec%d{%s})" % (len(comps), ",".join("%s:%s" % (c, c) for c in comps)) in t:
            rule.ok("%s: vec%d(%s) stores its arguments in order" % (name, len(comps), ", ".join(comps)))
        else:
            rule.bad("ctor|%s" % name, "vec%d(..) must store its arguments as %s in order" % (len(comps), list(comps)), A.where(f))
    # constants table: name -> consts::NAME
    f = A.find_fn(CONSTS, "get_constant", root=root)
    ms = list(A.find(f["body"], "Match"))
    n = 0
    for arm in ms[0]["arms"] if ms else []:
        pats = [p["lit"]["v"] for p in A.flatten_or(arm["pat"]) if p.get("k") == "PLit"]
        if not pats:
            continue
        body = txt(arm["body"])
        m = re.fullmatch(r"Some\(consts::(\w+)\)", body)
        if m:
            n += 1
            if pats != [m.group(1)]:
                rule.bad("const|%s" % pats[0], 'the script constant "%s" is std::f64::consts::%s' % (pats[0], m.group(1)), A.where(CONSTS, arm))
        elif set(pats) == {"PHI", "GOLDEN_RATIO"} and body == "Some(1.618033988749895_f64)":
            n += 1
        else:
            rule.bad("const|%s" % pats[0], 'unrecognised constant entry "%s" => %s' % (pats[0], body), A.where(CONSTS, arm))
    if n >= 17:
        rule.ok("%d script constants map to their namesake std constants" % n)
    else:
        rule.lost("constants table (%d entries)" % n)
    # f32 coercion
    d = A.load(LIB, root)
    ff = [f for f in d["_fns"] if f["name"] == "from_dynamic" and (f.get("_owner") or {}).get("self_ty") == "f32"]
    t = txt(ff[0]["body"]) if ff else ""
    okf = (
        t.fmatch("d.clone().try_cast::<f64>().map(|$F|($Fasf32)).or_else(||d.try_cast::<i64>().map(|$G|($Gasf32)))") is not None
        or (t.fmatch("ifletSome($F)=d.clone().try_cast::<f64>(){Ok(($Fasf32))}") is not None and t.fmatch("elseifletSome($G)=d.try_cast::<i64>(){Ok(($Gasf32))}") is not None)
    )
    if okf:
        rule.ok("numbers (float or integer) coerce to f32")
    else:
        rule.bad("coerce|f32", "f32::from_dynamic must accept f64 and i64", "%s:%s" % (LIB, ff[0]["ln"] if ff else "?"))


def r4_resolver(rule, root=None):
    """a name the script defined is never replaced by the engine's fallback (axes, constants): in `resolver`
    every result other than Ok(None) lies on a path where `ctx.scope().contains(name)` is false, whatever
    the spelling of that choice (if / else, early return, guarded match arms)"""
    fn = A.find_fn(LIB, "resolver", root=root)
    params = [A.binding_name(i["pat"]) for i in fn["sig"]["inputs"] if "pat" in i]
    name = params[0]
    test = "ctx.scope().contains(%s)" % name
    found = {"fallback": 0, "bad": []}

    # `match name { n if .. => }` gives the name another spelling
    aliases = {name}
    for m_ in A.find(fn["body"], "Match"):
        if A.ident(A.strip(m_["e"])) == name:
            for arm in m_["arms"]:
                if arm["pat"].get("k") == "PIdent":
                    aliases.add(arm["pat"]["name"])
    tests = {"ctx.scope().contains(%s)" % a_ for a_ in aliases}

    def is_test(c):
        c = A.norm_cond(str(A.ftxt(A.strip(c))))
        if c in tests:
            return True
        if c.startswith("!") and c[1:] in tests:
            return False
        return None

    def lits(pat):
        if pat.get("k") == "POr":
            out = set()
            for c_ in pat["cases"]:
                l_ = lits(c_)
                if l_ is None:
                    return None
                out |= l_
            return out
        if pat.get("k") == "PLit":
            return {A.unparse(pat)}
        return None

    lets = {}

    def leaf(e, guarded, wrapped=False):
        t = str(A.ftxt(e))
        if t == ("None" if wrapped else "Ok(None)"):
            return
        if not wrapped and e.get("k") == "Call" and A.path_segs(e["func"]) == ["Ok"] and len(e["args"]) == 1 and A.ident(A.strip(e["args"][0])) in lets:
            # `let fallback = match name {..}; Ok(fallback)`: the cases of the named value
            expr(lets[A.ident(A.strip(e["args"][0]))], guarded, True)
            return
        found["fallback"] += 1
        if not guarded:
            found["bad"].append(e)

    def block(stmts, guarded, wrapped=False):
        for i, s_ in enumerate(stmts):
            last = i == len(stmts) - 1
            if s_.get("k") == "Let" and A.binding_name(s_["pat"]) and s_.get("init") is not None:
                lets[A.binding_name(s_["pat"])] = s_["init"]
                continue
            e = A.stmt_expr(s_)
            if e is None:
                continue
            e = A.strip(e)
            if e.get("k") == "If" and e.get("else") is None:
                tv = is_test(e["cond"])
                th = A.stmts_of(e["then"])
                lst = A.strip(A.stmt_expr(th[-1]) or {}) if th else {}
                expr(e["then"], guarded or tv is False, wrapped)
                if tv is True and lst.get("k") == "Return":
                    guarded = True  # what follows runs only when the script did not define the name
                continue
            if e.get("k") == "Return":
                if e.get("e") is not None:
                    expr(e["e"], guarded, wrapped)
                return
            if last and not s_.get("semi", True):
                expr(e, guarded, wrapped)

    def expr(e, guarded, wrapped=False):
        e = A.strip(e)
        k = e.get("k")
        if k == "Block":
            block(e["stmts"], guarded, wrapped)
        elif k == "If":
            tv = is_test(e["cond"])
            expr(e["then"], guarded or tv is False, wrapped)
            if e.get("else") is not None:
                expr(e["else"], guarded or tv is True, wrapped)
        elif k == "Match":
            covered_all = False
            covered = set()
            for arm in e["arms"]:
                g = arm.get("guard")
                tv = is_test(g) if g is not None else None
                pl = lits(arm["pat"])
                arm_guarded = guarded or covered_all or (pl is not None and pl <= covered) or tv is False
                expr(arm["body"], arm_guarded, wrapped)
                if tv is True and str(A.ftxt(A.unblock(arm["body"]))) == ("None" if wrapped else "Ok(None)"):
                    if pl is None:
                        covered_all = True
                    else:
                        covered |= pl
        elif k == "Return":
            if e.get("e") is not None:
                expr(e["e"], guarded, wrapped)
        else:
            leaf(e, guarded, wrapped)

    expr(fn["body"], False)
    if found["fallback"] < 2:
        rule.lost("the fallback results (axes, constants) of the variable resolver")
        return
    if found["bad"]:
        for b in found["bad"]:
            rule.bad("resolver|%s" % str(A.ftxt(b))[:40], "the variable resolver returns `%s` without first checking that the script did not define `%s` itself: a script variable of that name would be ignored" % (A.unparse(b)[:60], name), A.where(fn, b))
    else:
        rule.ok("resolver: all %d fallback results are reached only when the scope does not contain the name" % found["fallback"], file=LIB, line=fn["ln"])


def r6_classification_order(rule, root=None):
    """positional arguments are classified by trying each value type in turn; a type whose conversion also
    accepts another type's values (Plane takes anything an Axis takes, Tree takes numbers and arrays, Vec3
    takes a Vec2, Axis takes a Vec3) must be tried *after* that other type, or the narrower reading is
    never chosen.  The accepts-relation is read from the FromDynamic impls themselves."""
    fn = A.find_fn(SHAPES, "value_from_dynamic", root=root)
    tried = []
    for c in A.find(fn["body"], "Call"):
        if (A.path_segs(c["func"]) or [None])[-1] == "from_dynamic_with_hint" and c["args"]:
            segs = A.path_segs(A.strip(c["args"][-1])) or []
            if len(segs) == 2 and segs[0] == "Value":
                tried.append((c["ln"], c.get("c", 0), segs[1]))
    order = [v for _l, _c, v in sorted(tried)]
    if len(order) < 6:
        rule.lost("the classification chain of value_from_dynamic (found %s)" % order)
        return
    tyname = {"f32": "Float", "Vec2": "Vec2", "Vec3": "Vec3", "Vec4": "Vec4", "Vec<Tree>": "VecTree", "Tree": "Tree", "Axis": "Axis", "Plane": "Plane"}
    accepts = []
    for path in (TYPES, TREE, LIB):
        for f in A.load(path, root)["_fns"]:
            ow = f.get("_owner") or {}
            if f["name"] != "from_dynamic" or (ow.get("trait") or "") != "FromDynamic" or f.get("body") is None:
                continue
            wide = tyname.get((ow.get("self_ty") or "").replace(" ", ""))
            params = [A.binding_name(i_["pat"]) for i_ in f["sig"]["inputs"] if isinstance(i_, dict) and "pat" in i_]
            dyn = params[1] if len(params) > 1 else None
            for c in A.find(f["body"], "Call"):
                segs = A.path_segs(c["func"]) or []
                if not segs or segs[-1] != "from_dynamic" or len(c["args"]) < 2 or (len(segs) < 2 and not c["func"].get("qself")):
                    continue
                t_ = A.unparse(c["func"]).replace(" ", "")
                if c["func"].get("qself"):
                    t_ = "<%s>::%s" % (c["func"]["qself"].replace(" ", ""), t_)
                narrow = None
                for k_, v_ in tyname.items():
                    if t_ in ("%s::from_dynamic" % k_, "<%s>::from_dynamic" % k_):
                        narrow = v_
                a1 = A.strip(c["args"][1])
                while a1.get("k") == "MethodCall" and a1["method"] == "clone":
                    a1 = A.strip(a1["recv"])
                if wide and narrow and narrow != wide and A.ident(a1) == dyn:
                    accepts.append((wide, narrow, path, c["ln"]))
    if len(accepts) < 4:
        rule.lost("the accepts-relation between FromDynamic impls (found %s)" % accepts)
        return
    for wide, narrow, path, ln in accepts:
        if wide not in order or narrow not in order:
            continue
        if order.index(narrow) < order.index(wide):
            rule.ok("%s is tried before %s (whose conversion also accepts it)" % (narrow, wide), file=path, line=ln)
        else:
            rule.bad("classify|%s-before-%s" % (wide, narrow), "value_from_dynamic tries %s before %s, but %s::from_dynamic accepts every %s value (%s:%d): a positional %s argument is classified as a %s and the shape's %s parameter is never matched" % (wide, narrow, wide, narrow, path, ln, narrow, wide, narrow), A.where(fn))


def r5_registration_order(rule, root=None):
    """Rhai keeps the *last* function registered for a name and parameter list.  The one-argument form of a
    shape whose only field is a list of trees (`union([..])`, `intersection([..])`) is claimed both by the
    variadic reducer (which unions its arguments) and by the typed builder (which takes the array as the
    field); the typed builder must be the one that stays, so it is registered after the reducers."""
    fn0 = A.find_fn(SHAPES, "register_shape", root=root)
    body = A.inline_helpers(fn0)
    order = []
    for c in A.find(body, "MethodCall"):
        if c["method"] != "register_fn" or len(c["args"]) != 2:
            continue
        segs = A.path_segs(A.strip(c["args"][1])) or []
        nm = segs[0] if segs else ""
        if nm.startswith("build_reduce"):
            order.append(("reduce", c))
        elif nm.startswith("build_unique"):
            order.append(("unique", c))
    kinds = [k for k, _ in order]
    if "reduce" not in kinds or "unique" not in kinds:
        rule.lost("registration of the build_reduce* / build_unique* families in register_shape")
        return
    last_reduce = max(i for i, k in enumerate(kinds) if k == "reduce")
    first_unique = min(i for i, k in enumerate(kinds) if k == "unique")
    if last_reduce < first_unique:
        rule.ok("typed builders are registered after the variadic reducers (%d + %d registrations)" % (kinds.count("reduce"), kinds.count("unique")), file=SHAPES, line=fn0["ln"])
    else:
        rule.bad("order|reduce-after-unique", "register_shape registers a variadic reducer after the typed builders: for a shape with one Vec<Tree> field the one-argument call `shape([a, b])` then unions the array instead of passing it as the field", A.where(fn0, order[last_reduce][1]))


def r_engine_limits(rule, root=None):
    """`engine()` documents its limits ("Max expression and function expression depths of 64 and 32", "an
    on_progress limit of 50,000 steps"); the calls must set them in that order - Rhai's
    set_max_expr_depths(global, in-function) - so a script the documented engine accepts is accepted"""
    fn = A.find_fn("fidget-rhai/src/lib.rs", "engine", root=root)
    doc = " ".join(fn.get("doc") or []) if isinstance(fn.get("doc"), list) else str(fn.get("doc") or "")
    doc = re.sub(r"\s+", " ", doc)
    md = re.search(r"depths of (\d+) and (\d+)", doc)
    calls = [c for c in A.find(fn["body"], "MethodCall") if c["method"] == "set_max_expr_depths"]
    if len(calls) != 1 or len(calls[0]["args"]) != 2:
        rule.ok("engine() keeps Rhai's default expression depths (no set_max_expr_depths call)")
    elif md is None:
        # no documented numbers to compare with: at least not tighter than Rhai's own defaults (64 / 32)
        got = [A.lit_value(a) for a in calls[0]["args"]]
        if None not in got and got[0] >= 64 and got[1] >= 32:
            rule.ok("engine(): expression depth limits (%s, %s) are no tighter than Rhai's defaults" % tuple(got), file="fidget-rhai/src/lib.rs", line=calls[0]["ln"])
        else:
            rule.bad("engine|depths", "engine() calls set_max_expr_depths(%s, %s), tighter than Rhai's defaults of 64 (top level) and 32 (in functions)" % tuple(got), A.where(fn, calls[0]))
    else:
        got = [A.lit_value(a) for a in calls[0]["args"]]
        want = [int(md.group(1)), int(md.group(2))]
        if got == want:
            rule.ok("engine(): expression depth limits are the documented %d (global) and %d (in functions)" % tuple(want), file="fidget-rhai/src/lib.rs", line=calls[0]["ln"])
        else:
            rule.bad("engine|depths", "engine() documents maximum expression depths of %d (top level) and %d (inside functions) but calls set_max_expr_depths(%s, %s): Rhai takes the top-level limit first, so top-level expressions deeper than %s are now rejected" % (want[0], want[1], got[0], got[1], got[0]), A.where(fn, calls[0]))
    mp = re.search(r"limit of ([\d,_]+) steps", doc)
    t = str(A.ftxt(fn["body"]))
    mc = re.search(r"engine\.on_progress\((?:move)?\|(\w+)\|\{?if\(?\1>([\d_]+)\)?", t)
    if mp is None or mc is None:
        rule.ok("engine(): step limit not documented in a comparable form (nothing to compare)")
    elif int(mp.group(1).replace(",", "").replace("_", "")) == int(mc.group(2).replace("_", "")):
        rule.ok("engine(): scripts are stopped after the documented %s steps" % mp.group(1), file="fidget-rhai/src/lib.rs", line=fn["ln"])
    else:
        rule.bad("engine|steps", "engine() documents a limit of %s steps but stops scripts after %s" % (mp.group(1), mc.group(2)), A.where(fn))


# what each `impl FromDynamic for T` accepts, in order (confirmed by reading fidget-rhai; one line of reason each)
CONVERSIONS = {
    "f32": ["cast:f64", "cast:i64"],  # Rhai's two numeric types
    "Vec2": ["cast:Self", "array:f32"],  # a vec2 value, or [x, y]
    "Vec3": ["from:Vec2", "cast:Self", "array:f32"],  # a 2D position is promoted with the field's default z; a vec3; [x, y(, z)]
    "Vec4": ["cast:Self", "array:f32"],
    "Axis": ["cast:Self", "from:Vec3", "name:string", "name:char", "cast:Tree"],  # an axis value, a direction vector, a name ("x", 'x'), or one of the trees x / y / z
    "Plane": ["cast:Self", "from:Axis", "name:string"],  # a plane value, an axis (plane through the origin; "x" is an axis name), then the two-letter plane names
    "Tree": ["cast:Tree", "from:f32", "from:Vec<Tree>"],  # a tree, a number (constant), an array (union)
    "Vec<Tree>": ["array:Tree"],  # every element through Tree's own conversion (numbers, nested arrays)
}


def _conversion_steps(fn, self_ty):
    out = []
    body = fn["body"]
    for n in A.walk(body):
        k = n.get("k") if isinstance(n, dict) else None
        if k == "MethodCall" and n["method"] == "try_cast":
            tf = n.get("turbofish") or n.get("generics") or ""
            t_ = A.unparse(n).replace(" ", "")
            m = re.search(r"try_cast::<([^>]+(?:<[^>]*>)?)>\(\)$", t_)
            ty = m.group(1) if m else "Self"
            if ty == self_ty:
                ty = "Self" if self_ty != "Tree" else "Tree"
            out.append((n.get("ln", 0), n.get("c", 0), "cast:%s" % ty))
        elif k == "MethodCall" and n["method"] in ("into_immutable_string", "into_string", "as_char", "into_char"):
            # a name (string / character): matches *every* string, so it must come after the conversions that
            # understand other spellings of the same names
            out.append((n.get("ln", 0), n.get("c", 0), "name:%s" % ("char" if "char" in n["method"] else "string")))
        elif k == "MethodCall" and n["method"] in ("into_array", "into_typed_array"):
            out.append((n.get("ln", 0), n.get("c", 0), "array?" if n["method"] == "into_array" else "typed_array"))
        elif k == "Call":
            segs = A.path_segs(n["func"]) or []
            t_ = A.unparse(n["func"]).replace(" ", "")
            qs = (n["func"].get("qself") or "").replace(" ", "") if isinstance(n["func"], dict) else ""
            if segs[-1:] == ["from_dynamic"] and (len(segs) >= 2 or qs):
                ty = qs if (qs and len(segs) == 1) else t_.rsplit("::from_dynamic", 1)[0]
                if ty.startswith("<") and ty.endswith(">"):
                    ty = ty[1:-1]
                out.append((n.get("ln", 0), n.get("c", 0), "elem:%s" % ty))
    out.sort()
    return [x[2] for x in out]


def r8_conversions(rule, root=None):
    """what a script value may be converted from: every `impl FromDynamic for T` accepts exactly the sources of the
    table above.  An extra source is a silent lossy conversion (a vec3 where a 2D position is expected, swallowed
    before Vec3's own conversion sees it); a missing one makes scripts fail that the Rust calls accept; arrays
    convert every element through the element type's own conversion."""
    import glob as _glob
    import os as _os

    base = root or A.REPO
    seen = set()
    for full in sorted(_glob.glob(_os.path.join(base, "fidget-rhai", "src", "*.rs"))):
        path = _os.path.relpath(full, base)
        d = A.load(path, root)
        for f in d["_fns"]:
            ow = f.get("_owner") or {}
            if f["name"] != "from_dynamic" or f["_test"] or "FromDynamic" not in (ow.get("trait") or "") or f.get("body") is None:
                continue
            ty = (ow.get("self_ty") or "").replace(" ", "")
            if ty not in CONVERSIONS:
                rule.skip("FromDynamic for %s" % ty, "no entry in the conversion table (a new convertible type: confirm its sources by reading)", count=True)
                continue
            seen.add(ty)
            steps = _conversion_steps(f, ty)
            # helpers that do the array part (vecN_from_rhai_array) live next to the impl
            body_t = str(txt(f["body"]))
            got = []
            elem_after_array = None
            arr = False
            for s_ in steps:
                if s_ == "array?":
                    arr = True
                    continue
                if s_ == "typed_array":
                    got.append("typed_array")
                    continue
                if s_.startswith("elem:"):
                    e_ = s_[5:]
                    if arr:
                        if elem_after_array is None:
                            elem_after_array = e_
                            got.append("array:%s" % e_)
                        continue
                    got.append("from:%s" % e_)
                    continue
                got.append(s_)
            if arr and elem_after_array is None:
                m = re.search(r"(vec\dfrom_rhai_array|vec\d_from_rhai_array)\(", body_t)
                got.append("array:f32" if m else "array:?")
            want = CONVERSIONS[ty]
            if got == want:
                rule.ok("FromDynamic for %s accepts %s" % (ty, ", ".join(want)), file=path, line=f["ln"])
            else:
                extra = [g for g in got if g not in want]
                missing = [w for w in want if w not in got]
                what = ("also accepts `%s`" % extra[0]) if extra else (("no longer accepts `%s`" % missing[0]) if missing else "tries its sources in the order %s" % got)
                rule.bad("convert|%s|%s" % (ty, (extra or missing or ["order"])[0]), "FromDynamic for %s %s (table: %s). A source outside the table is converted silently where the Rust API would not accept it (or hides the value from the conversion that understands it); a typed array skips the element conversion that turns numbers and nested arrays into trees" % (ty, what, ", ".join(want)), A.where(path, f))
    for ty in CONVERSIONS:
        if ty not in seen:
            rule.lost("impl FromDynamic for %s" % ty)


def r9_constructor_collisions(rule, root=None):
    """the reflection-driven shape builders register `name(Dynamic x k)` for every shape type with k fields.  A
    hand-written value constructor of the same name and arity survives only because one of its parameters has a
    concrete type; written with all-Dynamic parameters it has the builder's signature and the later registration
    replaces it (plane(v, offset) would then return the Plane *shape's tree*)."""
    nfields = {}
    for path in ("fidget-shapes/src/types.rs", "fidget-shapes/src/lib.rs"):
        d = A.load(path, root)
        for it in A.find(d, "StructDef"):
            fs = it.get("fields")
            if isinstance(fs, list):
                nfields[it["name"].lower()] = len(fs)
    if len(nfields) < 10:
        rule.lost("struct definitions of fidget-shapes (found %d)" % len(nfields))
        return
    # only the types handed to the visitor get reflection-driven builders
    vs = A.find_fn("fidget-shapes/src/lib.rs", "visit_shapes", root=root)
    visited = set(re.findall(r"visit::<(\w+)>\(\)", str(txt(vs["body"]))))
    if len(visited) < 10:
        rule.lost("the shape list of visit_shapes (found %d)" % len(visited))
        return
    nfields = {k: v for k, v in nfields.items() if k in {x.lower() for x in visited}}
    d = A.load(TYPES, root)
    n = 0
    seen_calls = set()
    for c in A.find(d, "MethodCall"):
        if id(c) in seen_calls:
            continue
        seen_calls.add(id(c))
        if c["method"] != "register_fn" or len(c["args"]) != 2:
            continue
        nm_t = A.unparse(A.strip(c["args"][0])).strip()
        nm = nm_t[1:-1] if len(nm_t) >= 2 and nm_t[0] == '"' and nm_t[-1] == '"' else None
        clo = A.strip(c["args"][1])
        if not isinstance(nm, str) or clo.get("k") != "Closure":
            continue
        ps = clo.get("inputs", [])
        tys = []
        for p_ in ps:
            u_ = A.unparse(p_).replace(" ", "")
            tys.append(u_.split(":", 1)[1] if ":" in u_ else "")
        script = [t_ for t_ in tys if "NativeCallContext" not in t_]
        if nm not in nfields or not script:
            continue
        n += 1
        if len(script) == nfields[nm] and all(t_.endswith("Dynamic") for t_ in script):
            rule.bad("collision|%s|%d" % (nm, len(script)), "the hand-written constructor `%s(%s)` takes only Dynamic parameters and the shape type of that name has %d fields: the positional shape builder registered afterwards has the same signature and replaces it, so the call returns the shape's tree instead of the value" % (nm, ", ".join(script), nfields[nm]), A.where(TYPES, c))
        else:
            rule.ok("`%s(%s)` cannot be shadowed by the %d-field shape builder" % (nm, ", ".join(script), nfields[nm]), file=TYPES, line=c["ln"])
    if n == 0:
        rule.skip("value constructors named like a shape", "none found", count=True)


def r_reducer_arguments(rule, root=None):
    """the variadic reducers (`union(a, b, c)`) convert each argument to one tree, exactly like the Rust call
    `Union { input: vec![a.into(), b.into(), c.into()] }`: an array argument is *one* operand (its own union), not a
    list to be spliced into the argument list"""
    d = A.load(SHAPES, root)
    defs = [m for m in A.find(d, "MacroRules") if m.get("name") == "reducer"] or [m for m in A.find(d, None, lambda q: q.get("k") in ("Macro", "MacroDef", "ItemMacro") and q.get("name") in ("macro_rules", "reducer"))]
    text = None
    for m in defs:
        tk = m.get("tokens")
        tt = A.tokens_str(tk).replace(" ", "") if tk else ""
        if "build_reduce" in tt or "$v" in tt:
            text = tt
            break
    if text is None:
        src = open(__import__("os").path.join(root or A.REPO, SHAPES)).read()
        i = src.find("macro_rules! reducer")
        text = src[i:i + 2500].replace(" ", "").replace("\n", "") if i >= 0 else None
    if not text:
        rule.lost("macro_rules! reducer in fidget-rhai/src/shapes.rs")
        return
    each = "Tree::from_dynamic(&ctx,$v,None)?" in text
    splice = "Vec<Tree>>::from_dynamic" in text or ".extend(" in text or "into_array" in text
    if each and not splice:
        rule.ok("reducer!: every argument becomes one tree through Tree::from_dynamic", file=SHAPES)
    else:
        rule.bad("reducer|arguments", "the variadic reducer %s: `f(a, [b, c])` must build f(a, union(b, c)) like the Rust API does, not f(a, b, c)" % ("splices array arguments into its operand list" if splice else "does not convert each argument with Tree::from_dynamic"), SHAPES)



TYPES_RS = "fidget-rhai/src/types.rs"


def r_vector_operators(rule, root=None):
    """script-side vec2 / vec3 arithmetic (what shape arguments are computed with): every overload applies the
    operator to its operands in source order, a number being splatted on the side it was written on"""
    d = A.load(TYPES_RS, root)
    mdefs = {m["def"]: m for m in A.find(d["items"], "Macro") if m.get("def")}
    if "register_binary" not in mdefs or "register_all" not in mdefs or "register_unary" not in mdefs:
        rule.lost("register_binary! / register_unary! / register_all! in fidget-rhai/src/types.rs")
        return
    body = tok(mdefs["register_binary"]["tokens"])
    ln = mdefs["register_binary"]["ln"]
    rx = re.compile(r"\$engine\.register_fn\(\$rop,\|(?P<a>\w+):(?P<ta>[\w$]+),(?P<b>\w+):(?P<tb>[\w$]+)\|->\$ty\{(?:\$\(usestd::ops::\$op;\)\?)?(?P<body>[^{}]*)\}\);")
    seen = set()
    for m in rx.finditer(body):
        a, b, ta, tb, e = m.group("a"), m.group("b"), m.group("ta"), m.group("tb"), m.group("body")
        seen.add((ta, tb))
        # `let scalar = b as f32; a.$base_fn(scalar)`: fold the naming lets into the expression
        for _ in range(4):
            lm = re.match(r"let(\w+)(?::[\w$]+)?=([^;]+);(.*)$", e)
            if not lm:
                break
            e = re.sub(r"(?<![\w$.])%s(?![\w(])" % re.escape(lm.group(1)), lm.group(2), lm.group(3))
        lhs = [re.escape(a)] if ta == "$ty" else [r"\$ty::from\(%sasf32\)" % re.escape(a)]
        rhs = [re.escape(b)] if tb == "$ty" else [r"%sasf32" % re.escape(b), r"\$ty::from\(%sasf32\)" % re.escape(b)]
        okb = any(re.fullmatch(l_ + r"\.\$base_fn\(" + r_ + r"\)", e) for l_ in lhs for r_ in rhs)
        if okb:
            rule.ok("(%s, %s) overload computes first.op(second)" % (ta, tb), file=TYPES_RS, line=ln)
        else:
            rule.bad("vecop|%s,%s" % (ta, tb), "the (%s, %s) overload of the vector operators computes `%s`; the operands must stay in source order: (first%s).$base_fn(second%s) - `3 - vec2(1, 2)` is not `vec2(1, 2) - 3`" % (ta, tb, e, "" if ta == "$ty" else " splatted", "" if tb == "$ty" else " as f32"), "%s:%s" % (TYPES_RS, ln))
    want = {("$ty", "$ty"), ("$ty", "f64"), ("$ty", "i64"), ("f64", "$ty"), ("i64", "$ty")}
    if seen == want:
        rule.ok("vector / vector, vector / float, vector / integer, float / vector and integer / vector are all registered", file=TYPES_RS, line=ln)
    else:
        rule.bad("vecop|forms", "register_binary! registers the operand forms %s; expected %s" % (sorted(seen), sorted(want)), "%s:%s" % (TYPES_RS, ln))
    if "register_binary!($engine,$ty,stringify!($base_fn),$base_fn)" in body:
        rule.ok("named helpers (min, max) are registered under their own name", file=TYPES_RS, line=ln)
    else:
        rule.bad("vecop|named", "the short form of register_binary! must register $base_fn under stringify!($base_fn)", "%s:%s" % (TYPES_RS, ln))
    allb = tok(mdefs["register_all"]["tokens"])
    for op, f_, tr in (("+", "add", "Add"), ("*", "mul", "Mul"), ("-", "sub", "Sub"), ("/", "div", "Div")):
        if 'register_binary!($engine,$ty,"%s",%s,%s);' % (op, f_, tr) in allb:
            rule.ok("`%s` on vectors is %s" % (op, f_), file=TYPES_RS, line=mdefs["register_all"]["ln"])
        else:
            rule.bad("vecop|table|%s" % f_, "register_all! must register \"%s\" as %s (std::ops::%s)" % (op, f_, tr), "%s:%s" % (TYPES_RS, mdefs["register_all"]["ln"]))
    for f_ in ("min", "max"):
        if "register_binary!($engine,$ty,%s);" % f_ in allb:
            rule.ok("`%s` on vectors" % f_, file=TYPES_RS)
        else:
            rule.bad("vecop|table|%s" % f_, "register_all! must register %s" % f_, TYPES_RS)
    for f_ in ("sqrt", "abs"):
        if "register_unary!($engine,$ty,%s);" % f_ in allb:
            rule.ok("`%s` on vectors" % f_, file=TYPES_RS)
        else:
            rule.bad("vecop|table|%s" % f_, "register_all! must register %s" % f_, TYPES_RS)
    if re.search(r'\$engine\.register_fn\("-",\|(?P<v>\w+):\$ty\|-(?P=v)\);', allb):
        rule.ok("unary minus negates the vector", file=TYPES_RS)
    else:
        rule.bad("vecop|neg", "unary `-` on a vector must be `-v`", TYPES_RS)
    ub = tok(mdefs["register_unary"]["tokens"])
    if re.search(r"\$engine\.register_fn\(stringify!\(\$base_fn\),\|(?P<a>\w+):\$ty\|->\$ty\{(?P=a)\.\$base_fn\(\)\}\);", ub):
        rule.ok("register_unary! applies the namesake method", file=TYPES_RS)
    else:
        rule.bad("vecop|unary", "register_unary! must register |a| a.$base_fn() under stringify!($base_fn)", TYPES_RS)


def r_leftover_arguments(rule, root=None):
    """positional constructors: an argument whose type no field takes is an error, never dropped"""
    fn = A.find_fn(SHAPES, "from_enum_map", root=root)
    ps = [A.binding_name(p["pat"]) for p in fn["sig"]["inputs"] if "pat" in p]
    vs = ps[1] if len(ps) > 1 else "vs"
    body = A.inline_lets_deep(fn["body"])
    # the last field loop, then the leftover test
    loops = [f for f in A.find(fn["body"], "For") if "shape.fields" in str(A.ftxt(f["iter"])) and "put" in str(A.ftxt(f["body"]))]
    if len(loops) != 1:
        rule.lost("the field loop of from_enum_map")
        return
    tests = []
    for c in A.find(fn["body"], "MethodCall"):
        if c["method"] in ("find", "any", "position", "find_map") and c["args"] and c.get("ln", 0) > loops[0].get("le", loops[0]["ln"]):
            src = str(A.ftxt(c["recv"]))
            if src.startswith(vs + "."):
                tests.append(c)
    if not tests:
        # written as a loop: `for (k, v) in vs.iter() { if v.is_some() { return Err(..) } }`
        for lp in A.find(fn["body"], "For"):
            if lp is loops[0] or lp.get("ln", 0) <= loops[0].get("le", loops[0]["ln"]) or not str(A.ftxt(lp["iter"])).startswith(vs):
                continue
            q = lp["pat"]
            while q.get("k") in ("PRef", "PType"):
                q = q["pat"]
            names = [A.binding_name(x) for x in q.get("elems", [])] if q.get("k") == "PTuple" else [A.binding_name(q)]
            v = names[-1] if names else None
            ifs = [i for i in A.find(lp["body"], "If") if any(str(A.ftxt(r_["e"])).startswith("Err(") for r_ in A.find(i["then"], "Return") if r_.get("e") is not None)]
            if len(ifs) == 1 and str(A.ftxt(ifs[0]["cond"])).strip() in ("%s.is_some()" % v, "(%s.is_some())" % v):
                rule.ok("every value still unclaimed after the fields were filled is reported, whatever its type", file=SHAPES, line=lp["ln"])
                rule.ok("a leftover argument returns an error", file=SHAPES, line=lp["ln"])
                return
            if len(ifs) == 1:
                rule.bad("leftover|predicate", "from_enum_map reports a leftover positional argument only under `%s`; any value left over must be an error" % str(A.ftxt(ifs[0]["cond"]))[:60], A.where(SHAPES, lp))
                return
    if len(tests) != 1:
        rule.lost("the leftover-argument test after the field loop of from_enum_map (`vs.iter().find(|(_k, v)| v.is_some())`)")
        return
    c = tests[0]
    clo = A.strip(c["args"][0])
    pred = None
    if clo.get("k") == "Closure":
        ps_ = clo.get("inputs", clo.get("params", []))
        names = []
        for p in ps_:
            q = p
            while q.get("k") in ("PRef", "PType"):
                q = q["pat"]
            names = [A.binding_name(x) for x in q.get("elems", [])] if q.get("k") == "PTuple" else [A.binding_name(q)]
        v = names[-1] if names else None
        pred = str(A.ftxt(A.unblock(clo["body"])))
        okp = v is not None and pred in ("%s.is_some()" % v, "(%s.is_some())" % v, "!%s.is_none()" % v, "(!%s.is_none())" % v)
    else:
        okp = str(A.ftxt(clo)) in ("Option::is_some",)
        pred = str(A.ftxt(clo))
    if okp:
        rule.ok("every value still unclaimed after the fields were filled is reported, whatever its type", file=SHAPES, line=c["ln"])
    else:
        rule.bad("leftover|predicate", "from_enum_map looks for unconsumed positional arguments with `%s`; any value left over (`v.is_some()`, nothing else) must be an error - a narrower test silently drops arguments like the 2 in `x.scale(2)`" % pred, A.where(SHAPES, c))
    # and it is an error
    encl = [i for i in A.find(fn["body"], "If") if any(n is c for n in A.walk(i["cond"]))]
    errs = [r_ for i in encl for r_ in A.find(i["then"], "Return") if r_.get("e") is not None and str(A.ftxt(r_["e"])).startswith("Err(")]
    if errs:
        rule.ok("a leftover argument returns an error", file=SHAPES, line=c["ln"])
    else:
        rule.bad("leftover|error", "a leftover positional argument must return Err(..)", A.where(SHAPES, c))


def r13_builder_exclusion_and_unknown_keys(rule, root=None):
    """(a) a shape that gets a specialised positional builder (binary, variadic reducer, typed) must not *also* get the
    all-Dynamic ordered builder of the same arity: Rhai keeps the last registration, and the ordered builder refuses
    the coercions (number -> constant, array -> union) the specialised one performs.  (b) both map forms reject a key
    that is not a field of the shape, for every map - a scan that runs only for "large enough" maps lets a misspelt
    key through whenever a defaulted field is omitted."""
    fn0 = A.find_fn(SHAPES, "register_shape", root=root)
    flag = None
    for i_ in A.find(fn0["body"], "If"):
        c_ = str(A.ftxt(i_["cond"])).strip("()")
        m_ = re.fullmatch(r"!(\w+)", c_)
        if m_ and "build_ordered" in str(A.ftxt(i_["then"])):
            flag = m_.group(1)
    if flag is None:
        rule.lost("`if !skip_ordered_builder { .. build_ordered* .. }` in register_shape")
    else:
        rule.ok("the ordered builders are registered only when no specialised builder was (`!%s`)" % flag, file=SHAPES, line=fn0["ln"])
        fams = ("build_binary", "build_reduce", "build_unique")
        seen = set()
        for blk in A.find(fn0["body"], "If"):
            # innermost-independent: look at top-level ifs of the function body only
            if not any(A.stmt_expr(s_) is not None and A.strip(A.stmt_expr(s_)) is blk for s_ in A.stmts_of(fn0["body"])):
                continue
            regs = set()
            for c in A.find(blk["then"], "MethodCall"):
                if c["method"] == "register_fn" and len(c["args"]) == 2:
                    nm = (A.path_segs(A.strip(c["args"][1])) or [""])[0]
                    for fam in fams:
                        if nm.startswith(fam):
                            regs.add(fam)
            for m2 in A.find(blk["then"], "Macro"):
                pass
            tb = str(A.ftxt(blk["then"]))
            for fam in fams:
                if fam in tb:
                    regs.add(fam)
            if not regs:
                continue
            sets = any(str(A.ftxt(a_["left"])) == flag and str(A.ftxt(a_["right"])) == "true" for a_ in A.find(blk["then"], "Assign"))
            for fam in sorted(regs):
                seen.add(fam)
                if sets:
                    rule.ok("the block registering %s* switches the ordered builder off" % fam, file=SHAPES, line=blk["ln"])
                else:
                    rule.bad("exclusion|%s" % fam, "register_shape registers %s* for a shape without setting `%s = true`: the ordered builder registered afterwards has the same (Dynamic, ..) signature, replaces it, and refuses the coercions it performs (`difference(x, 1)` then fails)" % (fam, flag), A.where(SHAPES, blk))
        for fam in fams:
            if fam not in seen:
                rule.lost("the block of register_shape that registers %s*" % fam)
    # the positional vec2 -> vec3 promotion: (x, y) from the 2-vector, z from the field's default
    fe = A.find_fn(SHAPES, "from_enum_map", root=root)
    v3 = [s_ for s_ in A.find(fe["body"], "Struct") if (A.path_segs(s_["path"]) or [None])[-1] == "Vec3"]
    if len(v3) != 1:
        rule.lost("the Vec3 built by the vec2 -> vec3 promotion in from_enum_map")
    else:
        f_ = {x_["name"]: str(A.ftxt(x_["e"])) for x_ in v3[0]["fields"]}
        mx, my, mz = (re.fullmatch(r"(\w+)\.([xyz])", f_.get(k_, "")) for k_ in "xyz")
        if mx and my and mz and mx.group(2) == "x" and my.group(2) == "y" and mz.group(2) == "z" and mx.group(1) == my.group(1) and mz.group(1) != mx.group(1):
            rule.ok("a positional 2-vector is promoted as (v.x, v.y, default.z)", file=SHAPES, line=v3[0]["ln"])
        else:
            rule.bad("promotion|vec2-vec3", "from_enum_map promotes a 2-vector to %s; it must be (v.x, v.y) of the 2-vector with z from the field's default" % f_, A.where(SHAPES, v3[0]))
    for name in ("build_from_map", "build_transform"):
        fn = A.find_fn(SHAPES, name, root=root)
        loops = [l_ for l_ in A.find(fn["body"], "For") if ".keys()" in str(A.ftxt(l_["iter"])) and "is not present" in A.unparse(l_)]
        if len(loops) != 1:
            # the iterator spelling
            its = [c for c in A.find(fn["body"], "MethodCall") if c["method"] in ("find", "any", "all", "try_for_each") and ".keys()" in str(A.ftxt(c["recv"]))]
            if len(its) == 1 and not [c_ for c_ in (A.enclosing_conds(fn["body"], its[0]) or []) if "keys()" not in c_]:
                rule.ok("%s rejects a key that is not a field, for every map" % name, file=SHAPES, line=its[0]["ln"])
            else:
                rule.lost("the unknown-key scan of %s" % name)
            continue
        conds = A.enclosing_conds(fn["body"], loops[0]) or []
        if conds:
            rule.bad("unknown-key|%s" % name, "%s scans for keys that are not fields only under `%s`: every map must be scanned - a misspelt key is otherwise dropped silently when a defaulted field is omitted" % (name, conds[-1][:70]), A.where(SHAPES, loops[0]))
        else:
            rule.ok("%s rejects a key that is not a field, for every map" % name, file=SHAPES, line=loops[0]["ln"])

def run(ctx):
    r = ctx.rule("R1", "operators and functions are registered to their namesake, both operand orders, operands in source order; comparisons rejected", 69)
    ctx.guarded(r, r1_operator_tables)
    r = ctx.rule("R2", "the map form and the chained form of a constructor honour defaults identically", 12)
    ctx.guarded(r, r2_sibling_builders)
    r = ctx.rule("R3", "coercions: array index -> component, vec2 -> vec3 takes z from the default, names -> namesakes", 13)
    ctx.guarded(r, r3_coercions)
    r = ctx.rule("R4", "names defined by the script take precedence over the engine's axes and constants", 1)
    ctx.guarded(r, r4_resolver)
    r = ctx.rule("R5", "of two builders with the same call signature the typed one is registered last", 1)
    ctx.guarded(r, r5_registration_order)
    r = ctx.rule("R6", "positional arguments are classified narrowest type first", 5)
    ctx.guarded(r, r6_classification_order)
    r = ctx.rule("R7", "the engine's limits are the documented ones, in Rhai's argument order", 2)
    ctx.guarded(r, r_engine_limits)
    r = ctx.rule("R8", "what a script value converts from: every FromDynamic impl accepts exactly its table of sources, in order; arrays convert each element through the element type's own conversion", 8)
    ctx.guarded(r, r8_conversions)
    r = ctx.rule("R9", "hand-written value constructors named like a shape keep a concretely typed parameter, so the all-Dynamic positional builder of the same arity cannot replace them", 2)
    ctx.guarded(r, r9_constructor_collisions)
    r = ctx.rule("R10", "variadic reducers convert each argument to one tree (an array argument is one operand)", 1)
    ctx.guarded(r, r_reducer_arguments)
    r = ctx.rule("R11", "script-side vector arithmetic: every operand form applies the operator in source order (a number is splatted on the side it was written on); the operator table maps + * - / min max sqrt abs and unary minus to their namesakes", 17)
    ctx.guarded(r, r_vector_operators)
    r = ctx.rule("R12", "positional constructors report every argument no field takes (nothing is silently dropped)", 2)
    ctx.guarded(r, r_leftover_arguments)
    r = ctx.rule("R13", "a specialised positional builder excludes the ordered one; both map forms reject unknown keys for every map; positional vec2 -> vec3 promotion", 7)
    ctx.guarded(r, r13_builder_exclusion_and_unknown_keys)
