"""The four interpreter loops of fidget-core/src/vm/mod.rs, arm by arm."""
from . import ast as A
from . import opcodes as O
from . import terms as T

VM = "fidget-core/src/vm/mod.rs"

LOOPS = [
    # (label, self type, trait, tracing?)
    ("interval", "VmIntervalEval", "TracingEvaluator", True),
    ("point", "VmPointEval", "TracingEvaluator", True),
    ("float_slice", "VmFloatSliceEval", "BulkEvaluator", False),
    ("grad_slice", "VmGradSliceEval", "BulkEvaluator", False),
]


_LF = {}


def loop_fn(label, root=None):
    """the evaluator's `eval`, read with private same-file helpers expanded in place (a helper that records
    a choice is the two statements it contains)"""
    for l, ty, tr, tracing in LOOPS:
        if l == label:
            key = (label, root or A.REPO)
            if key not in _LF:
                fn0 = A.find_fn(VM, "eval", self_ty=ty, trait=tr, root=root)
                fn = dict(fn0)
                fn["body"] = A.inline_helpers(fn0)
                _LF[key] = fn
            return _LF[key], tracing
    raise KeyError(label)


def the_match(fn):
    ms = O.match_on(fn, "RegOp", min_arms=20)
    if len(ms) != 1:
        raise A.AnchorLost("the `match op` over RegOp in %s (%d found)" % (A.fn_label(fn), len(ms)))
    return ms[0]


def is_full_range(e, size_names=("size",)):
    """`0..size`"""
    e = A.strip(e)
    return (
        e.get("k") == "Range"
        and not e["closed"]
        and (e.get("start") is None or A.lit_value(e["start"]) == 0)  # `..size` is `0..size`
        and A.ident(A.strip(e["end"])) in size_names
    )


def _whole_slice(e):
    """`x[0..size]` -> x ; `&x` -> x"""
    e = A.strip(e)
    if e.get("k") == "Index" and A.strip(e["index"]).get("k") == "Range":
        if not is_full_range(e["index"]):
            return None
        return A.strip(e["e"])
    return e


def _is_true(e):
    e = A.strip(e)
    return bool(e) and e.get("k") == "Lit" and e.get("ty") == "bool" and e.get("v") == "true"


def _flag_set(e):
    """`if c { flag = true; }` -> the flag's path expression, else None"""
    st = A.stmts_of(e["then"])
    if len(st) != 1:
        return None
    a = A.stmt_expr(st[0])
    a = A.strip(a) if a else None
    if a and a.get("k") == "Assign" and A.ident(A.strip(a["left"])) and _is_true(a["right"]):
        return A.strip(a["left"])
    return None


def collect_effects(body, env, problems, loop_depth=0):
    """Walk an arm body in order.  Returns a list of
       ('assign', left_term, right_term, node) / ('oreq', left_expr, right_expr, node) /
       ('other', node).
       `for i in 0..size { .. }` bodies are inlined (the range must be the whole slice)."""
    out = []
    for s in A.inline_simple_lets(A.stmts_of(body)):
        k = s.get("k")
        if k == "Let":
            T.bind_let(s, env)
            continue
        e = A.stmt_expr(s)
        if e is None:
            out.append(("other", s))
            continue
        e = A.strip(e)
        ek = e.get("k")
        if ek == "Block":
            out.extend(collect_effects(e, env, problems, loop_depth))
        elif ek == "For":
            if not is_full_range(e["iter"]):
                problems.append("loop range `%s` is not `0..size`" % A.unparse(e["iter"]))
            name = A.binding_name(e["pat"])
            env2 = env.copy()
            if name:
                env2.index_names = set(env.index_names) | {name}
            out.extend(collect_effects(e["body"], env2, problems, loop_depth + 1))
        elif ek == "Assign":
            out.append(("assign", T.norm(e["left"], env), T.norm(e["right"], env), e))
        elif ek == "Binary" and e["op"] == "|=":
            out.append(("oreq", e["left"], e["right"], e, env.copy()))
        elif ek == "If" and not e.get("else") and _flag_set(e) is not None:
            # `if c { flag = true; }` is `flag |= c`
            flag = _flag_set(e)
            syn = {"k": "Binary", "op": "|=", "left": flag, "right": A.strip(e["cond"]), "ln": e.get("ln"), "c": e.get("c")}
            out.append(("oreq", flag, A.strip(e["cond"]), syn, env.copy()))
        elif ek == "MethodCall" and e["method"] == "copy_from_slice" and len(e["args"]) == 1:
            dst = _whole_slice(e["recv"])
            src = _whole_slice(e["args"][0])
            if dst is None or src is None:
                problems.append("copy_from_slice over a partial range: %s" % A.unparse(e))
                out.append(("other", e))
            else:
                out.append(("assign", T.norm(dst, env), T.norm(src, env), e))
        elif ek == "MethodCall" and e["method"] == "fill" and len(e["args"]) == 1 and _whole_slice(e["recv"]) is not None and A.strip(e["recv"]).get("k") == "Index":
            # `x[..size].fill(c)` is `for i in 0..size { x[i] = c }`
            out.append(("assign", T.norm(_whole_slice(e["recv"]), env), T.norm(e["args"][0], env), e))
        else:
            out.append(("other", e))
    return out


def arm_env(subs, payload):
    """bind the names of a variant's sub-patterns to positional roles"""
    env = T.Env()
    names = []
    for i, sp in enumerate(subs or []):
        n = A.binding_name(sp)
        names.append(n)
        if n is None:
            continue
        if i < len(payload) and payload[i] == "f32":
            env.vars[n] = ("I",)
        else:
            env.vars[n] = ("var", "P%d" % i)
    return env, names


def expected_value(variant, scalar=False):
    """acceptable right-hand-side terms for `v[P0] = ...` (`scalar`: the loop's values are plain f32)"""
    kind = O.variant_kind(variant)
    base, form = T.split_variant(variant)
    if kind == "unary":
        return T.expected_unary(base, ("R", "P1"))
    if kind == "binary":
        l, r = T.operands_for_form(form, "P1", "P2")
        return T.expected_binary(base, l, r, scalar=scalar)
    if kind == "CopyReg":
        return [("R", "P1")]
    if kind == "CopyImm":
        return [("I",)]
    if kind == "Load":
        return [("R", "P1")]
    return None


def check_arm(variant, subs, arm, payload, tracing, scalar=False):
    """-> (problems, info) for one interpreter arm"""
    problems = []
    env, names = arm_env(subs, payload)
    if subs is None or len(subs) != len(payload) or any(n is None for n in names):
        # `..` or `_` in an arm that computes something: every payload slot is needed
        return ["pattern does not bind all %d payload fields" % len(payload)], {}
    effects = collect_effects(arm["body"], env, problems)
    assigns = [x for x in effects if x[0] == "assign"]
    oreqs = [x for x in effects if x[0] == "oreq"]
    others = [x for x in effects if x[0] == "other"]
    kind = O.variant_kind(variant)
    info = {"assigns": len(assigns), "oreqs": len(oreqs)}

    # only writes to slots / arrays matter here; plain flag variables are C20's business
    assigns = [a for a in assigns if a[1][0] in ("R", "idx", "slot")]

    def only_assign(dst_pred, what):
        c = [a for a in assigns if dst_pred(a[1])]
        if len(c) != 1 or len(assigns) != 1:
            problems.append(
                "expected exactly one assignment (%s), found %s"
                % (what, [T.show(a[1]) + " = " + T.show(a[2]) for a in assigns])
            )
            return None
        return c[0]

    if kind == "Output":
        a = only_assign(lambda t: t[0] == "idx" and t[2] == ("var", "P1"), "out[i] = v[arg]")
        if a is not None:
            if "out" not in T.show(a[1][1]):
                problems.append("Output writes %s, not the output array" % T.show(a[1]))
            if a[2] != ("R", "P0"):
                problems.append("Output stores %s, expected the arm's register v[%s]" % (T.show(a[2]), names[0]))
    elif kind == "Input":
        a = only_assign(lambda t: t == ("R", "P0"), "v[out] = vars[i]")
        if a is not None:
            r = a[2]
            if not (r[0] == "idx" and r[1] == ("var", "vars") and r[2] == ("var", "P1")):
                problems.append("Input reads %s, expected vars[%s]" % (T.show(r), names[1]))
    elif kind == "Store":
        a = only_assign(lambda t: t == ("R", "P1"), "v[mem] = v[reg]")
        if a is not None and a[2] != ("R", "P0"):
            problems.append("Store writes %s to memory, expected v[%s]" % (T.show(a[2]), names[0]))
    else:
        exp = expected_value(variant, scalar)
        if exp is None:
            problems.append("no meaning known for variant %s" % variant)
            return problems, info
        a = only_assign(lambda t: t == ("R", "P0"), "v[out] = ...")
        if a is not None and a[2] not in exp:
            problems.append(
                "computes %s; the opcode %s means %s" % (T.show(a[2]), variant, " or ".join(T.show(x) for x in exp[:2]))
            )
        info["value"] = a[2] if a else None
    base, form = T.split_variant(variant)
    info["choice_ops"] = []
    if tracing:
        info["oreq_nodes"] = oreqs
    elif oreqs:
        problems.append("bulk evaluator arm has `|=` statements")
    if others and kind != "other":
        # statements with no effect we understand
        for o in others:
            problems.append("unrecognised statement `%s`" % A.unparse(o[1])[:70])
    return problems, info


def check_loop(rule, label, root=None, want_choice_info=None, only=None):
    """C01.R3 style: every arm of one interpreter loop computes its opcode"""
    fn, tracing = loop_fn(label, root)
    m = the_match(fn)
    payloads = dict(O.reg_variants(root))
    seen = set()
    for variant, subs, arm in O.arms_by_variant(m, "RegOp"):
        if variant is None:
            rule.bad(
                "%s|wildcard" % label,
                "the RegOp match in %s has a non-RegOp / wildcard arm `%s`: unlisted opcodes fall through silently"
                % (A.fn_label(fn), A.unparse(arm["pat"])[:40]),
                A.where(fn, arm),
            )
            continue
        if variant not in payloads:
            rule.bad("%s|%s" % (label, variant), "unknown RegOp variant", A.where(fn, arm))
            continue
        seen.add(variant)
        if only is not None and variant not in only:
            continue
        problems, info = check_arm(variant, subs, arm, payloads[variant], tracing, scalar=label in ("point", "float_slice"))
        if want_choice_info is not None:
            want_choice_info.append((variant, subs, arm, info, fn))
        if problems:
            for p in problems:
                rule.bad("%s|%s|%s" % (label, variant, p[:40]), "%s arm %s: %s" % (label, variant, p), A.where(fn, arm))
        else:
            rule.ok("%s:%s" % (label, variant), file=VM, fn=A.fn_label(fn), line=arm["ln"])
    for v in payloads:
        if v not in seen and (only is None or v in only):
            rule.bad("%s|%s|missing" % (label, v), "%s loop has no arm for RegOp::%s" % (label, v), A.where(fn, m))
    return fn, m
