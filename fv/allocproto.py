"""C01.R2/R4/R5: the register allocator's lowering tables, the per-arm
load/store/bind protocol, and the helper effect summaries."""
from . import ast as A
from . import opcodes as O
from . import terms as T

ALLOC = "fidget-core/src/compiler/alloc.rs"
LRU = "fidget-core/src/compiler/lru.rs"


def afn(name, root=None):
    return A.find_fn(ALLOC, name, self_ty="RegisterAllocator", root=root)


# ---------------------------------------------------------------------------
# R2: SsaOp::V -> RegOp::V tables and the router


def r2_lowering_tables(rule, root=None):
    ssa = dict(O.ssa_variants(root))
    reg = dict(O.reg_variants(root))
    handled = {}
    for fname, form_ok, npay in (
        ("op_reg", lambda v: O.variant_kind(v) in ("unary", "CopyReg"), 2),
        ("op_reg_imm", lambda v: T.split_variant(v)[1] in ("RegImm", "ImmReg"), 3),
        ("op_reg_reg", lambda v: T.split_variant(v)[1] == "RegReg", 3),
    ):
        fn = afn(fname, root)
        ms = O.match_on(fn, "SsaOp", min_arms=8)
        if len(ms) != 1:
            rule.lost("match over SsaOp in RegisterAllocator::%s" % fname)
            continue
        for variant, subs, arm in O.arms_by_variant(ms[0], "SsaOp"):
            if variant is None:
                b = A.strip(arm["body"])
                if b.get("k") == "Macro" and b["name"] in ("panic", "unreachable"):
                    continue
                rule.bad("%s|wildcard" % fname, "%s: catch-all arm does not diverge" % fname, A.where(fn, arm))
                continue
            handled[variant] = fname
            body = A.strip(arm["body"])
            if body.get("k") == "Block" and len(body["stmts"]) == 1:
                body = A.strip(A.stmt_expr(body["stmts"][0]) or body)
            names = [A.binding_name(s) for s in (subs or [])]
            key = "%s|%s" % (fname, variant)
            if body.get("k") != "Tuple" or len(body["elems"]) != npay + 1:
                rule.bad(key, "%s arm for %s is not a (%d fields, constructor) tuple" % (fname, variant, npay), A.where(fn, arm))
                continue
            elems = [A.strip(e) for e in body["elems"]]
            got_names = [A.ident(e) for e in elems[:npay]]
            ctor = A.path_segs(elems[npay])
            if None in names or got_names != names:
                rule.bad(key, "%s: payload (%s) is forwarded as (%s)" % (variant, ", ".join(map(str, names)), ", ".join(map(str, got_names))), A.where(fn, arm))
            elif ctor is None or ctor[-2:] != ["RegOp", variant]:
                rule.bad(key, "SsaOp::%s is lowered to %s, expected RegOp::%s" % (variant, A.unparse(elems[npay]), variant), A.where(fn, arm))
            elif not form_ok(variant):
                rule.bad(key, "SsaOp::%s does not belong in %s" % (variant, fname), A.where(fn, arm))
            elif variant not in reg:
                rule.bad(key, "RegOp::%s does not exist" % variant, A.where(fn, arm))
            else:
                rule.ok("%s: SsaOp::%s -> RegOp::%s" % (fname, variant, variant), file=ALLOC, line=arm["ln"])
    # router
    fn = afn("op", root)
    ms = O.match_on(fn, "SsaOp", min_arms=20)
    if len(ms) != 1:
        rule.lost("match over SsaOp in RegisterAllocator::op")
        return
    want_handler = {"Output": "op_output", "Input": "op_input", "CopyImm": "op_copy_imm"}
    seen = set()
    for variant, subs, arm in O.arms_by_variant(ms[0], "SsaOp"):
        if variant is None:
            rule.bad("op|wildcard", "RegisterAllocator::op has a catch-all arm", A.where(fn, arm))
            continue
        seen.add(variant)
        b = A.strip(arm["body"])
        callee = b["method"] if b.get("k") == "MethodCall" else None
        want = want_handler.get(variant) or handled.get(variant)
        if callee != want:
            rule.bad("op|%s" % variant, "SsaOp::%s is routed to %s, but its table entry is in %s" % (variant, callee, want), A.where(fn, arm))
            continue
        if variant in want_handler:
            names = [A.binding_name(s) for s in (subs or [])]
            args = [A.ident(A.strip(a)) for a in b["args"]]
            if names != args or None in names:
                rule.bad("op|%s" % variant, "SsaOp::%s(%s) is passed on as (%s)" % (variant, names, args), A.where(fn, arm))
                continue
        rule.ok("op: SsaOp::%s -> %s" % (variant, callee), file=ALLOC, line=arm["ln"])
    for v in ssa:
        if v not in seen:
            rule.bad("op|%s|missing" % v, "RegisterAllocator::op has no arm for SsaOp::%s" % v, A.where(fn, ms[0]))
    # the three out-only wrappers build their namesake RegOp with (out, payload)
    for fname, ctor, second in (("op_copy_imm", "CopyImm", "imm"), ("op_input", "Input", "i")):
        f = afn(fname, root)
        cl = list(A.find(f["body"], "Closure"))
        ok = False
        if len(cl) == 1:
            pn = [A.binding_name(p) for p in cl[0]["inputs"]]
            call = A.strip(cl[0]["body"])
            if call.get("k") == "Call" and (A.path_segs(call["func"]) or [])[-2:] == ["RegOp", ctor]:
                args = [A.ident(A.strip(a)) for a in call["args"]]
                params = [A.binding_name(i["pat"]) for i in f["sig"]["inputs"] if "pat" in i]
                ok = len(pn) == 1 and args == [pn[0], params[1]]
        if ok:
            rule.ok("%s builds RegOp::%s(out, %s)" % (fname, ctor, second))
        else:
            rule.bad("%s|ctor" % fname, "%s does not build RegOp::%s(out, <its second parameter>)" % (fname, ctor), A.where(f))


# ---------------------------------------------------------------------------
# R4: per-arm protocol


def _self_call(e, name):
    e = A.strip(e)
    return (
        e is not None
        and e.get("k") == "MethodCall"
        and e["method"] == name
        and A.ident(A.strip(e["recv"])) == "self"
    )


def _out_push(e):
    """self.out.push(X) -> X"""
    e = A.strip(e)
    if e is not None and e.get("k") == "MethodCall" and e["method"] == "push" and len(e["args"]) == 1:
        r = A.strip(e["recv"])
        if r.get("k") == "Field" and r["member"] == "out" and A.ident(A.strip(r["e"])) == "self":
            return A.strip(e["args"][0])
    return None


def arm_events(arm):
    """ordered events of one allocation arm"""
    ev = {"fresh": [], "stores": [], "pushes": [], "release": [], "bind": [], "rebind": [], "asserts": [], "other": [], "tail": None, "seq": []}
    stmts = A.inline_simple_lets(A.stmts_of(arm["body"]), pure_calls=("op",))  # `op` is the RegOp constructor passed in
    for idx, s in enumerate(stmts):
        if s.get("k") == "Let":
            n = A.binding_name(s["pat"])
            if n and _self_call(s.get("init"), "get_register"):
                ev["fresh"].append(n)
                ev["seq"].append(("fresh", n))
            else:
                ev["other"].append(A.unparse(s))
            continue
        e = A.stmt_expr(s)
        if e is None:
            ev["other"].append(A.unparse(s))
            continue
        e = A.strip(e)
        p = _out_push(e)
        if p is not None:
            ev["pushes"].append(p)
            ev["seq"].append(("push", None))
        elif _self_call(e, "push_store"):
            ev["stores"].append([A.ident(A.strip(a)) for a in e["args"]])
        elif _self_call(e, "release_reg"):
            ev["release"].append([A.ident(A.strip(a)) for a in e["args"]])
            ev["seq"].append(("release", A.ident(A.strip(e["args"][0])) if e["args"] else None))
        elif _self_call(e, "bind_register"):
            ev["bind"].append([A.ident(A.strip(a)) for a in e["args"]])
        elif _self_call(e, "rebind_register"):
            ev["rebind"].append([A.ident(A.strip(a)) for a in e["args"]])
            ev["seq"].append(("release", A.ident(A.strip(e["args"][1])) if len(e["args"]) == 2 else None))
        elif e.get("k") == "Macro" and e["name"] in ("assert", "assert_eq", "assert_ne", "debug_assert"):
            ev["asserts"].append(A.unparse(e))
        elif idx == len(stmts) - 1 and not s.get("semi", True):
            ev["tail"] = e
        else:
            ev["other"].append(A.unparse(e))
    return ev


def alloc_kinds(pat):
    """pattern over Allocation (single or tuple) -> [(kind, bound name)]"""
    els = pat["elems"] if pat.get("k") == "PTuple" else [pat]
    out = []
    for el in els:
        segs, subs = A.pat_variant(el)
        if not segs or segs[0] != "Allocation":
            return None
        name = A.binding_name(subs[0]) if subs else None
        out.append((segs[-1], name))
    return out


def guard_is_equal(arm, a, b):
    g = arm.get("guard")
    if not g:
        return False
    g = A.strip(g)
    return g.get("k") == "Binary" and g["op"] == "==" and {A.ident(A.strip(g["left"])), A.ident(A.strip(g["right"]))} == {a, b}


def _split_eq_arms(arms, operands):
    """an unguarded arm whose whole body is `if a == b {X} else {Y}` (or `!=` with the branches the other
    way round) is the guarded arm `if a == b => X` followed by the unguarded arm `=> Y`"""
    out = []
    for arm in arms:
        body = A.strip(arm["body"])
        st = A.stmts_of(body) if body.get("k") == "Block" else [body]
        e = A.strip(A.stmt_expr(st[0]) or {}) if len(st) == 1 else {}
        if arm.get("guard") or len(operands) != 2 or e.get("k") != "If" or e.get("else") is None:
            out.append(arm)
            continue
        c = A.strip(e["cond"])
        if not (c.get("k") == "Binary" and c["op"] in ("==", "!=") and {A.ident(A.strip(c["left"])), A.ident(A.strip(c["right"]))} == set(operands)):
            out.append(arm)
            continue
        eq_body, ne_body = (e["then"], e["else"]) if c["op"] == "==" else (e["else"], e["then"])
        guard = c if c["op"] == "==" else dict(c, op="==")
        out.append(dict(arm, guard=guard, body=eq_body))
        out.append(dict(arm, body=ne_body))
    return out


def check_protocol_match(rule, fn, m, operands, r_x, opname, fname, has_out=True):
    """`m` matches on the allocation(s) of `operands` (SSA names); r_x is the
    variable holding the output register (None for op_output)."""
    seen = {}
    for arm in _split_eq_arms(m["arms"], operands):
        kinds = alloc_kinds(arm["pat"])
        if kinds is None or len(kinds) != len(operands):
            rule.bad("%s|pattern" % fname, "unrecognised allocation pattern `%s`" % A.unparse(arm["pat"]), A.where(fn, arm))
            continue
        label = ",".join(k for k, _ in kinds)
        equal = len(operands) == 2 and guard_is_equal(arm, *operands)
        if arm.get("guard") and not equal:
            rule.bad("%s|%s|guard" % (fname, label), "unexpected guard `%s`" % A.unparse(arm["guard"]), A.where(fn, arm))
            continue
        key = "%s|%s%s" % (fname, label, "|eq" if equal else "")
        seen[(label, equal)] = arm
        ev = arm_events(arm)
        probs = []
        if ev["other"]:
            probs.append("unrecognised statements %s" % ev["other"][:2])
        if len(ev["pushes"]) != 1:
            probs.append("expected exactly one op pushed to the tape, found %d" % len(ev["pushes"]))
        else:
            call = ev["pushes"][0]
            args = [A.ident(A.strip(a)) for a in call.get("args", [])] if call.get("k") == "Call" else None
            callee = A.path_segs(call.get("func")) if call.get("k") == "Call" else None
            if args is None or callee is None or callee[-1] != opname:
                probs.append("pushed value `%s` is not %s(..)" % (A.unparse(call)[:40], opname))
            else:
                pos0 = 0
                if has_out:
                    if args[0] != r_x:
                        probs.append("first operand of the op is `%s`, expected the output register `%s`" % (args[0], r_x))
                    pos0 = 1
                fresh_unused = list(ev["fresh"])
                stores = list(ev["stores"])
                binds = list(ev["bind"])
                rebinds = list(ev["rebind"])
                for i, ((kind, bname), ssa) in enumerate(zip(kinds, operands)):
                    got = args[pos0 + i] if pos0 + i < len(args) else None
                    if kind == "Register":
                        if got != bname:
                            probs.append("operand %s is in register `%s` but the op uses `%s`" % (ssa, bname, got))
                    elif kind == "Memory":
                        if equal and i == 1:
                            # same SSA value as operand 0: must reuse its fresh register
                            if got != args[pos0]:
                                probs.append("lhs == rhs arm uses two different registers")
                            continue
                        if got not in ev["fresh"]:
                            probs.append("operand %s is in memory; the op must use a fresh register, uses `%s`" % (ssa, got))
                            continue
                        if got in fresh_unused:
                            fresh_unused.remove(got)
                        else:
                            probs.append("fresh register `%s` used for two operands" % got)
                        if [got, bname] in stores:
                            stores.remove([got, bname])
                        else:
                            probs.append("missing push_store(%s, %s) for memory operand %s" % (got, bname, ssa))
                        if [ssa, got] in binds:
                            binds.remove([ssa, got])
                        else:
                            probs.append("missing bind_register(%s, %s)" % (ssa, got))
                    elif kind == "Unassigned":
                        if equal and i == 1:
                            if got != args[pos0]:
                                probs.append("lhs == rhs arm uses two different registers")
                            continue
                        if has_out and got == r_x:
                            if [ssa, r_x] in rebinds:
                                rebinds.remove([ssa, r_x])
                            else:
                                probs.append("operand %s takes over `%s` but rebind_register(%s, %s) is missing" % (ssa, r_x, ssa, r_x))
                        elif got in ev["fresh"]:
                            if got in fresh_unused:
                                fresh_unused.remove(got)
                            else:
                                probs.append("fresh register `%s` used for two operands" % got)
                            if [ssa, got] in binds:
                                binds.remove([ssa, got])
                            else:
                                probs.append("missing bind_register(%s, %s)" % (ssa, got))
                        else:
                            probs.append("unassigned operand %s uses `%s`, which is neither the output register nor fresh" % (ssa, got))
                if fresh_unused:
                    probs.append("fresh register(s) %s obtained but not used by the op" % fresh_unused)
                if stores:
                    probs.append("stray push_store%s" % stores)
                if binds:
                    probs.append("stray bind_register%s" % binds)
                if rebinds:
                    probs.append("stray rebind_register%s" % rebinds)
                if has_out:
                    # the output register stays held until the op is on the tape and every fresh register was
                    # taken: get_register() after the release may hand r_x itself out as the "fresh" one
                    gave_up = [i_ for i_, (k_, a_) in enumerate(ev["seq"]) if k_ == "release" and a_ == r_x]
                    if gave_up:
                        late = [a_ for i_, (k_, a_) in enumerate(ev["seq"]) if i_ > gave_up[0] and k_ in ("fresh", "push")]
                        if late:
                            probs.append("the output register `%s` is released / rebound before %s: a register obtained after that can be `%s` itself, so an operand's register and the output coincide" % (r_x, "get_register()" if any(a_ for a_ in late) else "the op is pushed", r_x))
                    n_rel = len([r for r in ev["release"] if r == [r_x]])
                    n_reb = len([r for r in ev["rebind"] if len(r) == 2 and r[1] == r_x])
                    if len(ev["release"]) != n_rel:
                        probs.append("release_reg of something other than the output register: %s" % ev["release"])
                    if n_rel + n_reb != 1:
                        probs.append("the output register must be released or rebound exactly once (released %d, rebound %d)" % (n_rel, n_reb))
                elif ev["release"]:
                    probs.append("op_output must not release a register")
        if probs:
            for p in probs:
                rule.bad("%s|%s" % (key, p[:48]), "%s arm (%s)%s: %s" % (fname, label, " if lhs==rhs" if equal else "", p), A.where(fn, arm))
        else:
            rule.ok("%s (%s)%s" % (fname, label, " if lhs==rhs" if equal else ""), file=ALLOC, line=arm["ln"])
    return seen


def r4_protocol(rule, root=None):
    # op_reg_fn
    fn = afn("op_reg_fn", root)
    params = [A.binding_name(i["pat"]) for i in fn["sig"]["inputs"] if "pat" in i]
    out_name, arg_name, op_name = params
    rx = _out_reg_var(fn, out_name)
    m = _alloc_match(fn, [arg_name])
    seen = check_protocol_match(rule, fn, m, [arg_name], rx, op_name, "op_reg_fn")
    _want_cases(rule, fn, "op_reg_fn", seen, [("Register", False), ("Memory", False), ("Unassigned", False)])
    # op_reg_reg
    fn = afn("op_reg_reg", root)
    tbl = O.match_on(fn, "SsaOp", min_arms=8)[0]
    lets = [s for s in fn["body"]["stmts"] if s.get("k") == "Let" and s.get("init") is tbl]
    if len(lets) != 1 or lets[0]["pat"].get("k") not in ("PType", "PTuple"):
        raise A.AnchorLost("`let (out, lhs, rhs, op) = match op {..}` in op_reg_reg")
    p = lets[0]["pat"]
    if p.get("k") == "PType":
        p = p["pat"]
    out_name, lhs, rhs, op_name = [A.binding_name(x) for x in p["elems"]]
    rx = _out_reg_var(fn, out_name)
    m = _alloc_match(fn, [lhs, rhs])
    seen = check_protocol_match(rule, fn, m, [lhs, rhs], rx, op_name, "op_reg_reg")
    want = [
        ("Register,Register", False), ("Memory,Register", False), ("Register,Memory", False),
        ("Memory,Memory", True), ("Memory,Memory", False), ("Unassigned,Register", False),
        ("Register,Unassigned", False), ("Unassigned,Unassigned", True), ("Unassigned,Unassigned", False),
        ("Unassigned,Memory", False), ("Memory,Unassigned", False),
    ]
    _want_cases(rule, fn, "op_reg_reg", seen, want)
    # guarded arms precede their unguarded siblings
    order = [(",".join(k for k, _ in (alloc_kinds(a["pat"]) or [])), bool(a.get("guard"))) for a in _split_eq_arms(m["arms"], [lhs, rhs])]
    for lab in ("Memory,Memory", "Unassigned,Unassigned"):
        if (lab, True) in order and (lab, False) in order and order.index((lab, True)) > order.index((lab, False)):
            rule.bad("op_reg_reg|%s|order" % lab, "the `if lhs == rhs` arm for (%s) comes after the general arm and is unreachable" % lab, A.where(fn, m))
    # op_output
    fn = afn("op_output", root)
    params = [A.binding_name(i["pat"]) for i in fn["sig"]["inputs"] if "pat" in i]
    m = _alloc_match(fn, [params[0]])
    seen = {}
    alts = []
    for arm in m["arms"]:
        for alt in A.flatten_or(arm["pat"]):
            alts.append((arm, alt))
    for arm, alt in alts:
        kinds = alloc_kinds(alt)
        if not kinds:
            segs_, _subs = A.pat_variant(alt)
            kinds = [((segs_ or ["?"])[-1], None)]
        label = kinds[0][0]
        seen[(label, False)] = arm
        ev = arm_events(arm)
        # single-expression arm: `self.out.push(..)` is the tail
        pushes = ev["pushes"] + ([_out_push(ev["tail"])] if ev["tail"] is not None and _out_push(ev["tail"]) is not None else [])
        probs = []
        if len(pushes) != 1:
            probs.append("expected one push, found %d" % len(pushes))
        else:
            c = pushes[0]
            segs = A.path_segs(c.get("func")) if c.get("k") == "Call" else None
            args = [A.ident(A.strip(a)) for a in c.get("args", [])]
            if not segs or segs[-2:] != ["RegOp", "Output"] or len(args) != 2:
                probs.append("does not push RegOp::Output(reg, i)")
            else:
                if args[1] != params[1]:
                    probs.append("output index `%s` is not the parameter `%s`" % (args[1], params[1]))
                kind, bname = kinds[0]
                if kind == "Register":
                    if args[0] != bname:
                        probs.append("uses `%s`, expected the bound register `%s`" % (args[0], bname))
                    if ev["fresh"] or ev["stores"] or ev["bind"]:
                        probs.append("register case must not allocate")
                else:
                    if ev["fresh"] != [args[0]]:
                        probs.append("uses `%s`, expected the one fresh register %s" % (args[0], ev["fresh"]))
                    if ev["bind"] != [[params[0], args[0]]]:
                        probs.append("must bind_register(%s, %s); found %s" % (params[0], args[0], ev["bind"]))
                    if kind == "Memory" and ev["stores"] != [[args[0], bname]]:
                        probs.append("must push_store(%s, %s); found %s" % (args[0], bname, ev["stores"]))
                    if kind == "Unassigned" and ev["stores"]:
                        probs.append("unassigned case must not store")
                if ev["release"] or ev["rebind"]:
                    probs.append("op_output must not release or rebind")
        if probs:
            for p_ in probs:
                rule.bad("op_output|%s|%s" % (label, p_[:40]), "op_output arm (%s): %s" % (label, p_), A.where(fn, arm))
        else:
            rule.ok("op_output (%s)" % label, file=ALLOC, line=arm["ln"])
    _want_cases(rule, fn, "op_output", seen, [("Register", False), ("Memory", False), ("Unassigned", False)])
    # get_out_reg
    fn = afn("get_out_reg", root)
    params = [A.binding_name(i["pat"]) for i in fn["sig"]["inputs"] if "pat" in i]
    m = _alloc_match(fn, [params[0]])
    seen = {}
    for arm in m["arms"]:
        kinds = alloc_kinds(arm["pat"])
        kind, bname = kinds[0]
        seen[(kind, False)] = arm
        b = A.strip(arm["body"])
        probs = []
        if kind == "Register":
            if A.ident(b) != bname:
                probs.append("must return the bound register")
        elif kind == "Unassigned":
            if not (b.get("k") == "Macro" and b["name"] in ("panic", "unreachable")):
                probs.append("an unassigned output must fail loudly")
        else:
            ev = arm_events(arm)
            if len(ev["fresh"]) != 1:
                probs.append("expected one fresh register")
            else:
                r = ev["fresh"][0]
                if ev["stores"] != [[r, bname]]:
                    probs.append("must push_store(%s, %s); found %s" % (r, bname, ev["stores"]))
                if ev["bind"] != [[params[0], r]]:
                    probs.append("must bind_register(%s, %s); found %s" % (params[0], r, ev["bind"]))
                if ev["tail"] is None or A.ident(ev["tail"]) != r:
                    probs.append("must return the fresh register")
                if ev["release"] or ev["rebind"] or ev["pushes"]:
                    probs.append("unexpected release/rebind/push")
        if probs:
            for p_ in probs:
                rule.bad("get_out_reg|%s|%s" % (kind, p_[:40]), "get_out_reg arm (%s): %s" % (kind, p_), A.where(fn, arm))
        else:
            rule.ok("get_out_reg (%s)" % kind, file=ALLOC, line=arm["ln"])
    _want_cases(rule, fn, "get_out_reg", seen, [("Register", False), ("Memory", False), ("Unassigned", False)])
    # op_out_only: r_x = get_out_reg(out); push(op(r_x)); release_reg(r_x)
    fn = afn("op_out_only", root)
    params = [A.binding_name(i["pat"]) for i in fn["sig"]["inputs"] if "pat" in i]
    rx = _out_reg_var(fn, params[0])
    ev = arm_events({"body": fn["body"]})
    ok = (
        len(ev["pushes"]) == 1
        and ev["pushes"][0].get("k") == "Call"
        and A.ident(A.strip(ev["pushes"][0]["func"])) == params[1]
        and [A.ident(A.strip(a)) for a in ev["pushes"][0]["args"]] == [rx]
        and ev["release"] == [[rx]]
        and not ev["bind"] and not ev["rebind"] and not ev["stores"]
    )
    if ok:
        rule.ok("op_out_only")
    else:
        rule.bad("op_out_only", "op_out_only must be: r_x = get_out_reg(out); push(op(r_x)); release_reg(r_x)", A.where(fn))


def _want_cases(rule, fn, fname, seen, want):
    for w in want:
        if w not in seen:
            rule.bad("%s|%s%s|missing" % (fname, w[0], "|eq" if w[1] else ""), "%s has no arm for (%s)%s" % (fname, w[0], " if lhs == rhs" if w[1] else ""), A.where(fn))


def _out_reg_var(fn, out_name):
    for s in fn["body"]["stmts"]:
        if s.get("k") == "Let" and _self_call(s.get("init"), "get_out_reg"):
            args = [A.ident(A.strip(a)) for a in A.strip(s["init"])["args"]]
            if args == [out_name]:
                return A.binding_name(s["pat"])
    raise A.AnchorLost("`let r_x = self.get_out_reg(%s)` in %s" % (out_name, fn["name"]))


def _single_variant_arms(fn, operand):
    """a function that takes the allocation of one operand apart without a `match` over it - `let a =
    self.get_allocation(x); if let Allocation::Register(r) = a { ..; return; } .. if let Allocation::Memory(m)
    = a { .. } ..` - read as one straight-line arm per variant: the statements executed when the allocation
    is that variant"""
    avar = None
    for l in A.find(fn["body"], "Let"):
        if l.get("init") is not None and _self_call(l["init"], "get_allocation") and [A.ident(A.strip(a)) for a in A.strip(l["init"])["args"]] == [operand]:
            avar = A.binding_name(l["pat"])
    if avar is None:
        return None

    def test(cond):
        c = A.strip(cond)
        if c.get("k") == "LetCond" and A.ident(A.strip(c["e"])) == avar:
            segs, subs = A.pat_variant(c["pat"])
            if segs and segs[0] == "Allocation":
                return segs[-1], (subs or [None])[0]
        return None

    arms = []
    for variant in ("Register", "Memory", "Unassigned"):
        out = []
        bound = [None]
        done = [False]

        def walk(stmts):
            for s_ in stmts:
                if done[0]:
                    return
                if s_.get("k") == "Let" and A.binding_name(s_["pat"]) == avar:
                    continue
                e = A.strip(A.stmt_expr(s_) or {})
                if e.get("k") == "If":
                    tst = test(e["cond"])
                    if tst is not None:
                        if tst[0] == variant:
                            if tst[1] is not None:
                                bound[0] = tst[1]
                            walk(A.stmts_of(e["then"]))
                        elif e.get("else") is not None:
                            walk(A.stmts_of(e["else"]))
                        continue
                if e.get("k") == "Match" and A.ident(A.strip(e["e"])) == avar:
                    for arm in e["arms"]:
                        segs, subs = A.pat_variant(arm["pat"])
                        if segs and segs[-1] == variant:
                            if subs:
                                bound[0] = subs[0]
                            walk(A.stmts_of(arm["body"]))
                    continue
                if e.get("k") == "Return":
                    done[0] = True
                    return
                out.append(s_)

        walk(fn["body"]["stmts"])
        pat = {"k": "PTupleStruct", "path": {"k": "Path", "segs": ["Allocation", variant]}, "elems": [bound[0]] if bound[0] is not None else []}
        if variant == "Unassigned":
            pat = {"k": "PPath", "path": {"k": "Path", "segs": ["Allocation", variant]}}
        arms.append({"pat": pat, "body": {"k": "Block", "stmts": out, "ln": fn["ln"]}, "ln": fn["ln"]})
    return {"k": "Match", "arms": arms, "ln": fn["ln"], "_synthetic": True}


def _alloc_match(fn, operands):
    if len(operands) == 1:
        syn = _single_variant_arms(fn, operands[0])
        if syn is not None and not any(_self_call(A.strip(m["e"]), "get_allocation") for m in A.find(fn["body"], "Match")):
            return syn
    for m in A.find(fn["body"], "Match"):
        e = A.strip(m["e"])
        els = e["elems"] if e.get("k") == "Tuple" else [e]
        if len(els) != len(operands):
            continue
        ok = True
        for el, o in zip(els, operands):
            el = A.strip(el)
            if not (_self_call(el, "get_allocation") and [A.ident(A.strip(a)) for a in el["args"]] == [o]):
                ok = False
        if ok:
            return m
    raise A.AnchorLost("match on get_allocation(%s) in %s" % (", ".join(operands), fn["name"]))


# ---------------------------------------------------------------------------
# R5: helper effect summaries


def _assign_set(fn, env=None):
    """all assignments in a function body as (left, right) term pairs, plus
    method-call events on self fields"""
    env = env or T.Env(slot_names=())
    assigns = []
    calls = []

    def rec(body, env):
        for s in A.stmts_of(body):
            if s.get("k") == "Let":
                if s.get("init") is not None:
                    for n in A.walk(s["init"]):
                        visit_expr(n, env, shallow=True)
                T.bind_let(s, env)
                if s.get("init") is not None and A.strip(s["init"]).get("k") in ("If", "Match", "Block"):
                    rec_expr(A.strip(s["init"]), env)
                continue
            e = A.stmt_expr(s)
            if e is None:
                continue
            rec_expr(A.strip(e), env)

    def visit_expr(n, env, shallow=False):
        k = n.get("k")
        if k == "MethodCall":
            calls.append((T.norm(n["recv"], env), n["method"], tuple(T.norm(a, env) for a in n["args"])))

    def rec_expr(e, env):
        k = e.get("k")
        if k == "Assign":
            assigns.append((T.norm(e["left"], env), T.norm(e["right"], env)))
        elif k == "Binary" and e["op"].endswith("=") and e["op"] not in ("==", "!=", "<=", ">="):
            assigns.append((T.norm(e["left"], env), ("bin", e["op"], T.norm(e["left"], env), T.norm(e["right"], env))))
        elif k == "If":
            c = A.strip(e["cond"])
            env2 = env.copy()
            if c.get("k") == "LetCond":
                for n in A.walk(c["e"]):
                    visit_expr(n, env)
                nm = A.pat_names(c["pat"])
                for x in nm:
                    env2.vars[x] = ("var", x)
            rec(e["then"], env2)
            if e.get("else"):
                rec_expr(A.strip(e["else"]), env.copy())
        elif k == "Block":
            rec(e, env.copy())
        elif k == "Match":
            for n in A.walk(e["e"]):
                visit_expr(n, env)
            for arm in e["arms"]:
                env2 = env.copy()
                for x in A.pat_names(arm["pat"]):
                    env2.vars[x] = ("var", x)
                b = A.strip(arm["body"])
                if b.get("k") == "Block":
                    rec(b, env2)
                else:
                    rec_expr(b, env2)
        elif k == "MethodCall":
            for n in A.walk(e):
                visit_expr(n, env)
        elif k == "Macro":
            pass
        else:
            for n in A.walk(e):
                visit_expr(n, env)

    rec(fn["body"], env)
    return assigns, calls


def _selff(name):
    return ("field", ("var", "self"), name)


def r5_helpers(rule, root=None):
    UN = ("var", "UNASSIGNED")

    def idx(field, i):
        return ("idx", _selff(field), i)

    specs = {
        "bind_register": {
            "params": ["n", "reg"],
            "assign": [(idx("registers", ("var", "P1")), ("var", "P0")), (idx("allocations", ("var", "P0")), ("var", "P1"))],
        },
        "rebind_register": {
            "params": ["n", "reg"],
            "assign": [
                (idx("allocations", idx("registers", ("var", "P1"))), UN),
                (idx("registers", ("var", "P1")), ("var", "P0")),
                (idx("allocations", ("var", "P0")), ("var", "P1")),
            ],
        },
        "release_reg": {
            "params": ["reg"],
            "assign": [(idx("registers", ("var", "P0")), UN), (idx("allocations", idx("registers", ("var", "P0"))), UN)],
            "calls": [(_selff("spare_registers"), "push", (("var", "P0"),))],
        },
        "release_mem": {"params": ["mem"], "assign": [], "calls": [(_selff("spare_memory"), "push", (("var", "P0"),))]},
        "push_store": {
            "params": ["reg", "mem"],
            "assign": [],
            "calls": [
                (_selff("out"), "push", (("m", "Store", ("var", "P0"), ("var", "P1")),)),
                (("var", "self"), "release_mem", (("var", "P1"),)),
            ],
        },
    }
    for name, sp in specs.items():
        fn = afn(name, root)
        params = [A.binding_name(i["pat"]) for i in fn["sig"]["inputs"] if "pat" in i]
        env = T.Env(slot_names=())
        for i, p in enumerate(params):
            env.vars[p] = ("var", "P%d" % i)
        assigns, calls = _assign_set(fn, env)
        for want in sp.get("assign", []):
            if want in assigns:
                rule.ok("%s: %s = %s" % (name, T.show(want[0]), T.show(want[1])), file=ALLOC, line=fn["ln"])
            else:
                rule.bad("%s|%s" % (name, T.show(want[0])), "%s must perform `%s = %s`; found %s" % (name, T.show(want[0]), T.show(want[1]), [T.show(a) + " = " + T.show(b) for a, b in assigns]), A.where(fn))
        # only writes to the allocator's own tables count as "unexpected"
        extra = [
            a
            for a in assigns
            if a not in sp.get("assign", [])
            and any(f in T.show(a[0]) for f in ("allocations", "registers", "spare_", "slot_count"))
        ]
        for a in extra:
            rule.bad("%s|extra|%s" % (name, T.show(a[0])), "%s performs an unexpected write `%s = %s`" % (name, T.show(a[0]), T.show(a[1])), A.where(fn))
        for want in sp.get("calls", []):
            if want in calls:
                rule.ok("%s: %s.%s(..)" % (name, T.show(want[0]), want[1]))
            else:
                rule.bad("%s|call|%s" % (name, want[1]), "%s must call %s.%s(%s)" % (name, T.show(want[0]), want[1], ", ".join(T.show(x) for x in want[2])), A.where(fn))
    # get_register: spare path pokes; evict path spills the victim (read with same-file helpers expanded
    # in place: an extracted eviction helper is the same path)
    fn0 = afn("get_register", root)
    fn = dict(fn0)
    fn["body"] = A.inline_helpers(fn0, keep=("get_spare_register", "oldest_reg", "get_memory"))
    assigns, calls = _assign_set(fn)
    want_assign = [
        (idx("allocations", idx("registers", ("var", "reg"))), ("m", "get_memory", ("var", "self"))),
        (idx("registers", ("var", "reg")), UN),
    ]
    # the victim register comes from oldest_reg(), the spill slot from get_memory()
    norm_assigns = []
    for l, r in assigns:
        norm_assigns.append((_subst(l), _subst(r)))
    for want in want_assign:
        w = (_subst(want[0]), _subst(want[1]))
        if w in norm_assigns:
            rule.ok("get_register (evict): %s = %s" % (T.show(w[0]), T.show(w[1])))
        else:
            rule.bad("get_register|%s" % T.show(want[0]), "get_register's eviction path must perform `%s = %s`; found %s" % (T.show(w[0]), T.show(w[1]), [T.show(a) + " = " + T.show(b) for a, b in norm_assigns]), A.where(fn))
    load = [c for c in calls if c[1] == "push" and c[0] == _selff("out")]
    want_load = ("m", "Load", ("m", "oldest_reg", ("var", "self")), ("m", "get_memory", ("var", "self")))
    if len(load) == 1 and _subst(load[0][2][0]) == want_load:
        rule.ok("get_register (evict): pushes Load(victim, spill slot)")
    else:
        rule.bad("get_register|load", "get_register's eviction path must push RegOp::Load(<oldest_reg()>, <get_memory()>); found %s" % [T.show(c[2][0]) for c in load], A.where(fn))
    pokes = [c for c in calls if c[1] == "poke" and c[0] == _selff("register_lru")]
    if len(pokes) == 1:
        rule.ok("get_register (spare): pokes the LRU")
    else:
        rule.bad("get_register|poke", "get_register's spare path must poke the LRU exactly once", A.where(fn))
    # get_allocation: register iff < N, and poked
    fn = afn("get_allocation", root)
    ms = list(A.find(fn["body"], "Match"))
    ok = False
    if len(ms) == 1 and len(ms[0]["arms"]) == 3:
        a0, a1, a2 = ms[0]["arms"]
        g = A.strip(a0.get("guard")) if a0.get("guard") else None
        nm = A.binding_name(a0["pat"])
        cond = g is not None and g.get("k") == "Binary" and g["op"] == "<" and A.ident(A.strip(g["left"])) == nm and "N" in A.unparse(g["right"])
        b0 = A.unparse(a0["body"])
        ok = (
            cond
            and "register_lru.poke" in b0
            and "Allocation::Register" in b0
            and A.unparse(a1["pat"]) == "UNASSIGNED"
            and "Allocation::Unassigned" in A.unparse(a1["body"])
            and "Allocation::Memory" in A.unparse(a2["body"])
        )
    if not ok:
        ok = _allocation_cases(fn)
    if ok:
        rule.ok("get_allocation: i < N => Register (poked); UNASSIGNED => Unassigned; else Memory")
    else:
        rule.bad("get_allocation", "get_allocation no longer has the shape `i if i < N => poke, Register | UNASSIGNED => Unassigned | i => Memory`", A.where(fn))
    # get_memory: pops a spare or grows slot_count by exactly one, returning the old count
    fn = afn("get_memory", root)
    txt = A.ftxt(fn["body"])
    import re as _re

    mg = _re.search(r"let(\w+)=self\.out\.slot_count;\(self\.out\.slot_count\+=[1-9]\d*\);(?:assert!\([^;]*\);)*\1\}", str(txt))
    if "self.spare_memory.pop()" in txt and (mg or _re.search(r"letout=self\.out\.slot_count;\(self\.out\.slot_count\+=[1-9]\d*\);", txt)):
        rule.ok("get_memory: pop or slot_count++")
    else:
        rule.bad("get_memory", "get_memory must pop spare_memory or return slot_count and then increment it by one", A.where(fn))
    # get_spare_register keeps slot_count >= r + 1
    fn = afn("get_spare_register", root)
    txt = A.ftxt(fn["body"])
    if "self.spare_registers.pop()?" in txt and "self.out.slot_count=self.out.slot_count.max(((rasu32)+1))" in txt:
        rule.ok("get_spare_register: slot_count = max(slot_count, r + 1)")
    else:
        rule.bad("get_spare_register", "get_spare_register must pop a spare and raise slot_count to at least r + 1; found `%s`" % txt[:120], A.where(fn))


def _allocation_cases(fn):
    """get_allocation as an ordered decision list, whatever the spelling (match with guards or an if-chain):
    slot < N -> Register(slot) after poking the LRU; slot == UNASSIGNED -> Unassigned; else Memory(slot)"""
    import re as _re

    view = A.value_view(fn["body"])
    tail = A.unblock(view)
    if tail.get("k") == "Block":
        st = tail.get("stmts", [])
        tail = A.strip(A.stmt_expr(st[-1]) or {}) if st else {}
    cases = []
    e = tail
    while e.get("k") == "If" and e.get("else") is not None:
        cases.append((A.norm_cond(str(A.ftxt(A.strip(e["cond"])))), e["then"]))
        e = A.unblock(e["else"]) if A.unblock(e["else"]).get("k") == "If" else e["else"]
        if e.get("k") != "If":
            cases.append(("else", e))
            break
    if len(cases) != 3:
        return False
    slot = r"self\.allocations\[\(?\w+asusize\)?\]"
    # the two tests are disjoint (UNASSIGNED is u32::MAX, never < N), so their order is free
    if _re.fullmatch(r"(%s==UNASSIGNED|UNASSIGNED==%s)" % (slot, slot), cases[0][0]) and cases[2][0] == "else":
        consts = [c_ for c_ in A.find_items(ALLOC, "Const") if c_.get("name") == "UNASSIGNED"]
        if consts and str(A.ftxt(consts[0].get("e") or {})) == "u32::MAX":
            cases = [cases[1], cases[0], cases[2]]
    c0, c1, c2 = cases
    t0, t1, t2 = (str(A.ftxt(x[1])) for x in cases)
    return bool(
        _re.fullmatch(r"%s<\(?Nasu32\)?" % slot, c0[0])
        and "self.register_lru.poke(" in t0 and _re.search(r"Allocation::Register\(\(?%sasu8\)?\)" % slot, t0)
        and _re.fullmatch(r"(%s==UNASSIGNED|UNASSIGNED==%s)" % (slot, slot), c1[0]) and "Allocation::Unassigned" in t1
        and c2[0] == "else" and _re.search(r"Allocation::Memory\(%s\)" % slot, t2)
    )


def _subst(t):
    """inline `reg`/`mem`/`prev_node` lets of get_register for comparison"""
    if not isinstance(t, tuple):
        return t
    if t == ("var", "reg"):
        return ("m", "oldest_reg", ("var", "self"))
    try:
        if T.show(t) == "field(self, register_lru).pop()":
            return ("m", "oldest_reg", ("var", "self"))  # the victim is the LRU's pop, with or without a helper around it
    except Exception:  # noqa: BLE001
        pass
    return tuple(_subst(x) for x in t)
