"""Mutant self-test: apply single edits to a scratch copy of /repo and require
that the named check reports a violation whose key contains the expected text.
Also runs every check on the pristine scratch copy and requires silence.

usage: python3 -m fv.selftest [--only C01[,C02..]] [--list] [--keep]
Mutants live in fv/mutants.py as tuples
   (property, file, old, new, expected-key-substring, note)
`old` must occur exactly once in the file (or `old` may be ('nth', n, text))."""
import argparse
import os
import shutil
import subprocess
import sys
import tempfile

from . import ast as A

VERIF = A.VERIF


def make_copy(dst):
    subprocess.run(
        ["rsync", "-a", "--exclude", "target", "--exclude", ".git", "--exclude", "node_modules", A.REPO + "/", dst + "/"],
        check=True,
    )


def run_check(pid, root):
    env = dict(os.environ, FV_REPO=root, FV_SELFTEST="1")
    p = subprocess.run([os.path.join(VERIF, "check"), pid], env=env, capture_output=True, text=True)
    return p.returncode, p.stdout + p.stderr


def apply(root, file, old, new):
    p = os.path.join(root, file)
    s = open(p).read()
    if isinstance(old, tuple) and old[0] == "all":
        if old[1] not in s:
            return None
        s2 = s.replace(old[1], new)
    elif isinstance(old, tuple) and old[0] == "nth":
        _, n, text = old
        idx = -1
        for _ in range(n + 1):
            idx = s.find(text, idx + 1)
            if idx < 0:
                return None
        s2 = s[:idx] + new + s[idx + len(text):]
    else:
        if s.count(old) != 1:
            return None
        s2 = s.replace(old, new)
    open(p, "w").write(s2)
    return s


def main():
    ap = argparse.ArgumentParser()
    ap.add_argument("--only")
    ap.add_argument("--list", action="store_true")
    ap.add_argument("--no-clean", action="store_true")
    ap.add_argument("--last", type=int, help="only the last N mutants of the list")
    args = ap.parse_args()
    from .mutants import MUTANTS

    only = set(args.only.split(",")) if args.only else None
    muts = [m for m in MUTANTS if only is None or m[0] in only]
    if args.last:
        muts = muts[-args.last:]
    if args.list:
        for m in muts:
            print(m[0], m[1], m[5])
        return 0
    root = tempfile.mkdtemp(prefix="fv-selftest-")
    fails = 0
    try:
        make_copy(root)
        # evidence files are rewritten by each run: keep the real ones aside
        evdir = os.path.join(VERIF, "evidence")
        keep = tempfile.mkdtemp(prefix="fv-ev-")
        if os.path.isdir(evdir):
            shutil.copytree(evdir, keep, dirs_exist_ok=True)
        pids = sorted({m[0] for m in muts})
        if not args.no_clean:
            for pid in pids:
                rc, out = run_check(pid, root)
                if rc != 0:
                    print("FAIL clean copy: %s exits %d\n%s" % (pid, rc, out))
                    fails += 1
        for pid, file, old, new, expect, note in muts:
            orig = apply(root, file, old, new)
            if orig is None:
                print("FAIL %s: mutant does not apply (%s): %s" % (pid, file, note))
                fails += 1
                continue
            A._TREE_HASH.clear()
            rc, out = run_check(pid, root)
            open(os.path.join(root, file), "w").write(orig)
            hit = [l for l in out.splitlines() if l.strip().startswith("[") and expect in l]
            if rc == 1 and hit:
                print("ok   %s %-40s -> %s" % (pid, note[:40], hit[0].strip()[:110]))
            else:
                print("FAIL %s %s: rc=%d, expected key containing %r\n%s" % (pid, note, rc, expect, out[-1500:]))
                fails += 1
        if os.path.isdir(keep):
            shutil.copytree(keep, evdir, dirs_exist_ok=True)
            shutil.rmtree(keep)
    finally:
        shutil.rmtree(root, ignore_errors=True)
    print("selftest: %d mutants, %d failures" % (len(muts), fails))
    return 1 if fails else 0


if __name__ == "__main__":
    sys.exit(main())
