use fidget_core::{context::Tree, vm::VmShape, render::ThreadPool};
use fidget_mesh::{Octree, Settings};
fn main() {
    std::panic::set_hook(Box::new(|_| {}));
    let t: Tree = (Tree::x().square() + Tree::y().square() + Tree::z().square()).sqrt() - 0.6;
    let shape = VmShape::from(t);
    for depth in [0u8, 1, 2] {
        for (label, threads) in [("none", None), ("global", Some(&ThreadPool::Global))] {
            let settings = Settings { depth, threads, ..Default::default() };
            let s = shape.clone();
            let r = std::panic::catch_unwind(std::panic::AssertUnwindSafe(|| { let vars = fidget_core::shape::ShapeVars::<f32>::new(); Octree::build(&s.bind(&vars).unwrap(), &settings) }.map(|o| o.walk_dual().triangles.len())));
            println!("depth {depth} threads {label}: {:?}", r.map_err(|_| "PANIC"));
        }
    }
}
