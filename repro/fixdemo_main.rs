use fidget_core::{context::{Context, Tree}, eval::{Function, MathFunction, TracingEvaluator}, var::Var, vm::VmFunction, shape::Shape};
use fidget_jit::JitFunction;
use std::collections::HashMap;

fn trace_point<F: Function + MathFunction>(label: &str) {
    let mut ctx = Context::new();
    let x = ctx.x(); let y = ctx.y(); let z = ctx.z();
    let m = ctx.min(x, y).unwrap();
    let n = ctx.max(m, z).unwrap();
    let f = F::new(&ctx, &[n]).unwrap();
    let tape = f.point_tape(Default::default());
    let mut e = F::new_point_eval();
    let vars = f.vars();
    let mut inp = vec![0f32; 3];
    inp[vars.get(&Var::X).unwrap()] = 1.0;
    inp[vars.get(&Var::Y).unwrap()] = 2.0;
    inp[vars.get(&Var::Z).unwrap()] = 3.0;
    let (out, trace) = e.eval(&tape, &inp).unwrap();
    println!("A {label}: out={:?} trace={:?}", out, trace.is_some());
    if let Some(t) = trace { let g = f.simplify(t, Default::default(), &mut Default::default()).unwrap(); println!("A {label}: simplified size {}", g.size()); }
}

fn main() {
    trace_point::<VmFunction>("vm");
    trace_point::<JitFunction>("jit");
    // B: 2 outputs with a decided choice
    {
        let mut ctx = Context::new();
        let x = ctx.x(); let y = ctx.y();
        let m = ctx.min(x, y).unwrap();
        let s = ctx.add(x, y).unwrap();
        let f = VmFunction::new(&ctx, &[m, s]).unwrap();
        let tape = f.point_tape(Default::default());
        let mut e = VmFunction::new_point_eval();
        let (out, trace) = e.eval(&tape, &[1.0, 2.0]).unwrap();
        println!("B out={:?}", out);
        let g = f.simplify(trace.unwrap(), Default::default(), &mut Default::default()).unwrap();
        let tape = g.point_tape(Default::default());
        let (out, _) = e.eval(&tape, &[1.0, 2.0]).unwrap();
        println!("B simplified out={:?}", out);
    }
    // C, D
    {
        use fidget_shapes::{types::{Plane, Vec2}, RevolveY, Circle};
        let t: Tree = Plane::XY.into();
        let mut ctx = Context::new();
        let n = ctx.import(&t);
        println!("C XY plane at (0,0,1) = {} at (0,1,0) = {}", ctx.eval_xyz(n, 0.0,0.0,1.0).unwrap(), ctx.eval_xyz(n,0.0,1.0,0.0).unwrap());
        let c: Tree = Circle { center: Vec2::new(2.0, 0.0), radius: 0.5 }.into();
        let r: Tree = RevolveY { shape: c, offset: 0.0 }.into();
        let n = ctx.import(&r);
        println!("D torus at (0,0,2) = {} (expect -0.5), at (0,2,0) = {}", ctx.eval_xyz(n, 0.0,0.0,2.0).unwrap(), ctx.eval_xyz(n, 0.0,2.0,0.0).unwrap());
    }
    // F
    {
        use fidget_solver::{solve, Parameter};
        let mut ctx = Context::new();
        let a = Var::new();
        let va = ctx.var(a);
        let e = ctx.sub(va, 1.0).unwrap();
        let f = VmFunction::new(&ctx, &[e]).unwrap();
        let mut vars = HashMap::new();
        vars.insert(a, Parameter::Fixed(1.0));
        println!("F satisfied all-fixed: {:?}", solve(&[f.clone()], &vars).map(|m| m.len()).map_err(|_| "singular"));
        vars.insert(a, Parameter::Fixed(3.0));
        println!("F unsatisfied all-fixed: {:?}", solve(&[f], &vars).map(|m| m.len()).map_err(|_| "singular"));
    }
    // G
    {
        let mut e = fidget_rhai::engine();
        let r1 = e.eval::<Tree>("rotate_z(#{shape: x, angle: 90})");
        let r2 = e.eval::<Tree>("x.rotate_z(#{angle: 90})");
        println!("G map: {} chained: {} equal: {}", r1.is_ok(), r2.is_ok(), r1.ok() == r2.ok());
    }
    // H
    {
        use fidget_raster::voxel::RenderConfig;
        let z = Tree::z();
        let s: Tree = z - 0.9;
        let mut ctx = Context::new(); let n = ctx.import(&s);
        let shape = fidget_core::vm::VmShape::new(&ctx, n).unwrap();
        let cfg = RenderConfig::from_size(32.into());
        let vars = fidget_core::shape::ShapeVars::<f32>::new();
        let img = cfg.run(shape.bind(&vars).unwrap());
        let p = img[(16usize,16usize)];
        println!("H depth={} normal={:?}", p.depth, p.normal);
    }
}
