// C05: the symbolic derivative of mod(x, y) with respect to y must equal
// -div_euclid(x, y) (what Grad::rem_euclid computes) wherever mod is differentiable.
use fidget_core::{
    context::Context,
    eval::{BulkEvaluator, Function, MathFunction},
    types::Grad,
    var::Var,
    vm::VmFunction,
};

fn main() {
    let mut ctx = Context::new();
    let x = ctx.x();
    let y = ctx.y();
    let m = ctx.modulo(x, y).unwrap();
    let dm_dy = ctx.deriv(m, Var::Y).unwrap();
    let f = VmFunction::new(&ctx, &[m]).unwrap();
    let tape = f.grad_slice_tape(Default::default());
    let mut eval = VmFunction::new_grad_slice_eval();
    let mut bad = 0;
    for &(px, py) in &[(1.5f32, 1.0f32), (-1.5, 1.0), (-1.5, 2.0), (1.5, -1.0), (-1.5, -1.0), (7.25, 2.0), (-7.25, 2.0)] {
        let sym = ctx.eval_xyz(dm_dy, px, py, 0.0).unwrap();
        let vars = f.vars();
        let mut inputs = vec![vec![Grad::from(0.0)]; vars.len()];
        inputs[vars.get(&Var::X).unwrap()] = vec![Grad::new(px, 1.0, 0.0, 0.0)];
        inputs[vars.get(&Var::Y).unwrap()] = vec![Grad::new(py, 0.0, 1.0, 0.0)];
        let out = eval.eval(&tape, &inputs).unwrap();
        let g = out[0][0];
        let truth = -(px.div_euclid(py));
        let ok = sym == truth && g.dy == truth;
        println!("x={px:6} y={py:5}: d/dy true={truth:5} grad-eval={:5} symbolic={sym:5} {}", g.dy, if ok { "" } else { "<-- MISMATCH" });
        if !ok { bad += 1; }
    }
    if bad > 0 { println!("FAIL: {bad} mismatches"); std::process::exit(1); }
    println!("ok");
}
