use fidget_gui::{Canvas2, CursorState};
use fidget_core::render::ImageSize;
use nalgebra::Point2;
fn under(c: &Canvas2, p: Point2<i32>) -> nalgebra::Point2<f32> {
    let w = c.image_size().transform_point(p);
    c.view().transform_point(&w)
}
fn main() {
    let size = ImageSize::new(400, 400);
    let mut c = Canvas2::new(size);
    let p0 = Point2::new(100, 120);
    let _ = c.interact(size, Some(CursorState { screen_pos: p0, drag: true }), 0.0);
    let grabbed = under(&c, p0);
    let p1 = Point2::new(150, 160);
    let _ = c.interact(size, Some(CursorState { screen_pos: p1, drag: true }), 0.0);
    println!("after drag:            grabbed {:?} under cursor {:?}", grabbed, under(&c, p1));
    // scroll while the button is still down
    let _ = c.interact(size, Some(CursorState { screen_pos: p1, drag: true }), 150.0);
    println!("after zoom (same evt): grabbed {:?} under cursor {:?}", grabbed, under(&c, p1));
    let p2 = Point2::new(170, 200);
    let _ = c.interact(size, Some(CursorState { screen_pos: p2, drag: true }), 0.0);
    println!("after further drag:    grabbed {:?} under cursor {:?}", grabbed, under(&c, p2));
}
