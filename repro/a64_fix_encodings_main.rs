use dynasmrt::{dynasm, DynasmApi};
fn hex(b: &[u8]) -> String { b.chunks(4).map(|c| format!("{:02x}{:02x}{:02x}{:02x}", c[3],c[2],c[1],c[0])).collect::<Vec<_>>().join(" ") }
fn main() {
    // call_fn_binary backup / restore with x3 (the fix) 
    let mut ops = dynasmrt::VecAssembler::<dynasmrt::aarch64::Aarch64Relocation>::new(0);
    dynasm!(ops
        ; .arch aarch64
        ; mov x20, x0
        ; mov x21, x1
        ; mov x22, x2
        ; mov x23, x3
        ; mov x0, x20
        ; mov x1, x21
        ; mov x2, x22
        ; mov x3, x23
    );
    println!("binary: {}", hex(&ops.finalize().unwrap()));
    let mem_offset: usize = 5000;
    let mut ops = dynasmrt::VecAssembler::<dynasmrt::aarch64::Aarch64Relocation>::new(0);
    dynasm!(ops
        ; .arch aarch64
        ; mov w28, mem_offset as u32
        ; sub sp, sp, w28
    );
    println!("push old: {}", hex(&ops.finalize().unwrap()));
    let mut ops = dynasmrt::VecAssembler::<dynasmrt::aarch64::Aarch64Relocation>::new(0);
    dynasm!(ops
        ; .arch aarch64
        ; mov w9, mem_offset as u32
        ; sub sp, sp, w9
    );
    println!("push new: {}", hex(&ops.finalize().unwrap()));
    let mut ops = dynasmrt::VecAssembler::<dynasmrt::aarch64::Aarch64Relocation>::new(0);
    dynasm!(ops
        ; .arch aarch64
        ; mov w9, mem_offset as u32
        ; add sp, sp, w9
    );
    println!("pop: {}", hex(&ops.finalize().unwrap()));
}
