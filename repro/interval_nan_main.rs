use fidget_core::{context::Context, eval::{Function, MathFunction, TracingEvaluator}, types::Interval, vm::VmFunction, var::Var};
fn run(label: &str, build: impl Fn(&mut Context) -> fidget_core::context::Node, x: Interval, y: Interval) {
    let mut ctx = Context::new();
    let n = build(&mut ctx);
    let f = VmFunction::new(&ctx, &[n]).unwrap();
    let tape = f.interval_tape(Default::default());
    let mut e = VmFunction::new_interval_eval();
    let vars = f.vars();
    let mut inp = vec![Interval::from(0.0); vars.len()];
    if let Some(i) = vars.get(&Var::X) { inp[i] = x; }
    if let Some(i) = vars.get(&Var::Y) { inp[i] = y; }
    let r = std::panic::catch_unwind(std::panic::AssertUnwindSafe(|| { let (o, _) = e.eval(&tape, &inp).unwrap(); o[0] }));
    println!("{label}: {:?}", r.map_err(|_| "PANIC"));
}
fn main() {
    std::panic::set_hook(Box::new(|_| {}));
    // x*y + x^2 : x*y = [-inf, 1e30], x^2 = [inf, inf]
    run("add  x*y + x^2, x=[1e30,1e30] y=[-1e30,1]", |c| { let x=c.x(); let y=c.y(); let a=c.mul(x,y).unwrap(); let b=c.square(x).unwrap(); c.add(a,b).unwrap() }, Interval::new(1e30,1e30), Interval::new(-1e30,1.0));
    run("sub  x^2 - y^2, x=[1e30,1e30] y=[1,1e30]", |c| { let x=c.x(); let y=c.y(); let a=c.square(x).unwrap(); let b=c.square(y).unwrap(); c.sub(a,b).unwrap() }, Interval::new(1e30,1e30), Interval::new(1.0,1e30));
    run("mul  x * inf, x=[0,1]", |c| { let x=c.x(); c.mul(x, f32::INFINITY).unwrap() }, Interval::new(0.0,1.0), Interval::new(0.0,0.0));
    run("mul  (x*x) * 1e-30 with x=[0,1e30] is fine", |c| { let x=c.x(); let a=c.square(x).unwrap(); c.mul(a, 1e-30).unwrap() }, Interval::new(0.0,1e30), Interval::new(0.0,0.0));
}
