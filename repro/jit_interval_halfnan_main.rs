use fidget_core::{context::Context, eval::{Function, MathFunction, TracingEvaluator}, types::Interval, var::Var};
use fidget_jit::JitFunction;
fn main() {
    // atan(x^2 - y^2) on x=[1e30,1e30], y=[1,1e30]:  x^2 = [inf,inf], y^2 = [1,inf]  -> lower = inf - inf = NaN ? upper = inf - 1 = inf
    // atan(exp(x) - exp(y)), x in [0,100], y = 100: exp(x) = [1, inf], exp(y) = [inf, inf] -> [1-inf, inf-inf] = [-inf, NaN]
    let mut ctx = Context::new();
    let x = ctx.x(); let y = ctx.y();
    let ex = ctx.exp(x).unwrap(); let ey = ctx.exp(y).unwrap();
    let d = ctx.sub(ex, ey).unwrap();
    let n = ctx.atan(d).unwrap();
    let which = std::env::args().nth(1).unwrap_or_default();
    if which == "vm" {
        let f = fidget_core::vm::VmFunction::new(&ctx, &[n]).unwrap();
        let tape = f.interval_tape(Default::default());
        let mut e = fidget_core::vm::VmFunction::new_interval_eval();
        let vars = f.vars();
        let mut inp = vec![Interval::from(0.0); vars.len()];
        if let Some(i) = vars.get(&Var::X) { inp[i] = Interval::new(0.0, 100.0); }
        if let Some(i) = vars.get(&Var::Y) { inp[i] = Interval::new(100.0, 100.0); }
        let (o, _) = e.eval(&tape, &inp).unwrap();
        println!("VM: {:?}", o[0]);
    } else {
        let f = JitFunction::new(&ctx, &[n]).unwrap();
        let tape = f.interval_tape(Default::default());
        let mut e = JitFunction::new_interval_eval();
        let vars = f.vars();
        let mut inp = vec![Interval::from(0.0); vars.len()];
        if let Some(i) = vars.get(&Var::X) { inp[i] = Interval::new(0.0, 100.0); }
        if let Some(i) = vars.get(&Var::Y) { inp[i] = Interval::new(100.0, 100.0); }
        let (o, _) = e.eval(&tape, &inp).unwrap();
        println!("JIT: {:?}", o[0]);
    }
}
