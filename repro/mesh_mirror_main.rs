// C08: winding under a mirroring world_to_model (negative determinant)
use fidget_core::{context::Tree, vm::VmShape};
use fidget_mesh::{Octree, Settings};
fn signed_volume(m: &fidget_mesh::Mesh) -> f32 {
    let mut v = 0.0f64;
    for t in &m.triangles {
        let a = m.vertices[t.x].cast::<f64>();
        let b = m.vertices[t.y].cast::<f64>();
        let c = m.vertices[t.z].cast::<f64>();
        v += a.dot(&b.cross(&c)) / 6.0;
    }
    v as f32
}
fn main() {
    let (x, y, z) = Tree::axes();
    let sphere = (x.square() + y.square() + z.square()).sqrt() - 0.5;
    let shape = VmShape::from(sphere);
    for (name, mat) in [
        ("identity", nalgebra::Matrix4::<f32>::identity()),
        ("scale(1.5)", nalgebra::Matrix4::new_scaling(1.5)),
        ("mirror x", nalgebra::Matrix4::new_nonuniform_scaling(&nalgebra::Vector3::new(-1.0, 1.0, 1.0))),
    ] {
        let settings = Settings { depth: 4, world_to_model: mat, threads: None, ..Default::default() };
        let vars = fidget_core::shape::ShapeVars::<f32>::new();
        let o = Octree::build(&shape.bind(&vars).unwrap(), &settings).unwrap();
        let m = o.walk_dual();
        println!("{name}: {} triangles, signed volume {:.4} (sphere r=0.5: {:.4})", m.triangles.len(), signed_volume(&m), 4.0/3.0*std::f32::consts::PI*0.125);
    }
}
