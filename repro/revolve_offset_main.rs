use fidget_core::context::{Context, Tree};
fn main() {
    use fidget_shapes::{types::Vec2, RevolveY, Circle};
    // circle of radius .5 centred at x=2, revolved about the vertical axis through x = 1
    let c: Tree = Circle { center: Vec2::new(2.0, 0.0), radius: 0.5 }.into();
    let r: Tree = RevolveY { shape: c, offset: 1.0 }.into();
    let mut ctx = Context::new();
    let n = ctx.import(&r);
    for p in [(2.0f32,0.0f32,0.0f32),(0.0,0.0,0.0),(1.0,0.0,1.0),(-4.0,0.0,0.0)] {
        println!("revolve about x=1: value at {:?} = {}", p, ctx.eval_xyz(n, p.0,p.1,p.2).unwrap());
    }
}
