use dynasmrt::{dynasm, DynasmApi};
fn hex(b: &[u8]) -> String { b.chunks(4).map(|c| format!("0x{:02x} 0x{:02x} 0x{:02x} 0x{:02x}", c[0],c[1],c[2],c[3])).collect::<Vec<_>>().join("\n") }
fn reg(r: u8) -> u8 { r + 8 }
fn main() {
    let out_reg: u8 = 3;
    let mut ops = dynasmrt::VecAssembler::<dynasmrt::aarch64::Aarch64Relocation>::new(0);
    dynasm!(ops
        ; .arch aarch64
        ; fadd V(reg(out_reg)).s2, V(reg(1)).s2, V(reg(2)).s2
        ; fcmeq v4.s2, V(reg(out_reg)).s2, V(reg(out_reg)).s2
        ; rev64 v5.s2, v4.s2
        ; and v4.b8, v4.b8, v5.b8
        ; mvn v4.b8, v4.b8
        ; orr V(reg(out_reg)).b8, V(reg(out_reg)).b8, v4.b8
    );
    println!("{}", hex(&ops.finalize().unwrap()));
}
