// C03 / C02: interval multiplication and division in the x86_64 JIT must enclose the true values (and agree
// with the interpreter) when one of the four corner products / quotients is NaN (0 * inf, inf / inf) although
// no operand is NaN.  Before the fix `vminps` / `vmaxps` (which return their second operand if either is NaN)
// dropped a valid corner in that case.
use fidget_core::{
    context::{Context, Node},
    eval::{Function, MathFunction, TracingEvaluator},
    types::Interval,
    var::Var,
    vm::VmFunction,
};
use fidget_jit::JitFunction;

fn run<F: Function + MathFunction>(ctx: &Context, root: Node, x: Interval, y: Interval) -> Interval {
    let f = F::new(ctx, &[root]).unwrap();
    let tape = f.interval_tape(Default::default());
    let mut eval = F::new_interval_eval();
    let vars = f.vars();
    let mut inputs = vec![Interval::from(0.0); vars.len()];
    if let Some(i) = vars.get(&Var::X) { inputs[i] = x; }
    if let Some(i) = vars.get(&Var::Y) { inputs[i] = y; }
    let (out, _trace) = eval.eval(&tape, &inputs).unwrap();
    out[0]
}

fn main() {
    let mut ctx = Context::new();
    let x = ctx.x();
    let y = ctx.y();
    let mut bad = 0;
    // 1. x * -exp(y), x in [0, 1], y in [0, 100]: exp(100) overflows, so -exp(y) is [-inf, -1]
    let e = ctx.exp(y).unwrap();
    let ne = ctx.neg(e).unwrap();
    let mul = ctx.mul(x, ne).unwrap();
    // 2. (-exp(x) - 1) / (-exp(y) - 1), x, y in [0, 100]: [-inf, -2] / [-inf, -2]
    let ex = ctx.exp(x).unwrap();
    let nex = ctx.neg(ex).unwrap();
    let a = ctx.sub(nex, 1.0).unwrap();
    let b = ctx.sub(ne, 1.0).unwrap();
    let div = ctx.div(a, b).unwrap();
    let cases = [
        ("x * -exp(y)", mul, Interval::new(0.0, 1.0), Interval::new(0.0, 100.0), (1.0f32, 50.0f32)),
        ("(-exp(x)-1) / (-exp(y)-1)", div, Interval::new(0.0, 100.0), Interval::new(0.0, 100.0), (0.0, 50.0)),
    ];
    for (name, root, bx, by, (px, py)) in cases {
        let vm = run::<VmFunction>(&ctx, root, bx, by);
        let jit = run::<JitFunction>(&ctx, root, bx, by);
        let v = ctx.eval_xyz(root, px, py, 0.0).unwrap() as f32;
        let enc = |iv: Interval| iv.has_nan() || (iv.lower() <= v && v <= iv.upper());
        let same = vm.lower().to_bits() == jit.lower().to_bits() && vm.upper().to_bits() == jit.upper().to_bits();
        println!("{name}: vm {vm:?} jit {jit:?} f({px}, {py}) = {v:e}  jit encloses: {} agrees with vm: {same}", enc(jit));
        if !enc(jit) || !enc(vm) || !same { bad += 1; }
    }
    if bad > 0 { println!("FAIL: {bad}"); std::process::exit(1); }
    println!("ok");
}
